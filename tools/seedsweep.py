#!/usr/bin/env python3
"""tools/seedsweep.py [--workers N] [--jobs J] [seed names...]: run every seeded
change against the check of its property (quick tier) on the current /repo HEAD
and write seeded/SWEEP.md (rewritten after every seed, so a sweep that is cut
short leaves what it has).  N seeds are tested at a time, each check with J
pool processes (VERIF_JOBS)."""
import os, sys, json, glob, subprocess, time, threading
V = os.path.dirname(os.path.dirname(os.path.abspath(__file__)))
args = sys.argv[1:]
workers, jobs = 4, 4
outname = "SWEEP.md"
while args and args[0].startswith("--"):
    if args[0] == "--out":
        outname = args[1]; args = args[2:]; continue
    if args[0] == "--workers":
        workers = int(args[1]); args = args[2:]
    elif args[0] == "--jobs":
        jobs = int(args[1]); args = args[2:]
    else:
        raise SystemExit("unknown option " + args[0])
head = subprocess.check_output(["git", "-C", "/repo", "log", "--format=%h", "-1"]).decode().strip()
vhead = subprocess.check_output(["git", "-C", V, "log", "--format=%h", "-1"]).decode().strip()
seeds = sorted(glob.glob(os.path.join(V, "seeded", "C*-*")),
               key=lambda s: (os.path.basename(s).split("-")[0], int(os.path.basename(s).split("-")[1])))
if args:
    seeds = [s for s in seeds if os.path.basename(s) in args]
# (a change that a later repair of /repo made harmless is kept for the record only)
seeds = [s for s in seeds if not json.load(open(os.path.join(s, "meta.json"))).get("obsolete")]
rows = {}
lock = threading.Lock()


def write():
    with open(os.path.join(V, "seeded", outname), "w") as f:
        f.write("# Sweep of the seeded changes against /repo HEAD %s with the checks of /verif %s (quick tier)\n\n" % (head, vhead))
        f.write("| seed | change | demo unchanged | demo patched | check | labels (first 3) | s |\n|---|---|---|---|---|---|---|\n")
        for s in seeds:
            r = rows.get(os.path.basename(s))
            if r is None:
                continue
            f.write("| %s | %s | exit=%s | exit=%s | %s | %s | %d |\n" % (
                r[0], r[6].replace("|", "/"), r[1], r[2], r[3], "; ".join("`%s`" % l for l in r[4]), r[5]))
        caught = sum(1 for r in rows.values() if "exit=1" in r[3])
        f.write("\n%d of %d seeded changes tested so far (of %d) are reported as VIOLATION by the quick tier of a check.\n"
                % (caught, len(rows), len(seeds)))


def one(seed):
    name = os.path.basename(seed)
    prop = name.split("-")[0]
    t0 = time.time()
    meta = json.load(open(os.path.join(seed, "meta.json")))
    checks = meta.get("checks") or [prop]      # "checks": other properties' checks that (also) catch it
    env = dict(os.environ, VERIF_JOBS=str(jobs))
    try:
        p = subprocess.run(["python3", os.path.join(V, "tools", "seedtest.py"), seed] + checks,
                           capture_output=True, text=True, timeout=5400, env=env)
        out = p.stdout
    except subprocess.TimeoutExpired:
        out = "check %s exit=timeout" % prop
    demo_u = [l for l in out.splitlines() if l.startswith("demo unchanged")]
    demo_p = [l for l in out.splitlines() if l.startswith("demo patched")]
    chk = [l for l in out.splitlines() if l.startswith("check ")]
    labels = [l.split("label:")[1].split(" partition:")[0].strip() for l in out.splitlines() if "label:" in l]
    row = (name, demo_u[0].split("exit=")[1][:6] if demo_u else "?", demo_p[0].split("exit=")[1][:6] if demo_p else "?",
           "; ".join(chk) if chk else "patch failed", sorted(set(labels))[:3], time.time() - t0,
           (meta.get("title") or "")[:110])
    with lock:
        rows[name] = row
        print(row); sys.stdout.flush()
        write()


todo = list(seeds)


def worker():
    while True:
        with lock:
            if not todo:
                return
            s = todo.pop(0)
        one(s)


ts = [threading.Thread(target=worker) for _ in range(workers)]
for t in ts:
    t.start()
for t in ts:
    t.join()
write()
