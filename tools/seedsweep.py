#!/usr/bin/env python3
"""tools/seedsweep.py: run every seeded change against the check of its
property (quick tier) on the current /repo HEAD and write seeded/SWEEP.md."""
import os, sys, json, glob, subprocess, time
V = os.path.dirname(os.path.dirname(os.path.abspath(__file__)))
rows = []
head = subprocess.check_output(["git", "-C", "/repo", "log", "--format=%h", "-1"]).decode().strip()
for seed in sorted(glob.glob(os.path.join(V, "seeded", "C*-*"))):
    name = os.path.basename(seed)
    prop = name.split("-")[0]
    t0 = time.time()
    meta = json.load(open(os.path.join(seed, "meta.json")))
    checks = meta.get("checks") or [prop]      # "checks": other properties' checks that (also) catch it
    p = subprocess.run(["python3", os.path.join(V, "tools", "seedtest.py"), seed] + checks,
                       capture_output=True, text=True, timeout=3600)
    out = p.stdout
    demo_u = [l for l in out.splitlines() if l.startswith("demo unchanged")]
    demo_p = [l for l in out.splitlines() if l.startswith("demo patched")]
    chk = [l for l in out.splitlines() if l.startswith("check ")]
    labels = [l.split("label:")[1].split(" partition:")[0].strip() for l in out.splitlines() if "label:" in l]
    rows.append((name, demo_u[0].split("exit=")[1][:6] if demo_u else "?", demo_p[0].split("exit=")[1][:6] if demo_p else "?",
                 "; ".join(chk) if chk else "patch failed", sorted(set(labels))[:3], time.time() - t0,
                 (meta.get("title") or "")[:110]))
    print(rows[-1]); sys.stdout.flush()
with open(os.path.join(V, "seeded", "SWEEP.md"), "w") as f:
    f.write("# Sweep of all seeded changes against /repo HEAD %s (quick tier)\n\n" % head)
    f.write("| seed | change | demo unchanged | demo patched | check | labels (first 3) | s |\n|---|---|---|---|---|---|---|\n")
    for r in rows:
        f.write("| %s | %s | exit=%s | exit=%s | %s | %s | %d |\n" % (r[0], r[6].replace("|", "/"), r[1], r[2], r[3], "; ".join("`%s`" % l for l in r[4]), r[5]))
    caught = sum(1 for r in rows if "exit=1" in r[3])
    f.write("\n%d of %d seeded changes are reported as VIOLATION by the quick tier of their property's check.\n" % (caught, len(rows)))
