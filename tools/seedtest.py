#!/usr/bin/env python3
"""tools/seedtest.py <seed dir> [check ids...]
Applies <seed dir>/patch.diff to a scratch copy of /repo/src, runs demo.py on
both trees and the given checks (default: the seed's property) against the
patched copy via NFC_SRC.  Prints one summary line per check.  The scratch
copy is removed afterwards."""
import sys, os, json, shutil, subprocess, tempfile
seed = os.path.abspath(sys.argv[1])
meta = json.load(open(os.path.join(seed, "meta.json"))) if os.path.exists(os.path.join(seed, "meta.json")) else {}
checks = sys.argv[2:] or [meta.get("property")]
tier = os.environ.get("SEED_TIER", "quick")
work = tempfile.mkdtemp(prefix="seedtest-", dir="/tmp")
try:
    shutil.copytree("/repo/src", os.path.join(work, "src"))
    r = subprocess.run(["patch", "-p1", "-s", "-d", work, "-i", os.path.join(seed, "patch.diff")], capture_output=True, text=True)
    if r.returncode:
        print("PATCH FAILED", r.stdout, r.stderr); sys.exit(2)
    demo = os.path.join(seed, "demo.py")
    if os.path.exists(demo):
        for name, src in (("unchanged", "/repo/src"), ("patched", os.path.join(work, "src"))):
            env = dict(os.environ, NFC_SRC=src, PYTHONPATH=src)
            d = subprocess.run(["/venv/bin/python", demo, src], capture_output=True, text=True, env=env, timeout=300)
            print("demo %-9s exit=%d %s" % (name, d.returncode, (d.stdout.strip().splitlines() or [""])[-1][:100]))
    for c in checks:
        env = dict(os.environ, NFC_SRC=os.path.join(work, "src"))
        only = ["--only", os.environ["SEED_ONLY"]] if os.environ.get("SEED_ONLY") else []
        p = subprocess.run(["./check", c, "--tier", tier] + only, capture_output=True, text=True, env=env, cwd="/verif", timeout=3600)
        lines = [l for l in p.stdout.splitlines() if l.startswith(("VIOLATION", "  label", "INCONCLUSIVE", "HARNESS", "KNOWN"))]
        print("check %s exit=%d" % (c, p.returncode))
        for l in lines[:8]:
            print("   ", l[:200])
        # replays produced against the patched copy are not kept
        for l in p.stdout.splitlines():
            if l.startswith("VIOLATION") and "replay=" in l:
                f = l.split("replay=")[1].strip()
                if os.path.exists(f):
                    os.remove(f)
finally:
    shutil.rmtree(work, ignore_errors=True)
