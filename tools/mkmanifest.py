#!/usr/bin/env python3
"""regenerate MANIFEST.json from the table below (keeps it schema-valid)"""
import json, os
V = os.path.dirname(os.path.dirname(os.path.abspath(__file__)))
TECH = "bounded symbolic execution of the real Python source (symx: z3 bit-vector terms behind int/bytes proxies, every branch and obligation decided by the solver, counterexamples and one witness per path replayed natively)"
NOTE = "trusted: CPython semantics as modelled by the proxies (validated per path by native replay), the loader's two AST rewrites, z3 (sampled queries re-decided by z3 4.8.12 and cvc5), the hand-written environment models and oracles listed in the evidence, the stated bounds"
CHECKS = {
 "C01": ("§4 C01", "for the listed Type 1/2/3/4 layouts (data-area sizes, control-TLV placements, Nbr/Nbw/Nmaxb, symbolic MLe/MLc over 1..FFFFh, the library's own Type 3 emulation) and message lengths from boundary sets, with all message bytes and all previous tag contents symbolic: the setter succeeds up to the reported capacity, a fresh activation reads back exactly the octets (proved as a formula), capacity <= what the layout holds, oversize is rejected before any command. Exhaustive over paths within those bounds."),
 "C02": ("§4 C02", "power cut before each state-changing command (lazy symbolic cut point) of an NDEF write on Type 1/2/3/4 worlds incl. NDEF TLV offsets 0..3 mod 4 and old/new lengths on both sides of 254/255; a fresh reader then sees none/unreadable/empty/old/new, proved for all contents. Known finding: Type 1 dynamic 3-byte length across a block boundary."),
 "C03": ("§4 C03", "every write command of an NDEF write or format(wipe) on Type 1/2/3/4 worlds leaves all bytes outside the NDEF message area (computed by the harness from the layout it generated) at their symbolic previous values, after every prefix of the operation, and addresses a unit that intersects the area."),
 "C05": ("§4 C05", "two real DataLinkConnections in ESTABLISHED state (and two real link controllers with collect/dispatch as the transfer step), symbolic RW of both ends and symbolic initial sequence offsets (modulo-16 wrap from the first step), all histories of up to 4 (thorough 6) operations from send/recv/transfer/busy/close: in-order exactly-once delivery, N(S)/N(R) consistency, outstanding <= announced RW, EMSGSIZE, checked against a reference sliding-window model. Blocking calls are events (WouldBlock); real thread schedules are outside the claim."),
 "C06": ("§4 C06", "real SNEP client and server fragment code as a strictly alternating pair over a reliable socket model with symbolic MIU (6..24 and real-range values), message bytes, acceptable lengths; handover with concrete messages and symbolic MIU: octets arrive identical, once; oversize is refused whole. Layer composition down to radio frames is outside the claim."),
 "C08": ("§4 C08", "activate + tag.ndef/length/capacity/octets/has_changed on mutations of valid Type 1-4 layouts whose mutated fields are symbolic (TLV length fields, capability container, control TLV values, attribute block incl. checksum, CC file fields, NLEN, ATS of 1..7 bytes, SENSB protocol info, short READ BINARY answers), a fully symbolic small Type 2 image, and silence from every command index: no exception, None or length <= capacity with the message inside the data area, bounded number of commands."),
 "C10": ("§4 C10", "collect() on a real link controller filled by scripts of up to 3 (thorough 5) queued items with a symbolic send-miu 128..2175 and aggregation on/off: every frame's information field <= send-miu, payloads within the receiver's MIU, decode(frame) dispatches the same PDUs in order; unit obligations for ServiceDiscovery/TCO dequeue with a symbolic budget."),
 "C11": ("§4 C11", "for every field value of the 14 PDU classes (symbolic, full ranges) decode(encode(p)) equals p field-wise and len(p)==len(encode(p)); for every byte string up to 6 (thorough 8) bytes decode is DecodeError or agrees with an independent reference decoder and re-encodes to an equal PDU; sub-PDUs of an aggregate equal the decoding of their own bytes. Exhaustive within those bounds."),
 "C13": ("§4 C13", "ContactlessFrontend.exchange through the real pn531/pn532/pn533/rcs956/acr122/arygon/rcs380/udp drivers on a host-link model: symbolic chip status bytes (all 256 values; RC-S380 status words), one injected host-link fault (IOError at each command, short/garbled/error frame): outcome is data, a CommunicationError subclass mapped as documented, or IOError. Known findings: several driver-internal exceptions escape."),
 "C14": ("§4 C14", "frames written by pn53x/ACR122/RC-S380 for symbolic payloads and boundary lengths are accepted by an independent parser; a fully symbolic response of every length 0..10 (thorough 16) is returned as data only if an independent validator accepts it, else IOError; calculate_crc (if-converted from the current AST, validated on vectors each run) equals ISO/IEC 13239 for all messages up to 7 bytes in one query and up to 24 by solver-checked prefix induction. Known findings in pn53x Chipset.command."),
 "C15": ("§4 C15", "every driver call made through every public ContactlessFrontend entry point within the C18 scenario bounds happens with the frontend lock held and the device installed; every syntactic self.device call site (AST scan of the current source) is reached by an explored path. The lock implementation and real thread schedules are outside the claim."),
 "C16": ("§4 C16", "one burst of 1..3 (thorough 4) failing exchanges (timeout/transmission/protocol; command or response lost) at every command position of read/write/presence/format/protect/dump on one world per tag type: shorter bursts than the documented attempts are absorbed with the fault-free result, otherwise TagCommandError with the matching errno or the documented None/False; bounded attempts; an answered write is not re-sent."),
 "C17": ("§4 C17", "histories of up to 3 (thorough 5) socket/bind/listen/close/sendto/resolve/connect-by-name operations on one or two real link controllers with symbolic addresses, SAPs and payloads, prefixes that exhaust the named and dynamic ranges, checked against a reference address table."),
 "C18": ("§4 C18", "connect()/sense()/listen()/exchange() over a recording scripted driver with enumerated option sets, callback results, terminate times and environments (tag, peer, reader), symbolic tag/peer bytes: callback order and counts, return values and driver-call discipline as documented. Known findings: on-release skipped when the driver raises after on-connect; SystemExit from llc.run."),
 "C20": ("§4 C20", "NTAG21x/Ultralight EV1: authenticate(p) true iff stored PWD/PACK equal the key derived from p, for all passwords, stored values and in-transit PACK changes (pure solver claim over 2^96 pairs). FeliCa Lite/Lite-S: the same under an ideal block cipher replacing pyDes (uninterpreted, injective), incl. read_with_mac tamper detection and write_with_mac; the DES computation itself is outside the claim."),
}
NA = {}
def main():
    checks = []
    for pid in sorted(CHECKS):
        ref, text = CHECKS[pid]
        checks.append(dict(property_id=pid, quick_cmd="./check %s --tier quick" % pid,
            thorough_cmd="./check %s --tier thorough" % pid,
            evidence_file="evidence/%s.json" % pid,
            replay_cmd_template="./check replay {path}", engine="symx",
            level_claimed=dict(category="model_checking", text=text, design_ref=ref),
            level_note=NOTE, technique=TECH))
    allp = [json.loads(l)["id"] for l in open(os.path.join(V, "properties.jsonl"))]
    na = [dict(property_id=p, reason=NA.get(p, "check not built yet in this round (see DESIGN.md §4 for the planned harness)")) for p in allp if p not in CHECKS]
    m = dict(version=1, setup_cmd="./setup.sh",
        hooks=dict(guard="NFCPY_NFCPY_VERIF", enable="no source hooks: the checks load /repo/src/nfc from source through their own import loader (symx/loader.py); nothing to enable",
                   baseline_off_cmd="python3 tools/baseline.py /repo", source_commits=[], add_only=True),
        engines=[dict(name="symx", path="symx/", serves_properties=sorted(CHECKS),
                      kind_free_text="re-execution based symbolic executor for the repository's own Python source; z3 bit-vector terms behind int/bytes proxies; DFS over decision prefixes; native replay of counterexamples and path witnesses")],
        checks=checks, not_applicable=na,
        notes="exit codes of ./check: 0 held, 1 violation (VIOLATION line), 2 inconclusive (budget/unsupported/vacuity), 3 harness error (counterexample or witness does not reproduce natively, solver disagreement)")
    json.dump(m, open(os.path.join(V, "MANIFEST.json"), "w"), indent=1)
if __name__ == "__main__":
    main()
