#!/usr/bin/env python3
"""regenerate MANIFEST.json from the table below (keeps it schema-valid)"""
import json, os
V = os.path.dirname(os.path.dirname(os.path.abspath(__file__)))
TECH = "bounded symbolic execution of the real Python source (symx: z3 bit-vector terms behind int/bytes proxies, every branch and obligation decided by the solver, counterexamples and one witness per path replayed natively)"
NOTE = "trusted: CPython semantics as modelled by the proxies (validated per path by native replay), the loader's two AST rewrites, z3 (sampled queries re-decided by z3 4.8.12 and cvc5), the hand-written environment models and oracles listed in the evidence, the stated bounds"
CHECKS = {
 "C11": ("§4 C11", "for every field value of the 14 PDU classes (symbolic, full ranges) decode(encode(p)) equals p field-wise and len(p)==len(encode(p)); for every byte string up to 6 (thorough 8) bytes decode is DecodeError or agrees with an independent reference decoder and re-encodes to an equal PDU; sub-PDUs of an aggregate equal the decoding of their own bytes. Exhaustive within those bounds, nothing claimed beyond."),
}
NA = {}
def main():
    checks = []
    for pid in sorted(CHECKS):
        ref, text = CHECKS[pid]
        checks.append(dict(property_id=pid, quick_cmd="./check %s --tier quick" % pid,
            thorough_cmd="./check %s --tier thorough" % pid,
            evidence_file="evidence/%s.json" % pid,
            replay_cmd_template="./check replay {path}", engine="symx",
            level_claimed=dict(category="model_checking", text=text, design_ref=ref),
            level_note=NOTE, technique=TECH))
    allp = [json.loads(l)["id"] for l in open(os.path.join(V, "properties.jsonl"))]
    na = [dict(property_id=p, reason=NA.get(p, "check not built yet in this round (see DESIGN.md §4 for the planned harness)")) for p in allp if p not in CHECKS]
    m = dict(version=1, setup_cmd="./setup.sh",
        hooks=dict(guard="NFCPY_NFCPY_VERIF", enable="no source hooks: the checks load /repo/src/nfc from source through their own import loader (symx/loader.py); nothing to enable",
                   baseline_off_cmd="python3 tools/baseline.py /repo", source_commits=[], add_only=True),
        engines=[dict(name="symx", path="symx/", serves_properties=sorted(CHECKS),
                      kind_free_text="re-execution based symbolic executor for the repository's own Python source; z3 bit-vector terms behind int/bytes proxies; DFS over decision prefixes; native replay of counterexamples and path witnesses")],
        checks=checks, not_applicable=na,
        notes="exit codes of ./check: 0 held, 1 violation (VIOLATION line), 2 inconclusive (budget/unsupported/vacuity), 3 harness error (counterexample or witness does not reproduce natively, solver disagreement)")
    json.dump(m, open(os.path.join(V, "MANIFEST.json"), "w"), indent=1)
if __name__ == "__main__":
    main()
