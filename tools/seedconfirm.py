#!/usr/bin/env python3
"""tools/seedconfirm.py [seed dirs...]: for each seeded change, in a scratch git
worktree of /repo (removed afterwards): apply patch.diff, run the repository's
suite against BASELINE.json (tools/baseline.py), run demo.py on the unchanged and
the patched tree, and record the outcome in meta.json under "coordinator"."""
import sys, os, json, subprocess, shutil, glob
# (threaded LLCP tests that hang on a loaded machine are cut after 3 minutes
# instead of 15; a test that fails for that reason shows up as MISSING and
# the suite is run once more)
os.environ.setdefault("BASELINE_TIMEOUT", "180")
V = os.path.dirname(os.path.dirname(os.path.abspath(__file__)))
seeds = [a for a in sys.argv[1:] if not a.startswith("--")] or sorted(glob.glob(os.path.join(V, "seeded", "C*-*")))
for seed in seeds:
    seed = os.path.abspath(seed)
    name = os.path.basename(seed)
    mp = os.path.join(seed, "meta.json")
    meta = json.load(open(mp))
    if meta.get("coordinator", {}).get("suite") and "--force" not in sys.argv:
        print(name, "already confirmed"); continue
    wt = "/tmp/seedconfirm-" + name
    subprocess.run(["git", "-C", "/repo", "worktree", "remove", "--force", wt], capture_output=True)
    subprocess.run(["git", "-C", "/repo", "worktree", "add", "-q", "--detach", wt, "HEAD"], check=True)
    try:
        head = subprocess.check_output(["git", "-C", "/repo", "log", "--format=%h", "-1"]).decode().strip()
        a = subprocess.run(["git", "-C", wt, "apply", os.path.join(seed, "patch.diff")], capture_output=True, text=True)
        rec = dict(repo_head=head, applied=a.returncode == 0)
        if a.returncode == 0:
            def suite():
                try:
                    return subprocess.run(["python3", os.path.join(V, "tools", "baseline.py"), wt],
                                          capture_output=True, text=True, timeout=2400)
                except subprocess.TimeoutExpired:
                    return subprocess.CompletedProcess([], 1, "suite run cut off after 40 minutes", "")
            b = suite()
            rec["suite"] = b.stdout.strip().splitlines()[0] if b.stdout.strip() else "no output"
            rec["suite_ok"] = b.returncode == 0
            if b.returncode != 0:
                # threaded LLCP tests are flaky under load: the tests that are
                # missing are run once more on their own (up to three times)
                missing = [l.strip().split("MISSING ", 1)[1] for l in b.stdout.splitlines() if "MISSING " in l]
                nodes = []
                for m in missing:
                    cls, tname = m.split("::", 1)
                    parts = cls.split(".")
                    k = max(i for i, x in enumerate(parts) if x.startswith("test_"))
                    nodes.append("/".join(parts[:k + 1]) + ".py::" + "::".join(parts[k + 1:] + [tname]))
                alone_ok = bool(nodes) and len(nodes) <= 20
                if alone_ok:
                    for attempt in range(3):
                        r = subprocess.run(["/venv/bin/python", "-m", "pytest", "-q", "-p", "no:cacheprovider",
                                            "--timeout=300"] + nodes, cwd=wt, capture_output=True, text=True,
                                           env=dict(os.environ, PYTHONPATH=os.path.join(wt, "src")))
                        if r.returncode == 0:
                            break
                    alone_ok = r.returncode == 0
                if alone_ok:
                    rec["suite_flaky_rerun_alone"] = nodes
                    b = subprocess.CompletedProcess([], 0, b.stdout.splitlines()[0] + " (missing tests pass when run alone)", "")
                else:
                    b = suite()
                rec["suite_retry"] = b.stdout.strip().splitlines()[0] if b.stdout.strip() else "no output"
                rec["suite_ok"] = b.returncode == 0
                rec["suite_missing"] = [l.strip() for l in b.stdout.splitlines() if "MISSING" in l][:5]
            for label, src in (("demo_unchanged", "/repo/src"), ("demo_patched", os.path.join(wt, "src"))):
                d = subprocess.run(["/venv/bin/python", os.path.join(seed, "demo.py"), src], capture_output=True, text=True,
                                   env=dict(os.environ, NFC_SRC=src, PYTHONPATH=src), timeout=600)
                rec[label] = "exit=%d %s" % (d.returncode, (d.stdout.strip().splitlines() or [""])[-1][:80])
        else:
            rec["apply_error"] = a.stderr[:300]
        rec["commands"] = "git worktree add; git apply patch.diff; tools/baseline.py <worktree>; demo.py on /repo/src and on the patched worktree; tools/seedtest.py seeded/%s (checks against the patched copy)" % name
        meta["coordinator"] = rec
        json.dump(meta, open(mp, "w"), indent=1)
        print(name, rec.get("suite"), rec.get("suite_ok"), rec.get("demo_unchanged"), "|", rec.get("demo_patched"))
    finally:
        subprocess.run(["git", "-C", "/repo", "worktree", "remove", "--force", wt], capture_output=True)
