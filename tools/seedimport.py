#!/usr/bin/env python3
"""tools/seedimport.py <Cxx> <agent worktree> : copy <worktree>/out/<n>/ (patch.diff, demo.py,
meta.json) to seeded/<Cxx>-<next free number>/, then confirm (tools/seedconfirm.py: scratch
worktree, suite, demo on both trees) and run the property's quick check against the patched
copy (tools/seedtest.py).  Output: one block per seed on stdout."""
import sys, os, json, glob, shutil, subprocess
V = os.path.dirname(os.path.dirname(os.path.abspath(__file__)))
prop, wt = sys.argv[1], sys.argv[2]
have = [int(os.path.basename(d).split("-")[1]) for d in glob.glob(os.path.join(V, "seeded", prop + "-*"))]
nxt = max(have or [0]) + 1
for out in sorted(glob.glob(os.path.join(wt, "out", "[0-9]*"))):
    if not (os.path.exists(os.path.join(out, "patch.diff")) and os.path.exists(os.path.join(out, "demo.py"))):
        continue
    dst = os.path.join(V, "seeded", "%s-%d" % (prop, nxt))
    nxt += 1
    os.makedirs(dst)
    for f in ("patch.diff", "demo.py", "meta.json"):
        if os.path.exists(os.path.join(out, f)):
            shutil.copy(os.path.join(out, f), os.path.join(dst, f))
    mp = os.path.join(dst, "meta.json")
    try:
        meta = json.load(open(mp))
    except Exception:
        meta = {"property": prop, "title": "(meta.json missing or invalid)"}
    meta["property"] = prop
    meta["round"] = int(os.environ.get("SEED_ROUND", "5"))
    json.dump(meta, open(mp, "w"), indent=1)
    print("==", os.path.basename(dst), meta.get("title"))
    sys.stdout.flush()
    subprocess.run(["python3", os.path.join(V, "tools", "seedconfirm.py"), dst])
    # the checks use all cores: one at a time
    subprocess.run(["flock", "/tmp/seedimport-check.lock", "python3", os.path.join(V, "tools", "seedtest.py"), dst])
    sys.stdout.flush()
