#!/usr/bin/env python3
"""Run the repository's test suite (guard off) and compare with /root/.vp/BASELINE.json.
usage: tools/baseline.py [repo_dir]   exit 0 iff every stable_pass test passes."""
import sys, json, subprocess, tempfile, os, xml.etree.ElementTree as ET
repo = sys.argv[1] if len(sys.argv) > 1 else "/repo"
base = json.load(open("/root/.vp/BASELINE.json"))
want = set(base["stable_pass"])
with tempfile.TemporaryDirectory() as d:
    x = os.path.join(d, "r.xml")
    env = dict(os.environ); env.pop("NFCPY_NFCPY_VERIF", None); env.pop("PYTHONPATH", None)
    env["PYTHONPATH"] = os.path.join(repo, "src")
    subprocess.run(["/venv/bin/python", "-m", "pytest", "-q", "-p", "no:cacheprovider", "--timeout=" + os.environ.get("BASELINE_TIMEOUT", "900"),
                    "--continue-on-collection-errors", "--junitxml=" + x], cwd=repo, env=env,
                   stdout=subprocess.DEVNULL, stderr=subprocess.DEVNULL)
    ok = set()
    for tc in ET.parse(x).getroot().iter("testcase"):
        if not any(c.tag in ("failure", "error", "skipped") for c in tc):
            ok.add("%s::%s" % (tc.get("classname"), tc.get("name")))
missing = sorted(want - ok)
print("baseline stable_pass=%d passing_now=%d missing=%d" % (len(want), len(ok & want), len(missing)))
for m in missing[:20]:
    print("  MISSING", m)
sys.exit(1 if missing else 0)
