"""Deterministic environment for both modes: virtual clock, fixed randomness.

These replace what the *environment* provides to nfc modules (the module
global `time`, `os.urandom`, `random`); no nfc source line is changed.
"""
import sys
import time as _real_time


class VClock(object):
    """time(): advances 100 us per call; sleep(d): advances d (ValueError for
    d < 0, as time.sleep)."""

    def __init__(self):
        self.t = 1000.0
        self.calls = 0

    def reset(self):
        self.t = 1000.0
        self.calls = 0

    def time(self):
        self.calls += 1
        self.t += 1e-4
        return self.t

    monotonic = time
    perf_counter = time

    def sleep(self, d):
        # like time.sleep(): a negative length is an error, not a no-op
        try:
            negative = bool(d < 0)
        except TypeError:
            negative = False
        if negative:
            raise ValueError("sleep length must be non-negative")
        try:
            self.t += float(d)
        except TypeError:
            self.t += 0.001

    def strftime(self, *a):
        return "T"

    def localtime(self, *a):
        return _real_time.localtime(0)

    def gmtime(self, *a):
        return _real_time.gmtime(0)


CLOCK = VClock()


def patch_module(module):
    """POST_LOAD hook / native patch: bind the module global `time` of an nfc
    module to the virtual clock."""
    if getattr(module, "time", None) is _real_time:
        module.time = CLOCK


def patch_loaded():
    for name, m in list(sys.modules.items()):
        if m is not None and (name == "nfc" or name.startswith("nfc.")):
            patch_module(m)


def reset():
    CLOCK.reset()
