"""symx prototype: re-execution based symbolic executor for (a subset of) Python.

Values are proxies over z3 bit-vector terms (64 bit, signed, with conservative
Python-side interval tracking so that the machine arithmetic provably equals
Python's unbounded integer arithmetic).  Control flow forks in __bool__ via
Ctx.branch(); concretisation (__index__/__hash__) forks over *all* feasible
values.  Exploration is DFS by re-execution with recorded decision prefixes.
"""
import z3
import time as _time

W = 64
LIM = 1 << 62


class SxAbort(BaseException):
    pass


class Unsupported(SxAbort):
    pass


class Budget(SxAbort):
    pass


class StepBudget(SxAbort):
    pass


class HarnessBug(SxAbort):
    """an exception raised by harness/environment code (no nfc frame)"""


class Nondeterminism(SxAbort):
    pass


class Infeasible(SxAbort):
    pass


CTX = None


_BV = {}


def bv(v):
    # constants are immutable z3 terms of the global context: build once
    r = _BV.get(v)
    if r is None:
        r = z3.BitVecVal(v, W)
        if -4096 <= v <= 70000:
            _BV[v] = r
    return r


class Ctx:
    """One exploration: DFS over decision prefixes by re-execution."""

    def __init__(self, max_paths=10**9, max_time=10**9, conc_cap=4096,
                 max_steps=200000, logic="QF_BV"):
        # logic "" selects z3's default incremental SMT core instead of the
        # QF_BV tactic solver (harness LIMITS key 'logic'): the latter, once a
        # first check has been made, can take seconds to refute a query that
        # repeats an asserted checksum term (C14 response acceptance)
        self.solver = z3.SolverFor(logic) if logic else z3.Solver()
        self.max_paths = max_paths
        self.max_time = max_time
        self.conc_cap = conc_cap
        self.max_steps = max_steps
        self.max_path_time = 90
        self.stats = dict(paths=0, solver_calls=0, solver_time=0.0,
                          branches=0, checks=0, discharged=0, forks=0,
                          pruned=0, trivially_true=0)
        self.pending = []
        self.reached = {}
        self.assumes = set()
        self.export = None      # list collecting (smt2, expected) samples
        self.export_every = 0

    # -- per run state -----------------------------------------------------
    def begin(self, prefix, model):
        self.prefix = prefix
        self.model = model
        self.trail = []
        self.nvars = 0
        self.inputs = {}
        self.violations = []
        self.path_reached = set()
        self.steps = 0
        self.path_t0 = _time.time()
        self.solver.push()

    def end(self):
        self.solver.pop()

    def fresh(self, name, lo, hi):
        if name is None:
            name = "v%d" % self.nvars
        self.nvars += 1
        if name in self.inputs:
            raise Nondeterminism("duplicate input name " + name)
        # narrow variable, zero-extended: no domain constraint needed when the
        # range is a power of two, and much lighter bit-blasting
        span = hi - lo
        k = max(span.bit_length(), 1)
        if k < W - 1:
            v = z3.BitVec(name, k)
            x = z3.ZeroExt(W - k, v)
            if lo != 0:
                x = x + bv(lo)
            dom = None if span == (1 << k) - 1 else z3.ULE(v, z3.BitVecVal(span, k))
        else:
            x = z3.BitVec(name, W)
            dom = z3.And(x >= lo, x <= hi)
        if dom is not None:
            self.solver.add(dom)
            if self.model is not None and len(self.trail) >= len(self.prefix) \
                    and not z3.is_true(self.model.eval(dom, model_completion=True)):
                self.model = None  # stale: does not cover the new variable
        self.inputs[name] = x
        return SymInt(x, lo, hi)

    def _check(self, *extra):
        t = _time.time()
        self.stats['solver_calls'] += 1
        r = self.solver.check(*extra)
        self.stats['solver_time'] += _time.time() - t
        if r == z3.unknown:
            raise Unsupported("solver unknown")
        if self.export is not None and self.export_every and \
                self.stats['solver_calls'] % self.export_every == 0 and \
                len(self.export) < 400:
            self.export.append((self._to_smt2(extra), str(r)))
        return r == z3.sat

    def _to_smt2(self, extra):
        s = z3.Solver()
        s.add(self.solver.assertions())
        for e in extra:
            s.add(e)
        return s.to_smt2()

    def ensure_model(self):
        if self.model is None:
            if not self._check():
                raise Infeasible()
            self.model = self.solver.model()

    def _step(self):
        self.stats['branches'] += 1
        self.steps += 1
        if self.steps > self.max_steps:
            raise StepBudget("more than %d decisions on one path"
                             % self.max_steps)
        if self.steps % 256 == 0 and \
                _time.time() - self.path_t0 > self.max_path_time:
            raise StepBudget("one path runs longer than %d s (%d decisions)"
                             % (self.max_path_time, self.steps))

    def branch(self, cond, tag=None):
        """cond: z3 BoolRef. returns python bool, registers alternative."""
        self._step()
        i = len(self.trail)
        if i < len(self.prefix):
            ent = self.prefix[i]
            if ent[0] == 'c' or ent[1] != cond.hash():
                raise Nondeterminism("branch %d differs on replay" % i)
            self.trail.append(ent)
            self.solver.add(cond if ent[0] else z3.Not(cond))
            return ent[0]
        self.ensure_model()
        val = z3.is_true(self.model.eval(cond, model_completion=True))
        alt = z3.Not(cond) if val else cond
        h = cond.hash()
        if self._check(alt):
            self.stats['forks'] += 1
            # model for the alternative is what check() just produced
            self.pending.append((self.trail + [(not val, h)],
                                 self.solver.model()))
        self.trail.append((val, h))
        self.solver.add(cond if val else z3.Not(cond))
        return val

    def concretize(self, e, lo, hi):
        """multi-way fork over every feasible value of bit-vector term e
        (one trail entry; alternatives enumerated with blocking clauses)."""
        self._step()
        i = len(self.trail)
        if i < len(self.prefix):
            ent = self.prefix[i]
            if ent[0] != 'c':
                raise Nondeterminism("concretisation %d differs on replay" % i)
            self.trail.append(ent)
            self.solver.add(e == bv(ent[1]))
            return ent[1]
        self.ensure_model()
        v0 = self.model.eval(e, model_completion=True).as_signed_long()
        self.solver.push()
        self.solver.add(e != bv(v0))
        n = 0
        while self._check():
            m = self.solver.model()
            v = m.eval(e, model_completion=True).as_signed_long()
            self.pending.append((self.trail + [('c', v)], m))
            self.stats['forks'] += 1
            self.solver.add(e != bv(v))
            n += 1
            if n > self.conc_cap:
                self.solver.pop()
                raise Unsupported("concretisation cap")
            if _time.time() - self.path_t0 > self.max_path_time:
                # (an enumeration of thousands of values, one solver call
                # each, must not escape the per-path time budget)
                self.solver.pop()
                raise StepBudget("concretisation runs longer than %d s" % self.max_path_time)
        self.solver.pop()
        self.trail.append(('c', v0))
        self.solver.add(e == bv(v0))
        return v0

    def check(self, cond, msg):
        """obligation: cond must hold on this path for all inputs.  A violated
        obligation is recorded with its model and the path continues under
        the assumption that cond holds."""
        self.stats['checks'] += 1
        if isinstance(cond, SymInt):
            cond = cond != 0
        if isinstance(cond, SymBool):
            cond = cond.e
        elif not isinstance(cond, z3.BoolRef):
            cond = bool(cond)
        if cond is True:
            self.stats['discharged'] += 1
            self.stats['trivially_true'] += 1
            return True
        if cond is False:
            self.ensure_model()
            self.violations.append((msg, self.assignment(self.model)))
            raise Infeasible()
        if len(self.trail) < len(self.prefix):
            # still replaying the parent's decisions: the parent decided this
            # very obligation under the identical path condition (and recorded
            # the violation, if any); keep the same assumption, no new query
            self.stats['replayed_checks'] = self.stats.get('replayed_checks', 0) + 1
            self.stats['checks'] -= 1
            self.solver.add(cond)
            return True
        if self._check(z3.Not(cond)):
            self.violations.append((msg, self.assignment(self.solver.model())))
            if not self._check(cond):
                raise Infeasible()
            m = self.solver.model()     # before add(): add() drops the model
            self.solver.add(cond)
            if len(self.trail) >= len(self.prefix):
                self.model = m
            # else: still replaying the parent's decisions; the pending
            # item's model satisfies the whole prefix *and* cond (the parent
            # asserted cond before it forked), m only the part replayed so far
            return False
        self.stats['discharged'] += 1
        return True

    def assume(self, cond, why=""):
        self.assumes.add(why)
        if isinstance(cond, SymInt):
            cond = cond != 0
        if isinstance(cond, SymBool):
            cond = cond.e
        elif not isinstance(cond, z3.BoolRef):
            cond = bool(cond)
        if cond is True:
            return
        if cond is False:
            raise Infeasible()
        self.solver.add(cond)
        if self.model is not None and \
                not z3.is_true(self.model.eval(cond, model_completion=True)):
            self.model = None
            if len(self.trail) >= len(self.prefix):
                self.ensure_model()

    def reach(self, label):
        self.path_reached.add(label)

    def assignment(self, model):
        out = {}
        for name, x in self.inputs.items():
            out[name] = model.eval(x, model_completion=True).as_signed_long()
        return out

    def final_model(self):
        self.ensure_model()
        return self.model

    def explore(self, fn, on_path=None):
        """fn(ctx) -> outcome.  on_path(outcome_or_exc, ctx) is called while the
        path's solver frame is still open (model available)."""
        t0 = _time.time()
        self.pending = [([], None)]
        self.aborts = []
        while self.pending:
            prefix, model = self.pending.pop()
            self.begin(prefix, model)
            try:
                try:
                    out = fn(self)
                    kind = 'ok'
                except Infeasible:
                    out, kind = None, 'pruned'
                    self.stats['pruned'] += 1
                except StepBudget as e:
                    out, kind = e, 'steps'
                except Nondeterminism:
                    raise
                except Unsupported as e:
                    out, kind = e, 'unsupported'
                if len(self.trail) < len(self.prefix):
                    raise Nondeterminism("path ended before its prefix")
                if on_path is not None:
                    on_path(kind, out, self)
                for l in self.path_reached:
                    self.reached[l] = self.reached.get(l, 0) + 1
            finally:
                self.end()
            self.stats['paths'] += 1
            if self.stats['paths'] >= self.max_paths or \
                    _time.time() - t0 > self.max_time:
                raise Budget("paths=%d pending=%d" % (self.stats['paths'],
                                                      len(self.pending)))
        self.stats['wall'] = _time.time() - t0


def _iv_and(a, b):
    # interval of x & y
    (al, ah), (bl, bh) = a, b
    if al >= 0 and bl >= 0:
        return (0, min(ah, bh))
    if al >= 0:
        return (0, ah)
    if bl >= 0:
        return (0, bh)
    m = max(abs(al), abs(ah) + 1, abs(bl), abs(bh) + 1)
    p = 1 << m.bit_length()
    return (-p, p - 1)


def _iv_or(a, b):
    (al, ah), (bl, bh) = a, b
    if al >= 0 and bl >= 0:
        p = 1 << max(ah, bh).bit_length()
        return (max(al, bl), p - 1)
    m = max(abs(al), abs(ah) + 1, abs(bl), abs(bh) + 1)
    p = 1 << m.bit_length()
    return (-p, p - 1)


def _chk(lo, hi):
    if lo < -LIM or hi > LIM:
        raise Unsupported("integer range exceeds 62 bit")


def lift(x):
    """python int/bool/SymInt/SymBool -> (z3 term, lo, hi)"""
    if isinstance(x, SymInt):
        return x.e, x.lo, x.hi
    if isinstance(x, SymBool):
        return z3.If(x.e, bv(1), bv(0)), 0, 1
    if isinstance(x, bool):
        x = int(x)
    if isinstance(x, int):
        _chk(x, x)
        return bv(x), x, x
    return None


def mk(e, lo, hi):
    _chk(lo, hi)
    if lo == hi:
        return lo
    return SymInt(e, lo, hi)


class SymInt(object):
    # vals: optional tuple of the only values the term can take (set for
    # 2 ** x); lets MonoFloat compare two monotone floats without forking
    __slots__ = ("e", "lo", "hi", "vals")

    def __init__(self, e, lo, hi):
        self.e, self.lo, self.hi = e, lo, hi

    # arithmetic ------------------------------------------------------------
    def __add__(self, o):
        r = lift(o)
        if r is None:
            return NotImplemented
        if r[1] == 0 and r[2] == 0:
            return self         # x + 0 (sum() starts every total with 0 + x)
        return mk(self.e + r[0], self.lo + r[1], self.hi + r[2])
    __radd__ = __add__

    def __sub__(self, o):
        r = lift(o)
        if r is None:
            return NotImplemented
        return mk(self.e - r[0], self.lo - r[2], self.hi - r[1])

    def __rsub__(self, o):
        r = lift(o)
        if r is None:
            return NotImplemented
        return mk(r[0] - self.e, r[1] - self.hi, r[2] - self.lo)

    def __mul__(self, o):
        if isinstance(o, float):
            if o >= 0:
                return MonoFloat(self, lambda v: v * o)
            return int(self) * o
        if isinstance(o, MonoFloat):
            return NotImplemented
        r = lift(o)
        if r is None:
            return NotImplemented
        c = [self.lo * r[1], self.lo * r[2], self.hi * r[1], self.hi * r[2]]
        return mk(self.e * r[0], min(c), max(c))
    __rmul__ = __mul__

    def __neg__(self):
        return mk(-self.e, -self.hi, -self.lo)

    def __pos__(self):
        return self

    def __invert__(self):
        return mk(~self.e, -self.hi - 1, -self.lo - 1)

    def __abs__(self):
        if self.lo >= 0:
            return self
        return mk(z3.If(self.e < 0, -self.e, self.e), 0,
                  max(abs(self.lo), abs(self.hi)))

    @staticmethod
    def _divmod(a, b):
        (ae, al, ah), (be, bl, bh) = a, b
        if bl <= 0 <= bh:
            if CTX.branch(be == bv(0)):
                raise ZeroDivisionError("integer division or modulo by zero")
            if bl == 0:
                bl = 1
            if bh == 0:
                bh = -1
        if bl == bh and bl > 0 and bl & (bl - 1) == 0:
            # concrete power of two: floor division / modulo of a two's
            # complement value are an arithmetic shift and a mask (same
            # values as the general terms below, far cheaper to bit-blast)
            k = bl.bit_length() - 1
            q = ae >> bv(k)
            r = ae & bv(bl - 1)
            return (q, al >> k, ah >> k), \
                (r, 0, min(ah, bl - 1) if al >= 0 else bl - 1)
        if al >= 0 and bl > 0:
            q, r = z3.UDiv(ae, be), z3.URem(ae, be)
            return (q, al // bh, ah // bl), (r, 0, min(ah, bh - 1))
        q0, r0 = ae / be, z3.SRem(ae, be)
        adj = z3.And(r0 != 0, (r0 < 0) != (be < 0))
        q = z3.If(adj, q0 - 1, q0)
        r = z3.If(adj, r0 + be, r0)
        m = max(abs(al), abs(ah))
        bm = max(abs(bl), abs(bh))
        return (q, -m - 1, m + 1), (r, -bm, bm)

    def __floordiv__(self, o):
        r = lift(o)
        if r is None:
            return NotImplemented
        q, _ = SymInt._divmod(lift(self), r)
        return mk(*q)

    def __rfloordiv__(self, o):
        r = lift(o)
        if r is None:
            return NotImplemented
        q, _ = SymInt._divmod(r, lift(self))
        return mk(*q)

    def __mod__(self, o):
        r = lift(o)
        if r is None:
            return NotImplemented
        _, m = SymInt._divmod(lift(self), r)
        return mk(*m)

    def __rmod__(self, o):
        r = lift(o)
        if r is None:
            return NotImplemented
        _, m = SymInt._divmod(r, lift(self))
        return mk(*m)

    def __divmod__(self, o):
        return (self // o, self % o)

    def __truediv__(self, o):
        if isinstance(o, (int, float)) and not isinstance(o, bool) and o > 0:
            return MonoFloat(self, lambda v: v / o)
        return int(self) / o

    def __rtruediv__(self, o):
        return o / int(self)

    def __pow__(self, o):
        return int(self) ** o

    def __rpow__(self, o):
        if o == 2 and self.lo >= 0 and self.hi < 62:
            r = mk(bv(1) << self.e, 1 << self.lo, 1 << self.hi)
            if isinstance(r, SymInt):
                r.vals = tuple(1 << k for k in range(self.lo, self.hi + 1))
            return r
        return o ** int(self)

    # bitwise ---------------------------------------------------------------
    def __and__(self, o):
        r = lift(o)
        if r is None:
            return NotImplemented
        lo, hi = _iv_and((self.lo, self.hi), (r[1], r[2]))
        return mk(self.e & r[0], lo, hi)
    __rand__ = __and__

    def __or__(self, o):
        r = lift(o)
        if r is None:
            return NotImplemented
        lo, hi = _iv_or((self.lo, self.hi), (r[1], r[2]))
        return mk(self.e | r[0], lo, hi)
    __ror__ = __or__

    def __xor__(self, o):
        r = lift(o)
        if r is None:
            return NotImplemented
        lo, hi = _iv_or((self.lo, self.hi), (r[1], r[2]))
        if self.lo >= 0 and r[1] >= 0:
            lo = 0
        return mk(self.e ^ r[0], lo, hi)
    __rxor__ = __xor__

    @staticmethod
    def _shift(a, b, left):
        (ae, al, ah), (be, bl, bh) = a, b
        if bl < 0:
            if CTX.branch(be < 0):
                raise ValueError("negative shift count")
            bl = 0
        if left:
            if bh > 62:
                raise Unsupported("shift count")
            c = [al << bl, al << bh, ah << bl, ah << bh]
            return mk(ae << be, min(c), max(c))
        if bh > 63:
            be = z3.If(be > 63, bv(63), be)
        c = [al >> bl, al >> min(bh, 63), ah >> bl, ah >> min(bh, 63)]
        return mk(ae >> be, min(c), max(c))  # z3 >> is arithmetic shift

    def __lshift__(self, o):
        r = lift(o)
        return NotImplemented if r is None else SymInt._shift(lift(self), r, 1)

    def __rlshift__(self, o):
        r = lift(o)
        return NotImplemented if r is None else SymInt._shift(r, lift(self), 1)

    def __rshift__(self, o):
        r = lift(o)
        return NotImplemented if r is None else SymInt._shift(lift(self), r, 0)

    def __rrshift__(self, o):
        r = lift(o)
        return NotImplemented if r is None else SymInt._shift(r, lift(self), 0)

    # comparison ------------------------------------------------------------
    def _cmp(self, o, op):
        r = lift(o)
        if r is None:
            if isinstance(o, float):
                return getattr(MonoFloat(self, float), op)(o)
            return NotImplemented
        oe, ol, oh = r
        if op == '__eq__':
            if self.hi < ol or self.lo > oh:
                return False
            return SymBool(self.e == oe)
        if op == '__ne__':
            if self.hi < ol or self.lo > oh:
                return True
            return SymBool(self.e != oe)
        if op == '__lt__':
            if self.hi < ol:
                return True
            if self.lo >= oh:
                return False
            return SymBool(self.e < oe)
        if op == '__le__':
            if self.hi <= ol:
                return True
            if self.lo > oh:
                return False
            return SymBool(self.e <= oe)
        if op == '__gt__':
            if self.lo > oh:
                return True
            if self.hi <= ol:
                return False
            return SymBool(self.e > oe)
        if op == '__ge__':
            if self.lo >= oh:
                return True
            if self.hi < ol:
                return False
            return SymBool(self.e >= oe)

    def __eq__(self, o):
        r = self._cmp(o, '__eq__')
        return False if r is NotImplemented else r

    def __ne__(self, o):
        r = self._cmp(o, '__ne__')
        return True if r is NotImplemented else r

    def __lt__(self, o): return self._cmp(o, '__lt__')
    def __le__(self, o): return self._cmp(o, '__le__')
    def __gt__(self, o): return self._cmp(o, '__gt__')
    def __ge__(self, o): return self._cmp(o, '__ge__')

    # conversions -----------------------------------------------------------
    def __bool__(self):
        if self.lo > 0 or self.hi < 0:
            return True
        return CTX.branch(self.e != bv(0))

    def __index__(self):
        return CTX.concretize(self.e, self.lo, self.hi)
    __int__ = __index__

    def __hash__(self):
        return hash(self.__index__())

    def __float__(self):
        return float(self.__index__())

    def __format__(self, spec):
        return "<sym>"

    def __repr__(self):
        return "<sym[%d..%d]>" % (self.lo, self.hi)
    __str__ = __repr__

    def bit_length(self):
        return int(self).bit_length()


class SymBool(object):
    __slots__ = ("e",)

    def __init__(self, e):
        self.e = e

    def __bool__(self):
        return CTX.branch(self.e)

    def __invert__(self):
        return SymBool(z3.Not(self.e))

    def _lift(self, o):
        if isinstance(o, SymBool):
            return o.e
        if isinstance(o, bool):
            return z3.BoolVal(o)
        return None

    def __and__(self, o):
        e = self._lift(o)
        if e is None:
            return mk(*lift(self)) & o
        return SymBool(z3.And(self.e, e))
    __rand__ = __and__

    def __or__(self, o):
        e = self._lift(o)
        if e is None:
            return mk(*lift(self)) | o
        return SymBool(z3.Or(self.e, e))
    __ror__ = __or__

    def __eq__(self, o):
        e = self._lift(o)
        if e is None:
            return mk(*lift(self)) == o
        return SymBool(self.e == e)

    def __ne__(self, o):
        e = self._lift(o)
        if e is None:
            return mk(*lift(self)) != o
        return SymBool(self.e != e)

    def __hash__(self):
        return hash(bool(self))

    def __index__(self):
        return int(bool(self))
    __int__ = __index__

    def __lshift__(self, o): return SymInt(*lift(self)) << o
    def __add__(self, o): return SymInt(*lift(self)) + o
    __radd__ = __add__
    def __mul__(self, o): return SymInt(*lift(self)) * o
    __rmul__ = __mul__

    def __format__(self, spec):
        return "<symbool>"

    def __repr__(self):
        return "<symbool>"


UNSHIM = {}     # shim class -> builtin (filled by sbytes)


def sx_is(a, b):
    if isinstance(a, (SymInt, SymBool)) or isinstance(b, (SymInt, SymBool)):
        if a is None or b is None:
            return False
        if isinstance(a, (SymInt, SymBool, int)) and \
                isinstance(b, (SymInt, SymBool, int)):
            return bool(a == b)
        return False
    if isinstance(a, type):
        a = UNSHIM.get(a, a)
    if isinstance(b, type):
        b = UNSHIM.get(b, b)
    return a is b


def sx_isnot(a, b):
    return not sx_is(a, b)


def _conj(a, b):
    """a and b for python bools / SymBool, without forking"""
    if a is False or b is False:
        return False
    if a is True:
        return b
    if b is True:
        return a
    return SymBool(z3.And(a.e, b.e))


class MonoFloat(object):
    """float-valued monotone non-decreasing function f of one symbolic integer
    x (f is a python callable on concrete ints).  Comparisons against concrete
    floats are decided exactly by bisection over x's interval and become
    integer threshold constraints on x."""
    __slots__ = ("x", "f")

    def __init__(self, x, f):
        self.x, self.f = x, f

    def _thr(self, pred):
        """smallest v in [lo, hi+1] with pred(f(v)) true; pred monotone
        (false...false true...true)."""
        lo, hi = self.x.lo, self.x.hi + 1
        while lo < hi:
            mid = (lo + hi) // 2
            if pred(self.f(mid)):
                hi = mid
            else:
                lo = mid + 1
        return lo

    def _cmp2(self, o, strict):
        """self > o (strict) / self >= o for another MonoFloat.  When one of
        the two integers is known to take few values only (SymInt.vals, e.g.
        2 ** rwt) the comparison is the exact formula
        OR_v (x == v and other <rel> f(v)) - no fork; otherwise both sides
        are concretised (as before)."""
        va = getattr(self.x, 'vals', None)
        vb = getattr(o.x, 'vals', None)
        terms = []
        if va is not None and len(va) <= 64:
            for v in va:
                c = self.f(v)
                rel = (o < c) if strict else (o <= c)
                terms.append(_conj(self.x == v, rel))
        elif vb is not None and len(vb) <= 64:
            for v in vb:
                c = o.f(v)
                rel = (self > c) if strict else (self >= c)
                terms.append(_conj(o.x == v, rel))
        else:
            return (float(self) > float(o)) if strict \
                else (float(self) >= float(o))
        if any(t is True for t in terms):
            return True
        terms = [t.e for t in terms if t is not False]
        if not terms:
            return False
        return SymBool(z3.Or(*terms))

    def __gt__(self, o):
        if isinstance(o, MonoFloat):
            return self._cmp2(o, True)
        return self.x >= self._thr(lambda v: v > o)

    def __ge__(self, o):
        if isinstance(o, MonoFloat):
            return self._cmp2(o, False)
        return self.x >= self._thr(lambda v: v >= o)

    def __lt__(self, o):
        r = self.__ge__(o)
        return (not r) if isinstance(r, bool) else ~r

    def __le__(self, o):
        r = self.__gt__(o)
        return (not r) if isinstance(r, bool) else ~r

    def __eq__(self, o):
        return (self >= o) & (self <= o)

    def __ne__(self, o):
        r = self.__eq__(o)
        return (not r) if isinstance(r, bool) else ~r

    def __hash__(self):
        return hash(float(self))

    def _lin(self, g):
        f = self.f
        return MonoFloat(self.x, lambda v: g(f(v)))

    def __mul__(self, o):
        if isinstance(o, (int, float)) and o >= 0:
            return self._lin(lambda y: y * o)
        return float(self) * o
    __rmul__ = __mul__

    def __truediv__(self, o):
        if isinstance(o, (int, float)) and o > 0:
            return self._lin(lambda y: y / o)
        return float(self) / o

    def __add__(self, o):
        if isinstance(o, (int, float)):
            return self._lin(lambda y: y + o)
        return float(self) + o
    __radd__ = __add__

    def __sub__(self, o):
        if isinstance(o, (int, float)):
            return self._lin(lambda y: y - o)
        return float(self) - o

    def __float__(self):
        return self.f(self.x.__index__())

    def __int__(self):
        return int(float(self))

    def __bool__(self):
        return bool(self != 0.0)

    def __rtruediv__(self, o):
        return o / float(self)

    def __rsub__(self, o):
        return o - float(self)

    def __neg__(self):
        return -float(self)

    def __pow__(self, o):
        return float(self) ** o

    def __rpow__(self, o):
        return o ** float(self)

    def __format__(self, spec):
        return "<monofloat>"

    def __repr__(self):
        return "<monofloat>"
