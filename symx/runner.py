"""Partition runner (symbolic, in pool workers), native replay driver and the
check driver that merges results, applies the findings protocol and writes
evidence."""
import os
import sys
import json
import time
import random
import hashlib
import importlib
import traceback
import subprocess
import multiprocessing

VERIF = os.path.dirname(os.path.dirname(os.path.abspath(__file__)))

EXIT_OK, EXIT_VIOLATION, EXIT_INCONCLUSIVE, EXIT_HARNESS = 0, 1, 2, 3


def nfc_src():
    return os.environ.get("NFC_SRC", "/repo/src")


def exc_label(e):
    """label of an exception that left the code under test: type and the
    innermost frame inside the nfc package."""
    site = "?"
    src = os.path.realpath(nfc_src())
    tb = e.__traceback__
    while tb is not None:
        fn = os.path.realpath(tb.tb_frame.f_code.co_filename)
        if fn.startswith(src):
            mod = fn[len(src) + 1:-3].replace(os.sep, ".")
            if mod.endswith(".__init__"):
                mod = mod[:-9]
            site = "%s:%s" % (mod, tb.tb_frame.f_code.co_name)
        tb = tb.tb_next
    return "uncaught:%s@%s" % (type(e).__name__, site)


# --------------------------------------------------------------------------
# symbolic side
# --------------------------------------------------------------------------

def _monitor_functions(found):
    """collect qualified names of nfc.* functions entered (sys.monitoring)"""
    mon = sys.monitoring
    tool = 3
    src = os.path.realpath(nfc_src())
    try:
        mon.use_tool_id(tool, "symx")
    except ValueError:
        pass

    def on_start(code, offset):
        fn = code.co_filename
        if fn.startswith(src) or os.path.realpath(fn).startswith(src):
            rel = os.path.realpath(fn)[len(src) + 1:-3].replace(os.sep, ".")
            found.add("%s:%s" % (rel, code.co_qualname))
        return mon.DISABLE

    mon.register_callback(tool, mon.events.PY_START, on_start)
    mon.set_events(tool, mon.events.PY_START)

    def stop():
        mon.set_events(tool, 0)
        mon.register_callback(tool, mon.events.PY_START, None)
        mon.free_tool_id(tool)
    return stop


def run_partition(job):
    """runs in a pool worker.  job: dict(module, part, tier, seed, limits)"""
    from . import core, loader, envpatch, api
    loader.install()
    if envpatch.patch_module not in loader.POST_LOAD:
        loader.POST_LOAD.append(envpatch.patch_module)
    mod = importlib.import_module(job['module'])
    envpatch.patch_loaded()
    part = job['part']
    fn = getattr(mod, part['fn'])
    params = part.get('params', {})
    lim = job['limits']
    ctx = core.Ctx(max_paths=lim['max_paths'], max_time=lim['max_time'],
                   max_steps=part.get('max_steps', lim['max_steps']),
                   logic=part.get('logic', lim.get('logic', "QF_BV")))
    core.CTX = ctx
    # one solver query may not run for ever (a query that is cut off comes
    # back `unknown`: the path aborts, the check is inconclusive - never a pass)
    ctx.solver.set("timeout", int(1000 * part.get('solver_timeout', lim.get('solver_timeout', 120))))
    ctx.max_path_time = part.get('max_path_time', lim.get('max_path_time', 90))
    ctx.export = []
    ctx.export_every = lim.get('export_every', 0)
    rng = random.Random("%s/%s/%s" % (job['seed'], job['module'], part['name']))
    res = dict(name=part['name'], fn=part['fn'], params=params,
               violations=[], witnesses=[], aborts=[], outcomes={},
               functions=[], error=None)
    wit_cap = lim['witness_cap']
    nwit = [0]
    funcs = set()
    stop_mon = [None]

    import signal

    def on_alarm(signum, frame):
        raise core.StepBudget("one path runs longer than %d s of wall time"
                              % (ctx.max_path_time + 30))
    try:
        signal.signal(signal.SIGALRM, on_alarm)
        have_alarm = True
    except ValueError:
        have_alarm = False

    def path_fn(cx):
        if have_alarm:
            signal.alarm(int(cx.max_path_time) + 30)
        try:
            return path_body(cx)
        finally:
            if have_alarm:
                signal.alarm(0)

    def path_body(cx):
        sx = api.SymAPI(cx)
        envpatch.reset()
        if hasattr(mod, 'reset'):
            mod.reset(sx)
        try:
            out = fn(sx, **params)
            if job.get('twin'):
                # reachability twin: every path that gets to the end of the
                # harness must be able to fail an obligation placed there
                cx.check(False, "reachability-twin")
            return out
        except core.SxAbort:
            raise
        except Exception as e:
            label = exc_label(e)
            if label.endswith("@?"):
                # raised by harness/env code itself, not by the code under test
                raise core.HarnessBug(traceback.format_exc()[-1200:])
            cx.check(False, label)

    def on_path(kind, out, cx):
        for label, asg in cx.violations:
            res['violations'].append(dict(label=label, assignment=asg))
        if kind in ('steps', 'unsupported'):
            asg = None
            try:
                asg = cx.assignment(cx.final_model())
            except core.SxAbort:
                pass
            res['aborts'].append(dict(kind=kind, msg=str(out), assignment=asg))
            return
        if kind != 'ok':
            return
        try:
            model = cx.final_model()
            val = api.evaluate(out, model)
        except core.Infeasible:
            return
        key = json.dumps(val, sort_keys=True)
        if len(key) > 200:
            key = key[:60] + "#" + hashlib.sha1(key.encode()).hexdigest()[:10]
        res['outcomes'][key] = res['outcomes'].get(key, 0) + 1
        # reservoir sample of witnesses for native replay
        nwit[0] += 1
        w = dict(assignment=cx.assignment(model), outcome=val,
                 reached=sorted(cx.path_reached))
        if len(res['witnesses']) < wit_cap:
            res['witnesses'].append(w)
        else:
            j = rng.randrange(nwit[0])
            if j < wit_cap:
                res['witnesses'][j] = w
        if stop_mon[0] is not None and cx.stats['paths'] >= 30:
            stop_mon[0]()
            stop_mon[0] = None

    try:
        stop_mon[0] = _monitor_functions(funcs)
    except Exception:
        stop_mon[0] = None
    t0 = time.time()
    try:
        ctx.explore(path_fn, on_path)
        res['exhaustive'] = True
    except core.Budget as e:
        res['exhaustive'] = False
        res['error'] = "budget: %s" % e
    except core.Nondeterminism as e:
        res['exhaustive'] = False
        res['error'] = "nondeterminism: %s" % e
    except core.SxAbort as e:
        res['exhaustive'] = False
        res['error'] = "%s: %s" % (type(e).__name__, e)
    except Exception:
        res['exhaustive'] = False
        res['error'] = "engine: " + traceback.format_exc()
    finally:
        if stop_mon[0] is not None:
            stop_mon[0]()
    res['wall'] = time.time() - t0
    res['stats'] = ctx.stats
    res['reached'] = ctx.reached
    res['assumes'] = sorted(a for a in ctx.assumes if a)
    res['functions'] = sorted(funcs)
    res['export'] = ctx.export[:lim.get('export_cap', 4)]
    return res


# --------------------------------------------------------------------------
# native side (fresh interpreter, unmodified nfc)
# --------------------------------------------------------------------------

def native_main():
    """stdin: JSON dict(module, fn, params, cases=[assignment...]).
    stdout: JSON list of dict(outcome, failed, reached, error)."""
    from . import loader, envpatch, api
    loader.install_native()
    req = json.load(sys.stdin)
    mod = importlib.import_module(req['module'])
    envpatch.patch_loaded()
    fn = getattr(mod, req['fn'])
    params = req.get('params', {})
    out = []
    real_stdout = sys.stdout
    sys.stdout = sys.stderr
    for asg in req['cases']:
        sx = api.NativeAPI(asg)
        envpatch.reset()
        envpatch.patch_loaded()
        if hasattr(mod, 'reset'):
            mod.reset(sx)
        r = dict(outcome=None, failed=[], reached=[], error=None)
        try:
            val = fn(sx, **params)
            if req.get('twin'):
                sx.check(False, "reachability-twin")
            r['outcome'] = api.evaluate(val, None)
        except api.CheckFailed as e:
            r['failed'] = list(sx.failed)
        except api.ReplayMismatch as e:
            r['error'] = "mismatch: %s" % e
        except Exception as e:
            r['failed'] = [exc_label(e)]
            r['trace'] = traceback.format_exc()[-1500:]
        r['reached'] = sorted(sx.reached)
        out.append(r)
        real_stdout.write(json.dumps(r) + "\n")
        real_stdout.flush()
    sys.stdout = real_stdout


def native_run(module, fn, params, cases, timeout=600, twin=False):
    """-> list of result dicts (shorter than cases if the child died or hung;
    the last element then has error set)."""
    req = json.dumps(dict(module=module, fn=fn, params=params, cases=cases, twin=twin))
    env = dict(os.environ)
    env['PYTHONPATH'] = VERIF
    env.pop('PYTHONHASHSEED', None)
    p = subprocess.Popen([sys.executable, "-c",
                          "from symx.runner import native_main; native_main()"],
                         stdin=subprocess.PIPE, stdout=subprocess.PIPE,
                         stderr=subprocess.PIPE, cwd=VERIF, env=env)
    try:
        so, se = p.communicate(req.encode(), timeout=timeout)
        hung = False
    except subprocess.TimeoutExpired:
        p.kill()
        so, se = p.communicate()
        hung = True
    res = []
    for line in so.decode().splitlines():
        try:
            res.append(json.loads(line))
        except ValueError:
            pass
    if len(res) < len(cases):
        res.append(dict(outcome=None, failed=[], reached=[],
                        error="hang" if hung else
                        "native process died: " + se.decode()[-800:]))
    return res


def _native_job(job):
    return job['key'], native_run(job['module'], job['fn'], job['params'],
                                  job['cases'], job.get('timeout', 600))
