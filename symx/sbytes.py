"""Symbolic byte sequences (concrete length, symbolic items) and shims."""
import builtins
import struct as _struct
import binascii as _binascii
import re as _re
import z3
from . import core
from .core import SymInt, SymBool, Unsupported, bv, lift

_bytes, _bytearray, _isinstance, _int, _type = bytes, bytearray, isinstance, int, type
_memoryview = memoryview
_pack, _unpack, _unpack_from, _calcsize = _struct.pack, _struct.unpack, _struct.unpack_from, _struct.calcsize
_hexlify = _binascii.hexlify


def _is_sym(x):
    return _isinstance(x, (SymInt, SymBool))


def _norm_items(items):
    out = []
    for x in items:
        if _isinstance(x, SymBool):
            x = core.mk(*lift(x))
        if _isinstance(x, SymInt):
            if x.lo < 0 or x.hi > 255:
                if core.CTX.branch(z3.Or(x.e < 0, x.e > 255)):
                    raise ValueError("byte must be in range(0, 256)")
                x = SymInt(x.e, max(x.lo, 0), min(x.hi, 255))
        elif _isinstance(x, _int):
            if not 0 <= x <= 255:
                raise ValueError("byte must be in range(0, 256)")
        else:
            raise TypeError("an integer is required")
        out.append(x)
    return out


def _items_of(x):
    if _isinstance(x, SymBytes):
        return x.items
    if _isinstance(x, (_bytes, _bytearray, _memoryview)):
        return list(x)
    return None


def _wrap(items, mutable):
    if mutable:
        return SymBytes(items, True)
    if not any(_is_sym(x) for x in items):
        return _bytes(items)
    return SymBytes(items, False)


def _idx(i, n):
    """resolve (possibly symbolic) index against length n -> python int"""
    if _isinstance(i, (SymInt, SymBool)):
        i = i.__index__()
    elif not _isinstance(i, _int):
        i = i.__index__()
    if i < 0:
        i += n
    if not 0 <= i < n:
        raise IndexError("index out of range")
    return i


def _slc(s, n=None):
    """concretise slice bounds; a symbolic bound is first tested against the
    sequence length so that `data[:miu]` with miu in 128..2175 and 40 bytes of
    data costs one branch, not 2048."""
    def c(v):
        if not _is_sym(v):
            return v
        if _isinstance(v, SymBool):
            return v.__index__()
        if n is not None:
            if v.hi >= n and (v >= n):
                return n
            if v.lo <= -n and (v <= -n):
                return -n
        return v.__index__()
    step = s.step.__index__() if _is_sym(s.step) else s.step
    return slice(c(s.start), c(s.stop), step)


class SymBytes(object):
    __slots__ = ("_items", "mutable", "pending")

    def __init__(self, items, mutable, pending=None):
        self._items = items
        self.mutable = mutable
        self.pending = pending      # symbolic total length not yet fixed

    @property
    def items(self):
        if self.pending is not None:
            n = self.pending.__index__()
            self.pending = None
            self._items.extend([0] * (n - len(self._items)))
        return self._items

    @items.setter
    def items(self, v):
        self._items = v

    def __len__(self):
        return len(self.items)

    def __bool__(self):
        return len(self.items) > 0

    def __iter__(self):
        return iter(list(self.items))

    def __getitem__(self, k):
        if _isinstance(k, slice):
            return _wrap(self.items[_slc(k, len(self.items))], self.mutable)
        return self.items[_idx(k, len(self.items))]

    def __setitem__(self, k, v):
        assert self.mutable
        if self.pending is not None and _isinstance(k, _int) and k >= 0:
            if k >= len(self._items):
                if not (k < self.pending):
                    raise IndexError("bytearray index out of range")
                self._items.extend([0] * (k + 1 - len(self._items)))
            self._items[k] = _norm_items([v])[0]
            return
        if _isinstance(k, slice):
            it = _items_of(v)
            if it is None:
                it = list(v)
            self.items[_slc(k, len(self.items))] = _norm_items(it)
        else:
            self.items[_idx(k, len(self.items))] = _norm_items([v])[0]

    def __delitem__(self, k):
        assert self.mutable
        if _isinstance(k, slice):
            del self.items[_slc(k, len(self.items))]
        else:
            del self.items[_idx(k, len(self.items))]

    def _cat(self, a, b):
        return _wrap(a + b, self.mutable)

    def __add__(self, o):
        it = _items_of(o)
        if it is None:
            return NotImplemented
        return _wrap(self.items + it, self.mutable)

    def __radd__(self, o):
        it = _items_of(o)
        if it is None:
            return NotImplemented
        return _wrap(it + self.items, _isinstance(o, _bytearray))

    def __iadd__(self, o):
        it = _items_of(o)
        if it is None:
            return NotImplemented
        if self.mutable:
            self.items.extend(it)
            return self
        return _wrap(self.items + it, False)

    def __mul__(self, n):
        return _wrap(self.items * n.__index__(), self.mutable)
    __rmul__ = __mul__

    def _eq(self, o):
        it = _items_of(o)
        if it is None:
            return False
        if len(it) != len(self.items):
            return False
        conj = []
        for a, b in zip(self.items, it):
            if _is_sym(a) or _is_sym(b):
                r = (a == b)
                if r is False:
                    return False
                if r is not True:
                    conj.append(r.e)
            elif a != b:
                return False
        if not conj:
            return True
        return SymBool(z3.And(*conj))

    def __eq__(self, o):
        return self._eq(o)

    def __ne__(self, o):
        r = self._eq(o)
        return (not r) if _isinstance(r, bool) else ~r

    def __contains__(self, x):
        for a in self.items:
            if a == x:
                return True
        return False

    def _concrete(self):
        if any(_is_sym(x) for x in self.items):
            raise Unsupported("symbolic bytes reached C level")
        return _bytes(self.items)

    def __hash__(self):
        return hash(self._concrete())

    def __bytes__(self):
        return self._concrete()

    def __buffer__(self, flags):
        return _memoryview(self._concrete())

    def __repr__(self):
        return "<symbytes len=%d>" % len(self.items)
    __str__ = __repr__

    def __format__(self, spec):
        return repr(self)

    def startswith(self, p, *a):
        if isinstance(p, tuple):
            # CPython: true if any of the prefixes matches (tested in order)
            for q in p:
                if self.startswith(q, *a):
                    return True
            return False
        p = _items_of(p)
        return SymBytes(self.items[:len(p)], False)._eq(_wrap(p, False)) \
            if len(self.items) >= len(p) else False

    def endswith(self, p):
        if isinstance(p, tuple):
            for q in p:
                if self.endswith(q):
                    return True
            return False
        p = _items_of(p)
        return SymBytes(self.items[len(self.items) - len(p):], False)._eq(
            _wrap(p, False)) if len(self.items) >= len(p) else False

    def pop(self, i=-1):
        assert self.mutable
        if not self.items:
            raise IndexError("pop from empty bytearray")
        return self.items.pop(_idx(i, len(self.items)))

    def append(self, x):
        self.items.append(_norm_items([x])[0])

    def extend(self, xs):
        it = _items_of(xs)
        self.items.extend(_norm_items(list(xs)) if it is None else it)

    def insert(self, i, x):
        self.items.insert(i, _norm_items([x])[0])

    def clear(self):
        del self.items[:]

    def copy(self):
        return SymBytes(list(self.items), self.mutable)

    def hex(self):
        return "<symhex>"

    def decode(self, encoding="utf-8", errors="strict"):
        # the resulting text is not modelled (placeholder), but whether the
        # call raises is: 7-bit codecs refuse any octet >= 80h
        enc = str(encoding).lower().replace("_", "-")
        if errors == "strict" and enc in ("ascii", "us-ascii"):
            for i, a in enumerate(self.items):
                if a >= 0x80:           # forks when the octet is symbolic
                    raise UnicodeDecodeError(
                        "ascii", _bytes(len(self.items)), i, i + 1,
                        "ordinal not in range(128)")
        return "<symstr>"

    def index(self, x):
        for i, a in enumerate(self.items):
            if a == x:
                return i
        raise ValueError("subsection not found")

    # strip family: exact bytes/bytearray semantics; one fork per examined
    # end byte (is it in the strip set?), so the result length is concrete
    _WS = b" \t\n\r\x0b\x0c"

    def _strip_set(self, chars):
        if chars is None:
            return list(self._WS)
        it = _items_of(chars)
        if it is None:
            raise TypeError("a bytes-like object is required, not '%s'"
                            % _type(chars).__name__)
        if any(_is_sym(c) for c in it):
            raise Unsupported("strip with symbolic strip set")
        return sorted(set(it))

    @staticmethod
    def _member(x, cs):
        if not _is_sym(x):
            return x in cs
        cond = False
        for c in cs:
            r = (x == c)
            if r is True:
                return True
            if r is not False:
                cond = r if cond is False else (cond | r)
        return bool(cond)

    def _strip(self, chars, left, right):
        cs = self._strip_set(chars)
        items = self.items
        lo, hi = 0, len(items)
        if left:
            while lo < hi and self._member(items[lo], cs):
                lo += 1
        if right:
            while hi > lo and self._member(items[hi - 1], cs):
                hi -= 1
        return _wrap(list(items[lo:hi]), self.mutable)

    def strip(self, chars=None):
        return self._strip(chars, True, True)

    def lstrip(self, chars=None):
        return self._strip(chars, True, False)

    def rstrip(self, chars=None):
        return self._strip(chars, False, True)


def sx_bytes(*args):
    if not args:
        return b""
    x = args[0]
    if _isinstance(x, SymBytes):
        return _wrap(list(x.items), False)
    if _isinstance(x, (list, tuple)) and any(_is_sym(i) for i in x):
        return _wrap(_norm_items(x), False)
    if _is_sym(x):
        return _bytes(x.__index__())
    if len(args) == 1 and not _isinstance(
            x, (_bytes, _bytearray, _memoryview, str, _int, list, tuple)):
        # user class with __bytes__ (e.g. rcs380.Frame): the C-level bytes()
        # insists on a real bytes result, but inside shimmed modules
        # __bytes__ may legitimately produce a SymBytes
        meth = getattr(_type(x), "__bytes__", None)
        if meth is not None:
            r = meth(x)
            if _isinstance(r, SymBytes):
                return _wrap(list(r.items), False)
            if not _isinstance(r, _bytes):
                raise TypeError("__bytes__ returned non-bytes (type %s)"
                                % _type(r).__name__)
            return r
    return _bytes(*args)


class _BytearrayMeta(type):
    def __instancecheck__(cls, obj):
        return _isinstance(obj, _bytearray) or (
            _isinstance(obj, SymBytes) and obj.mutable)

    # `type(x) == bytearray` inside shimmed modules (sx_type() answers with
    # the builtin class, the name `bytearray` is this shim)
    def __eq__(cls, other):
        return other is cls or other is _bytearray

    def __ne__(cls, other):
        return not (other is cls or other is _bytearray)

    __hash__ = type.__hash__


class sx_bytearray(metaclass=_BytearrayMeta):
    """bytearray() inside nfc modules always yields a mutable SymBytes."""

    @staticmethod
    def fromhex(s):
        return SymBytes(list(_bytearray.fromhex(s)), True)

    def __new__(cls, *args):
        if not args:
            return SymBytes([], True)
        x = args[0]
        if _isinstance(x, SymBytes):
            return SymBytes(list(x.items), True)
        if _isinstance(x, SymInt):
            if x < 0:
                raise ValueError("negative count")
            return SymBytes([], True, pending=x)
        if _is_sym(x):
            x = x.__index__()
        if _isinstance(x, _int):
            return SymBytes([0] * x, True)
        if _isinstance(x, (_bytes, _bytearray, _memoryview)):
            return SymBytes(list(x), True)
        if _isinstance(x, str):
            return SymBytes(list(_bytearray(*args)), True)
        return SymBytes(_norm_items(list(x)), True)


def sx_isinstance(obj, cls):
    if _isinstance(obj, (SymInt, SymBool, SymBytes)):
        if not _isinstance(cls, tuple):
            cls = (cls,)
        for c in cls:
            if _isinstance(obj, SymInt) and c in (_int, sx_int):
                return True
            if _isinstance(obj, SymBool) and c in (_int, bool, sx_int):
                return True
            if _isinstance(obj, SymBytes):
                if c in (_bytes, sx_bytes_t) and not obj.mutable:
                    return True
                if c in (_bytearray, sx_bytearray) and obj.mutable:
                    return True
        return False
    if _isinstance(cls, tuple):
        cls = tuple(_bytearray if c is sx_bytearray else
                    _bytes if c is sx_bytes_t else
                    _int if c is sx_int else c for c in cls)
    elif cls is sx_bytearray:
        cls = _bytearray
    elif cls is sx_bytes_t:
        cls = _bytes
    elif cls is sx_int:
        cls = _int
    return _isinstance(obj, cls)


class _IntMeta(type):
    def __instancecheck__(cls, obj):
        return _isinstance(obj, (_int, SymInt, SymBool))

    # `type(x) == int` (pn53x.Chipset.write_register)
    def __eq__(cls, other):
        return other is cls or other is _int

    def __ne__(cls, other):
        return not (other is cls or other is _int)

    __hash__ = type.__hash__


class sx_int(metaclass=_IntMeta):
    from_bytes = _int.from_bytes

    def __new__(cls, *args, **kw):
        if args and _isinstance(args[0], SymInt):
            return args[0]
        if args and _isinstance(args[0], SymBool):
            return core.mk(*lift(args[0]))
        return _int(*args, **kw)


class _BytesMeta(type):
    def __instancecheck__(cls, obj):
        return _isinstance(obj, _bytes) or (
            _isinstance(obj, SymBytes) and not obj.mutable)

    def __eq__(cls, other):
        return other is cls or other is _bytes

    def __ne__(cls, other):
        return not (other is cls or other is _bytes)

    __hash__ = type.__hash__


class sx_bytes_t(metaclass=_BytesMeta):
    fromhex = _bytes.fromhex
    maketrans = _bytes.maketrans

    def __new__(cls, *args, **kw):
        return sx_bytes(*args, **kw)


def sx_type(*args):
    if len(args) == 1:
        x = args[0]
        if _isinstance(x, SymInt):
            return _int
        if _isinstance(x, SymBool):
            return bool
        if _isinstance(x, SymBytes):
            return _bytearray if x.mutable else _bytes
    return _type(*args)


def sx_memoryview(x):
    if _isinstance(x, SymBytes):
        return x
    return _memoryview(x)


def sx_hexlify(x, *a):
    if _isinstance(x, SymBytes):
        return b"<symhex>"
    return _hexlify(x, *a)


# ---------------------------------------------------------------- '%' formatting
class SymFmt(str):
    """result of `"template" % args` when an argument is symbolic: a
    placeholder text that remembers template and arguments, so that the struct
    shim can use a symbolic repeat count ('%ds' % L) without enumerating L."""
    def __new__(cls, tmpl, args):
        s = str.__new__(cls, "<symfmt %s>" % tmpl)
        s.tmpl, s.args = tmpl, args
        return s


def sx_mod(fmt, args):
    tup = args if _isinstance(args, tuple) else (args,)
    if _isinstance(args, dict) or not any(
            _isinstance(a, (SymInt, SymBool, SymBytes, core.MonoFloat))
            for a in tup):
        return fmt % args
    return SymFmt(fmt, tup)


def sx_join(sep, seq):
    """`b"literal".join(seq)`: bytes.join itself unless an element is a
    SymBytes (then the same concatenation on items; result is immutable like
    bytes.join's)."""
    seq = list(seq)
    if not any(_isinstance(x, SymBytes) for x in seq):
        return sep.join(seq)
    out = []
    for i, x in enumerate(seq):
        it = _items_of(x)
        if it is None:
            raise TypeError("sequence item %d: expected a bytes-like object, "
                            "%s found" % (i, _type(x).__name__))
        if i:
            out.extend(sep)
        out.extend(it)
    return _wrap(out, False)


# ---------------------------------------------------------------- struct shim
_FMT = _re.compile(r"(\d*|\x00)([xcbB?hHiIlLqQsp])")
_SIZE = dict(x=1, c=1, b=1, B=1, h=2, H=2, i=4, I=4, l=4, L=4, q=8, Q=8)
_SIGNED = set("bhilq")


def _parse(fmt):
    symargs = None
    if _isinstance(fmt, SymFmt):
        if fmt.tmpl.count('%') != fmt.tmpl.count('%d') or \
                fmt.tmpl.count('%d') != len(fmt.args):
            raise Unsupported("struct format from symbolic text")
        symargs = list(fmt.args)
        fmt = fmt.tmpl.replace('%d', '\x00')
    if _isinstance(fmt, _bytes):
        fmt = fmt.decode()
    order = '>'
    if fmt and fmt[0] in '@=<>!':
        order = fmt[0]
        fmt = fmt[1:]
        if order in '@=':
            order = '<'
        if order == '!':
            order = '>'
    else:
        order = '<'  # native on this platform; no alignment for used formats
    fields = []
    pos = 0
    fmt = fmt.replace(' ', '')
    while pos < len(fmt):
        m = _FMT.match(fmt, pos)
        if not m:
            raise _struct.error("bad char in struct format")
        pos = m.end()
        if m.group(1) == '\x00':
            n = symargs.pop(0)
            if _isinstance(n, SymBool):
                n = core.mk(*lift(n))
            if n < 0:
                raise _struct.error("bad char in struct format")
        else:
            n = _int(m.group(1)) if m.group(1) else 1
        c = m.group(2)
        if _is_sym(n) and c not in 'sp':
            n = n.__index__()
        if c in 'sp':
            fields.append((c, n))
        else:
            fields.extend([(c, 1)] * n)
    return order, fields


def _size(fields):
    return sum(n if c in 'sp' else _SIZE[c] for c, n in fields)


def sx_calcsize(fmt):
    if _isinstance(fmt, SymFmt):
        return _size(_parse(fmt)[1])
    return _calcsize(fmt)


def sx_pack(fmt, *args):
    if not any(_isinstance(a, (SymInt, SymBool, SymBytes)) for a in args) \
            and not _isinstance(fmt, SymFmt):
        return _pack(fmt, *args)
    order, fields = _parse(fmt)
    nargs = sum(1 for c, n in fields if c != 'x')
    if nargs != len(args):
        raise _struct.error("pack expected %d items for packing (got %d)"
                            % (nargs, len(args)))
    out = []
    it = iter(args)
    for c, n in fields:
        if c == 'x':
            out.append(0)
            continue
        a = next(it)
        if c == 's':
            items = _items_of(a)
            if items is None:
                raise _struct.error("argument for 's' must be a bytes object")
            if _is_sym(n):
                n = n.__index__()
            items = (items + [0] * n)[:n]
            out.extend(items)
            continue
        if c == 'p':
            raise Unsupported("pack p")
        if c in 'c?':
            raise Unsupported("pack " + c)
        size = _SIZE[c]
        lo, hi = (-(1 << (8 * size - 1)), (1 << (8 * size - 1)) - 1) \
            if c in _SIGNED else (0, (1 << (8 * size)) - 1)
        if _isinstance(a, SymBool):
            a = core.mk(*lift(a))
        if not _isinstance(a, (SymInt, _int)):
            raise _struct.error("required argument is not an integer")
        inrange = (a >= lo) & (a <= hi) if _isinstance(a, SymInt) \
            else (lo <= a <= hi)
        if _isinstance(inrange, SymBool):
            # careful: & between bool/SymBool combos
            pass
        if not inrange:
            raise _struct.error("argument out of range")
        bs = [(a >> (8 * i)) & 0xFF for i in range(size)]
        if order == '>':
            bs.reverse()
        out.extend(bs)
    return _wrap(out, False)


def sx_unpack_from(fmt, data, offset=0):
    if not _isinstance(data, SymBytes):
        if not _isinstance(fmt, SymFmt) and not _is_sym(offset):
            return _unpack_from(fmt, data, offset)
        data = SymBytes(list(data), False)
    order, fields = _parse(fmt)
    size = _size(fields)
    if _is_sym(offset):
        offset = offset.__index__()
    if offset < 0:
        offset += len(data)
    if offset < 0 or len(data) - offset < size:
        raise _struct.error("unpack_from requires a buffer of at least n bytes")
    out = []
    pos = offset
    items = data.items
    for c, n in fields:
        if c == 'x':
            pos += 1
            continue
        if c == 's':
            if _is_sym(n):
                n = n.__index__()
            out.append(_wrap(items[pos:pos + n], False))
            pos += n
            continue
        if c == 'p':
            if _is_sym(n):
                n = n.__index__()
            ln = items[pos]
            if _is_sym(ln):
                ln = ln.__index__()
            ln = min(ln, n - 1)
            out.append(_wrap(items[pos + 1:pos + 1 + ln], False))
            pos += n
            continue
        if c in 'c?':
            raise Unsupported("unpack " + c)
        sz = _SIZE[c]
        bs = items[pos:pos + sz]
        pos += sz
        if order == '>':
            bs = bs[::-1]
        v = 0
        for i, b in enumerate(bs):
            v = v | (b << (8 * i))
        if c in _SIGNED:
            sign = 1 << (8 * sz - 1)
            v = (v ^ sign) - sign
        out.append(v)
    return tuple(out)


def sx_unpack(fmt, data):
    if not _isinstance(data, SymBytes):
        if not _isinstance(fmt, SymFmt):
            return _unpack(fmt, data)
        data = SymBytes(list(data), False)
    if len(data) != _size(_parse(fmt)[1]):
        raise _struct.error("unpack requires a buffer of n bytes")
    return sx_unpack_from(fmt, data, 0)


_range = range


class LazyRange(object):
    """range(n) for symbolic n: forks on `i < n` per iteration, so a loop
    that fails at iteration j covers all n > j on one path."""
    def __init__(self, n):
        self.n = n

    def __iter__(self):
        i = 0
        while i < self.n:
            yield i
            i += 1

    def __len__(self):
        return self.n.__index__()


def sx_range(*args):
    if len(args) == 1 and _isinstance(args[0], SymInt):
        return LazyRange(args[0])
    return _range(*[a.__index__() if _is_sym(a) else a for a in args])


core.UNSHIM.update({sx_bytes_t: _bytes, sx_bytearray: _bytearray, sx_int: _int})

INJECT = dict(range=sx_range, bytes=sx_bytes_t, bytearray=sx_bytearray, isinstance=sx_isinstance,
              int=sx_int, type=sx_type, memoryview=sx_memoryview)
