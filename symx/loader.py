"""Load nfc.* (from the repository's current source) and the verification
environment models / harnesses (env.*, harness.*) with one AST rewrite and a
few builtin names pre-bound, so that the real code runs on symbolic proxies.

Nothing in the repository is edited.  The source root is NFC_SRC (default
/repo/src) so that scratch worktrees can be checked with the same machinery.
"""
import ast
import sys
import os
import importlib.abc
import importlib.util
import struct
import binascii
from . import core, sbytes

VERIF = os.path.dirname(os.path.dirname(os.path.abspath(__file__)))


def nfc_src():
    return os.environ.get("NFC_SRC", "/repo/src")


class IsRewriter(ast.NodeTransformer):
    """`a is b` / `a is not b` (neither side the literal None) becomes a call
    that is identity for ordinary objects and value equality when a symbolic
    int/bool takes part."""

    def visit_Compare(self, node):
        self.generic_visit(node)
        if len(node.ops) == 1 and isinstance(node.ops[0], (ast.Is, ast.IsNot)):
            r = node.comparators[0]
            l = node.left
            for side in (l, r):
                if isinstance(side, ast.Constant) and side.value is None:
                    return node
            fn = "__sx_is__" if isinstance(node.ops[0], ast.Is) \
                else "__sx_isnot__"
            return ast.copy_location(ast.Call(
                func=ast.Name(id=fn, ctx=ast.Load()),
                args=[l, r], keywords=[]), node)
        return node

    def visit_BinOp(self, node):
        """`"literal" % args` -> __sx_mod__("literal", args): plain `%` unless
        an argument is symbolic (then a placeholder that the struct shim can
        interpret; never a fork)."""
        self.generic_visit(node)
        if isinstance(node.op, ast.Mod) and isinstance(node.left, ast.Constant) \
                and isinstance(node.left.value, str):
            return ast.copy_location(ast.Call(
                func=ast.Name(id="__sx_mod__", ctx=ast.Load()),
                args=[node.left, node.right], keywords=[]), node)
        return node

    def visit_Call(self, node):
        """`b"literal".join(seq)` -> __sx_join__(b"literal", seq): bytes.join
        unless an element is a symbolic byte string."""
        self.generic_visit(node)
        f = node.func
        if isinstance(f, ast.Attribute) and f.attr == "join" and \
                isinstance(f.value, ast.Constant) and \
                isinstance(f.value.value, bytes) and \
                len(node.args) == 1 and not node.keywords:
            return ast.copy_location(ast.Call(
                func=ast.Name(id="__sx_join__", ctx=ast.Load()),
                args=[f.value, node.args[0]], keywords=[]), node)
        return node


POST_LOAD = []      # callables(module) run after each nfc module is executed


class Loader(importlib.abc.Loader):
    def __init__(self, path, is_pkg):
        self.path, self.is_pkg = path, is_pkg

    def create_module(self, spec):
        return None

    def exec_module(self, module):
        with open(self.path, "rb") as f:
            src = f.read()
        tree = ast.parse(src, self.path)
        tree = ast.fix_missing_locations(IsRewriter().visit(tree))
        code = compile(tree, self.path, "exec")
        g = module.__dict__
        g.update(sbytes.INJECT)
        g["__sx_is__"] = core.sx_is
        g["__sx_isnot__"] = core.sx_isnot
        g["__sx_mod__"] = sbytes.sx_mod
        g["__sx_join__"] = sbytes.sx_join
        exec(code, g)
        for f in POST_LOAD:
            f(module)


class Finder(importlib.abc.MetaPathFinder):
    def find_spec(self, name, path, target=None):
        top = name.split(".")[0]
        if top == "nfc":
            root = nfc_src()
        elif top in ("env", "harness"):
            root = VERIF
        else:
            return None
        rel = name.replace(".", "/")
        pkg = os.path.join(root, rel, "__init__.py")
        mod = os.path.join(root, rel + ".py")
        if os.path.exists(pkg):
            return importlib.util.spec_from_file_location(
                name, pkg, loader=Loader(pkg, True),
                submodule_search_locations=[os.path.dirname(pkg)])
        if os.path.exists(mod):
            return importlib.util.spec_from_file_location(
                name, mod, loader=Loader(mod, False))
        return None


_installed = False


def install():
    global _installed
    if _installed:
        return
    _installed = True
    # struct / binascii entry points are shared by all modules
    struct.pack = sbytes.sx_pack
    struct.unpack = sbytes.sx_unpack
    struct.unpack_from = sbytes.sx_unpack_from
    struct.calcsize = sbytes.sx_calcsize
    binascii.hexlify = sbytes.sx_hexlify
    sys.meta_path.insert(0, Finder())
    import logging
    logging.disable(logging.CRITICAL)


def install_native():
    """native mode: unmodified nfc package from NFC_SRC, env/harness from
    /verif, no shims, no rewrite."""
    src = nfc_src()
    if src not in sys.path:
        sys.path.insert(0, src)
    if VERIF not in sys.path:
        sys.path.insert(1, VERIF)
    import logging
    logging.disable(logging.CRITICAL)
