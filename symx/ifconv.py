"""If-conversion of small integer kernels (DESIGN.md 2.6).

A function such as nfc.clf.device.calculate_crc branches on every data bit, so
executing it through the forking proxies costs 2^(8n) paths.  This module reads
the function's *current* source (file under NFC_SRC), and evaluates its AST
with the loops unrolled (their extents must be concrete) and every `if` on a
symbolic condition converted into an if-then-else *term* (both branches are
evaluated, the variables they assign are merged with z3.If).  Values are the
engine's own proxies (int / SymInt / SymBool), so the interval tracking that
makes 64-bit machine arithmetic equal to Python's integers applies here too.

Accepted subset (anything else raises symx.core.Unsupported, which the runner
reports as inconclusive):

  def f(a, b, ...):            positional parameters only, no defaults used
      name = expr              single Name target
      name op= expr
      for name in <range(...) | sequence[slice] | sequence>:   no break/else
      if expr: ... [else: ...] no return inside
      pass / docstring
      return expr              last statement of the function body only
  expr: names, int/bool constants, + - * ^ & | >> <<, ~ - not, one comparison,
        seq[int], seq[lo:hi] with concrete bounds, range(...), len(...)

`Kernel.term()` + `Kernel.validate()` compare the translated term with the
real function on concrete vectors (by substitution into the term, so the
merged formula itself is what gets validated, not a concrete re-run).
"""
import os
import ast
import operator
import random
import z3
from . import core
from .core import SymInt, SymBool, Unsupported

_BIN = {
    ast.BitXor: operator.xor, ast.BitAnd: operator.and_, ast.BitOr: operator.or_,
    ast.RShift: operator.rshift, ast.LShift: operator.lshift,
    ast.Add: operator.add, ast.Sub: operator.sub, ast.Mult: operator.mul,
}
_CMP = {
    ast.Eq: operator.eq, ast.NotEq: operator.ne, ast.Lt: operator.lt,
    ast.LtE: operator.le, ast.Gt: operator.gt, ast.GtE: operator.ge,
}


def nfc_src():
    return os.environ.get("NFC_SRC", "/repo/src")


def _is_sym(v):
    return isinstance(v, (SymInt, SymBool))


def _is_int(v):
    return isinstance(v, (int, SymInt, SymBool))


class Kernel(object):
    """if-converted view of the top-level function `funcname` of module
    `modname` (dotted, below NFC_SRC)."""

    def __init__(self, modname, funcname):
        path = os.path.join(nfc_src(), modname.replace(".", os.sep) + ".py")
        if not os.path.exists(path):
            path = os.path.join(nfc_src(), modname.replace(".", os.sep),
                                "__init__.py")
        with open(path, "rb") as f:
            tree = ast.parse(f.read(), path)
        self.path = path
        self.name = funcname
        self.fn = None
        for node in tree.body:
            if isinstance(node, ast.FunctionDef) and node.name == funcname:
                self.fn = node
        if self.fn is None:
            raise Unsupported("ifconv: no top-level function %s in %s"
                              % (funcname, path))
        a = self.fn.args
        if a.vararg or a.kwarg or a.kwonlyargs or a.posonlyargs:
            raise Unsupported("ifconv: parameter kinds")
        self.params = [x.arg for x in a.args]
        self.ifs = 0        # number of if-statements converted to terms

    # ------------------------------------------------------------ evaluation
    def __call__(self, *args):
        if len(args) != len(self.params):
            raise TypeError("%s() takes %d arguments" % (self.name,
                                                         len(self.params)))
        env = dict(zip(self.params, args))
        body = list(self.fn.body)
        if not body or not isinstance(body[-1], ast.Return) \
                or body[-1].value is None:
            raise Unsupported("ifconv: function must end in `return expr`")
        self._block(body[:-1], env)
        return self._expr(body[-1].value, env)

    def _bad(self, node, what):
        raise Unsupported("ifconv: %s at %s:%d" % (
            what, os.path.basename(self.path), getattr(node, "lineno", 0)))

    def _block(self, stmts, env):
        for s in stmts:
            self._stmt(s, env)

    def _stmt(self, s, env):
        if isinstance(s, ast.Assign):
            if len(s.targets) != 1 or not isinstance(s.targets[0], ast.Name):
                self._bad(s, "assignment target")
            env[s.targets[0].id] = self._expr(s.value, env)
        elif isinstance(s, ast.AugAssign):
            if not isinstance(s.target, ast.Name) or type(s.op) not in _BIN:
                self._bad(s, "augmented assignment")
            if s.target.id not in env:
                self._bad(s, "unbound name")
            env[s.target.id] = self._binop(s, s.op, env[s.target.id],
                                           self._expr(s.value, env))
        elif isinstance(s, ast.For):
            if s.orelse or not isinstance(s.target, ast.Name):
                self._bad(s, "for/else or tuple target")
            it = self._expr(s.iter, env)
            if isinstance(it, range):
                seq = list(it)
            elif isinstance(it, (bytes, bytearray, list, tuple)):
                seq = list(it)
            elif type(it).__name__ == "SymBytes":
                seq = list(it.items)
            else:
                self._bad(s, "loop over %s" % type(it).__name__)
            for v in seq:
                env[s.target.id] = v
                self._block(s.body, env)
        elif isinstance(s, ast.If):
            c = self._expr(s.test, env)
            if isinstance(c, SymInt):
                c = (c != 0)
            if not isinstance(c, SymBool):
                self._block(s.body if c else s.orelse, env)
                return
            self.ifs += 1
            ea, eb = dict(env), dict(env)
            self._block(s.body, ea)
            self._block(s.orelse, eb)
            for k in set(ea) | set(eb):
                if k not in ea or k not in eb:
                    self._bad(s, "name %r bound in one branch only" % k)
                va, vb = ea[k], eb[k]
                if va is vb:
                    env[k] = va
                    continue
                if not (_is_int(va) and _is_int(vb)):
                    self._bad(s, "merge of non-integer %r" % k)
                la, lb = core.lift(va), core.lift(vb)
                env[k] = core.mk(z3.If(c.e, la[0], lb[0]),
                                 min(la[1], lb[1]), max(la[2], lb[2]))
        elif isinstance(s, ast.Pass):
            pass
        elif isinstance(s, ast.Expr) and isinstance(s.value, ast.Constant):
            pass
        else:
            self._bad(s, "statement %s" % type(s).__name__)

    def _binop(self, node, op, a, b):
        f = _BIN.get(type(op))
        if f is None or not (_is_int(a) and _is_int(b)):
            self._bad(node, "operator")
        return f(a, b)

    def _conc(self, node, v):
        if v is None:
            return None
        if _is_sym(v) or not isinstance(v, int):
            self._bad(node, "symbolic or non-integer bound")
        return v

    def _expr(self, e, env):
        if isinstance(e, ast.Name):
            if e.id in env:
                return env[e.id]
            self._bad(e, "free name %r" % e.id)
        if isinstance(e, ast.Constant):
            if isinstance(e.value, (int, bool)):
                return e.value
            self._bad(e, "constant")
        if isinstance(e, ast.BinOp):
            return self._binop(e, e.op, self._expr(e.left, env),
                               self._expr(e.right, env))
        if isinstance(e, ast.UnaryOp):
            v = self._expr(e.operand, env)
            if not _is_int(v):
                self._bad(e, "unary operand")
            if isinstance(e.op, ast.Invert):
                return ~v if not isinstance(v, SymBool) else ~core.mk(*core.lift(v))
            if isinstance(e.op, ast.USub):
                return -v if not isinstance(v, SymBool) else -core.mk(*core.lift(v))
            if isinstance(e.op, ast.Not):
                if isinstance(v, SymBool):
                    return ~v
                if isinstance(v, SymInt):
                    return v == 0
                return not v
            self._bad(e, "unary operator")
        if isinstance(e, ast.Compare):
            if len(e.ops) != 1 or type(e.ops[0]) not in _CMP:
                self._bad(e, "comparison")
            a = self._expr(e.left, env)
            b = self._expr(e.comparators[0], env)
            if not (_is_int(a) and _is_int(b)):
                self._bad(e, "comparison operands")
            return _CMP[type(e.ops[0])](a, b)
        if isinstance(e, ast.Subscript):
            v = self._expr(e.value, env)
            if isinstance(v, (bytes, bytearray, list, tuple)):
                items = list(v)
            elif type(v).__name__ == "SymBytes":
                items = list(v.items)
            else:
                self._bad(e, "subscript of %s" % type(v).__name__)
            if isinstance(e.slice, ast.Slice):
                lo = self._conc(e, self._expr(e.slice.lower, env)
                                if e.slice.lower is not None else None)
                hi = self._conc(e, self._expr(e.slice.upper, env)
                                if e.slice.upper is not None else None)
                st = self._conc(e, self._expr(e.slice.step, env)
                                if e.slice.step is not None else None)
                return items[lo:hi:st]
            return items[self._conc(e, self._expr(e.slice, env))]
        if isinstance(e, ast.Call):
            if isinstance(e.func, ast.Name) and not e.keywords and \
                    e.func.id in ("range", "len") and e.func.id not in env:
                args = [self._expr(a, env) for a in e.args]
                if e.func.id == "range":
                    return range(*[self._conc(e, a) for a in args])
                if len(args) == 1 and not _is_int(args[0]):
                    return len(args[0]) if type(args[0]).__name__ != "SymBytes" \
                        else len(args[0].items)
            self._bad(e, "call")
        self._bad(e, "expression %s" % type(e).__name__)


# ---------------------------------------------------------------- validation
def validate_term(term, variables, real, vectors):
    """term: int/SymInt built from the z3 variables `variables` (list of
    SymInt over plain z3 constants); real(vector) -> int computed by the real
    function.  Every vector is substituted into the term.  Returns the number
    of vectors checked; raises Unsupported on the first disagreement (the
    translation is then not trusted: inconclusive, never a verdict)."""
    n = 0
    for vec in vectors:
        if len(vec) != len(variables):
            continue
        want = real(vec)
        if isinstance(term, SymInt):
            sub = [(v.e, core.bv(b)) for v, b in zip(variables, vec)]
            got = z3.simplify(z3.substitute(term.e, *sub)) if sub \
                else z3.simplify(term.e)
            if not z3.is_bv_value(got):
                raise Unsupported("ifconv: term does not reduce to a value")
            got = got.as_signed_long()
        else:
            got = int(term)
        if got != want:
            raise Unsupported("ifconv: translation disagrees with the real "
                              "function on %s: %r != %r"
                              % (bytes(vec).hex(), got, want))
        n += 1
    return n


def random_vectors(seed, length, count):
    rng = random.Random("ifconv/%s/%d" % (seed, length))
    out = []
    for i in range(count):
        out.append([rng.randrange(256) for _ in range(length)])
    return out
