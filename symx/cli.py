"""./check <ID> [--tier quick|thorough] | ./check replay <file> | ./check selftest"""
import os
import sys
import json
import time
import glob
import fnmatch
import hashlib
import argparse
import importlib
import subprocess
import multiprocessing

from . import runner
from .runner import (VERIF, EXIT_OK, EXIT_VIOLATION, EXIT_INCONCLUSIVE,
                     EXIT_HARNESS)

HARNESS = {
    'C01': 'harness.c01_ndef', 'C02': 'harness.c02_cut', 'C03': 'harness.c03_area',
    'C04': 'harness.c04_dep', 'C05': 'harness.c05_dlc', 'C06': 'harness.c06_snep',
    'C07': 'harness.c07_peer', 'C08': 'harness.c08_read', 'C09': 'harness.c09_term',
    'C10': 'harness.c10_miu', 'C11': 'harness.c11_pdu', 'C12': 'harness.c12_isodep',
    'C13': 'harness.c13_drv', 'C14': 'harness.c14_frame', 'C15': 'harness.c15_lock',
    'C16': 'harness.c16_retry', 'C17': 'harness.c17_addr', 'C18': 'harness.c18_connect',
    'C19': 'harness.c19_act', 'C20': 'harness.c20_auth',
}

DEFAULT_LIMITS = {
    'quick': dict(max_paths=200000, max_time=240, max_steps=200000,
                  witness_cap=120, export_every=997, export_cap=3,
                  native_timeout=300, xcheck=40, solver_timeout=120),
    'thorough': dict(max_paths=3000000, max_time=2400, max_steps=200000,
                     witness_cap=400, export_every=4999, export_cap=4,
                     native_timeout=900, xcheck=120, solver_timeout=1200),
}


def load_known():
    out = []
    paths = [os.path.join(VERIF, "known_findings.json")] + sorted(
        glob.glob(os.path.join(VERIF, "known_findings.d", "*.json")))
    for p in paths:
        if os.path.exists(p):
            with open(p) as f:
                out.extend(json.load(f))
    return out


def match_known(known, prop, fn, label):
    for k in known:
        if k.get('kind') != 'known' or k.get('property') != prop:
            continue
        if k.get('harness') not in (None, fn):
            continue
        if fnmatch.fnmatchcase(label, k['label']):
            return k
    return None


def xcheck(samples, cap, log):
    """re-decide exported queries with /usr/bin/z3 (4.8.12) and cvc5; returns
    (n_checked, n_agree, n_inconclusive, disagreements)"""
    import shutil
    samples = samples[:cap]
    if not samples:
        return dict(queries=0, agree=0, inconclusive=0, disagree=0, solvers=[])
    tmpd = os.path.join(VERIF, ".xcheck")
    os.makedirs(tmpd, exist_ok=True)
    stats = dict(queries=len(samples), agree=0, inconclusive=0, disagree=0,
                 solvers=[])
    solvers = []
    if os.path.exists("/usr/bin/z3"):
        solvers.append(("z3-4.8.12", ["/usr/bin/z3", "-T:20"]))
    if shutil.which("cvc5"):
        solvers.append(("cvc5", [shutil.which("cvc5"), "--tlimit=20000"]))
    stats['solvers'] = [s[0] for s in solvers]
    jobs = []
    for i, (smt, exp) in enumerate(samples):
        path = os.path.join(tmpd, "q%d_%d.smt2" % (os.getpid(), i))
        with open(path, "w") as f:
            f.write(smt)
        for name, cmd in solvers:
            jobs.append((name, cmd + [path], exp, path))
    from concurrent.futures import ThreadPoolExecutor

    def run(j):
        name, cmd, exp, path = j
        try:
            r = subprocess.run(cmd, capture_output=True, timeout=40)
            out = r.stdout.decode().strip().splitlines()
            ans = out[0].strip() if out else "unknown"
            if "(error" in r.stdout.decode():
                ans = "unknown"
        except subprocess.TimeoutExpired:
            ans = "unknown"
        return name, ans, exp, path
    with ThreadPoolExecutor(8) as ex:
        for name, ans, exp, path in ex.map(run, jobs):
            if ans not in ("sat", "unsat"):
                stats['inconclusive'] += 1
            elif ans == exp:
                stats['agree'] += 1
            else:
                stats['disagree'] += 1
                log("XCHECK DISAGREE solver=%s file=%s expected=%s got=%s"
                    % (name, path, exp, ans))
    if not stats['disagree']:
        for f in glob.glob(os.path.join(tmpd, "q%d_*.smt2" % os.getpid())):
            os.remove(f)
    return stats


def check(prop, tier, only=None, verbose=False):
    t0 = time.time()
    seed = int(os.environ.get("VERIF_SEED", "0") or 0)
    from . import loader, envpatch
    loader.install()
    loader.POST_LOAD.append(envpatch.patch_module)
    modname = HARNESS[prop]
    mod = importlib.import_module(modname)
    limits = dict(DEFAULT_LIMITS[tier])
    limits.update(getattr(mod, 'LIMITS', {}).get(tier, {}))
    parts = mod.partitions(tier)
    if only:
        parts = [p for p in parts if fnmatch.fnmatchcase(p['name'], only)]
    jobs = [dict(module=modname, part=p, tier=tier, seed=seed, limits=limits)
            for p in parts]
    nproc = int(os.environ.get("VERIF_JOBS", "16"))
    log = lambda s: (sys.stdout.write(s + "\n"), sys.stdout.flush())
    log("check %s tier=%s partitions=%d src=%s" % (prop, tier, len(jobs),
                                                   runner.nfc_src()))
    ctxm = multiprocessing.get_context("fork")
    results = []
    with ctxm.Pool(min(nproc, max(1, len(jobs))), maxtasksperchild=8) as pool:
        for r in pool.imap_unordered(runner.run_partition, jobs, chunksize=1):
            results.append(r)
            if verbose or r['error'] or r['aborts'] or r['violations']:
                log("  part %-40s paths=%-6d viol=%d aborts=%d %.1fs %s"
                    % (r['name'], r['stats']['paths'], len(r['violations']),
                       len(r['aborts']), r['wall'], r['error'] or ""))
    results.sort(key=lambda r: r['name'])
    harness_errors = []
    inconclusive = []
    for r in results:
        if r['error']:
            if r['error'].startswith(("budget",)):
                inconclusive.append("%s: %s" % (r['name'], r['error']))
            else:
                harness_errors.append("%s: %s" % (r['name'], r['error']))

    # ---------------- native replay of witnesses and counterexamples
    njobs = []
    for r in results:
        if r['witnesses']:
            njobs.append(dict(key=('w', r['name']), module=modname, fn=r['fn'],
                              params=r['params'],
                              cases=[w['assignment'] for w in r['witnesses']],
                              timeout=limits['native_timeout']))
        seen = {}
        for v in r['violations']:
            seen.setdefault(v['label'], [])
            if len(seen[v['label']]) < 3:
                seen[v['label']].append(v['assignment'])
        for label, asgs in seen.items():
            njobs.append(dict(key=('v', r['name'], label), module=modname,
                              fn=r['fn'], params=r['params'], cases=asgs,
                              timeout=60))
        for i, a in enumerate(r['aborts']):
            if a['kind'] == 'steps' and a['assignment'] is not None and i < 2:
                njobs.append(dict(key=('s', r['name'], i), module=modname,
                                  fn=r['fn'], params=r['params'],
                                  cases=[a['assignment']], timeout=30))
    nres = {}
    from concurrent.futures import ThreadPoolExecutor
    with ThreadPoolExecutor(nproc) as ex:
        for key, out in ex.map(runner._native_job, njobs):
            nres[key] = out
    byname = dict((r['name'], r) for r in results)
    replays_ok = 0
    for key, out in nres.items():
        if key[0] != 'w':
            continue
        r = byname[key[1]]
        for w, o in zip(r['witnesses'], out):
            if o.get('error') or o['failed'] or o['outcome'] != w['outcome'] \
                    or sorted(o['reached']) != w['reached']:
                harness_errors.append(
                    "witness mismatch in %s: predicted=%s native=%s assignment=%s"
                    % (r['name'], json.dumps(w['outcome'])[:300],
                       json.dumps(o)[:600], json.dumps(w['assignment'])[:400]))
                break
            replays_ok += 1
        if len(out) < len(r['witnesses']) or (out and out[-1].get('error')):
            harness_errors.append("native witness replay incomplete in %s: %s"
                                  % (r['name'], out[-1].get('error') if out else "no output"))

    known = load_known()
    violations = []      # (fn, label, part, assignment)
    known_hits = {}
    for key, out in nres.items():
        if key[0] == 'v':
            _, pname, label = key
            r = byname[pname]
            asgs = [v['assignment'] for v in r['violations']
                    if v['label'] == label][:3]
            hit = None
            for a, o in zip(asgs, out):
                if label in o['failed']:
                    hit = a
                    break
            if hit is None:
                harness_errors.append(
                    "counterexample for %r in %s does not reproduce natively: %s"
                    % (label, pname, json.dumps(out)[:800]))
                continue
            k = match_known(known, prop, r['fn'], label)
            if k is not None:
                known_hits.setdefault(k['label'] + "|" + str(k.get('harness')), k)
            else:
                violations.append((r['fn'], label, r, hit))
        elif key[0] == 's':
            _, pname, i = key
            r = byname[pname]
            a = r['aborts'][i]
            label = "hang@%s" % r['fn']
            if out and out[-1].get('error') == 'hang':
                k = match_known(known, prop, r['fn'], label)
                if k is not None:
                    known_hits.setdefault(k['label'] + "|" + str(k.get('harness')), k)
                else:
                    violations.append((r['fn'], label, r, a['assignment']))
            else:
                inconclusive.append("%s: step budget exceeded but native run "
                                    "terminates (%s)" % (pname, a['msg']))
    for r in results:
        for a in r['aborts']:
            if a['kind'] == 'unsupported':
                inconclusive.append("%s: unsupported: %s" % (r['name'], a['msg']))
            elif a['kind'] == 'steps' and a['assignment'] is None:
                inconclusive.append("%s: step budget: %s" % (r['name'], a['msg']))

    # ---------------- vacuity: must-reach labels
    reached = {}
    for r in results:
        for l, n in r['reached'].items():
            reached[l] = reached.get(l, 0) + n
    must = list(getattr(mod, 'MUST_REACH', {}).get(tier, [])) \
        if isinstance(getattr(mod, 'MUST_REACH', None), dict) \
        else list(getattr(mod, 'MUST_REACH', []))
    if only:
        must = []
    missing = [l for l in must if not reached.get(l)]
    for l in missing:
        inconclusive.append("must-reach label never reached: " + l)

    # ---------------- independent solver cross-check
    samples = []
    for r in results:
        samples.extend(r.get('export', []))
    import random as _random
    _random.Random(seed).shuffle(samples)
    xc = xcheck(samples, limits['xcheck'], log)
    if xc['disagree']:
        harness_errors.append("solver cross-check disagreement (%d)" % xc['disagree'])

    # ---------------- report
    replay_paths = []
    seen_v = set()
    for fn, label, r, asg in violations:
        if (fn, label) in seen_v:
            continue
        seen_v.add((fn, label))
        rec = dict(property=prop, module=modname, fn=fn, params=r['params'],
                   partition=r['name'], label=label, assignment=asg)
        dig = hashlib.sha1(json.dumps(rec, sort_keys=True).encode()).hexdigest()[:12]
        os.makedirs(os.path.join(VERIF, "replays"), exist_ok=True)
        path = os.path.join(VERIF, "replays", "%s-%s.json" % (prop, dig))
        with open(path, "w") as f:
            json.dump(rec, f, indent=1, sort_keys=True)
        replay_paths.append(path)
        log("VIOLATION property=%s replay=%s" % (prop, path))
        log("  label: %s  partition: %s" % (label, r['name']))
    for k in known_hits.values():
        log("KNOWN-FINDING: property=%s %s" % (prop, k['what']))
    for m in inconclusive:
        log("INCONCLUSIVE: " + m)
    for m in harness_errors:
        log("HARNESS-ERROR: " + m)

    tot = dict(paths=0, branches=0, checks=0, discharged=0, solver_calls=0,
               solver_time=0.0, forks=0, pruned=0)
    for r in results:
        for k in tot:
            tot[k] += r['stats'].get(k, 0)
    funcs = sorted(set(f for r in results for f in r['functions']))
    samples_out = []
    for r in results:
        for w in r['witnesses'][:1]:
            if len(samples_out) < 6:
                asg = w['assignment']
                if len(asg) > 24:
                    asg = dict(list(sorted(asg.items()))[:24] + [("...", len(asg))])
                samples_out.append(dict(partition=r['name'], fn=r['fn'],
                                        params=r['params'], witness=asg,
                                        outcome=w['outcome']))
    outcome_hist = {}
    for r in results:
        for k, n in r['outcomes'].items():
            if len(outcome_hist) < 40 or k in outcome_hist:
                outcome_hist[k] = outcome_hist.get(k, 0) + n
    exhaustive = all(r.get('exhaustive') for r in results) and not inconclusive \
        and not harness_errors
    wall = time.time() - t0
    bounds = getattr(mod, 'BOUNDS', {})
    if isinstance(bounds, dict) and tier in bounds:
        bounds = bounds[tier]
    ev = dict(
        property_id=prop, tier=tier, seed=seed, level="model_checking",
        coverage=dict(
            states=max(tot['paths'], 0), transitions=max(tot['branches'], 0),
            traces_validated_against_impl=replays_ok,
            samples=samples_out or [dict(note="no completed path")],
            obligations=tot['checks'], discharged=tot['discharged'],
            solver_calls=tot['solver_calls'],
            solver_s=round(tot['solver_time'], 2), forks=tot['forks'],
            pruned_paths=tot['pruned'], partitions=len(results),
            functions_encoded=funcs, bounds=bounds,
            outside_bounds=getattr(mod, 'OUTSIDE', []),
            must_reach=dict((l, reached.get(l, 0)) for l in must),
            reached_labels=reached, outcome_histogram=outcome_hist,
            exhaustive=bool(exhaustive), exhaustive_within_bounds=bool(exhaustive),
            cross_check=xc,
            known_findings_seen=[k['label'] for k in known_hits.values()],
            inconclusive=inconclusive[:20], harness_errors=harness_errors[:20],
            explanation="bounded symbolic execution of the repository's own "
            "source (re-loaded from %s on this run) with z3 deciding every "
            "branch and obligation; states = completed paths, transitions = "
            "branch decisions; each path region validated by one native replay "
            "against the unmodified package" % runner.nfc_src(),
        ),
        assumptions=list(getattr(mod, 'ASSUMPTIONS', [])) + sorted(
            set(a for r in results for a in r.get('assumes', []))),
        wall_s=round(wall, 2), violations=len(replay_paths),
    )
    os.makedirs(os.path.join(VERIF, "evidence"), exist_ok=True)
    scratch = os.path.realpath(runner.nfc_src()) != os.path.realpath("/repo/src")
    if not only and not scratch:
        # (runs against a scratch copy via NFC_SRC never overwrite the evidence)
        with open(os.path.join(VERIF, "evidence", prop + ".json"), "w") as f:
            json.dump(ev, f, indent=1, sort_keys=True)
    log("summary %s: paths=%d decisions=%d obligations=%d discharged=%d "
        "solver_calls=%d solver_s=%.1f native_replays=%d violations=%d "
        "known=%d wall=%.1fs" % (prop, tot['paths'], tot['branches'],
                                 tot['checks'], tot['discharged'],
                                 tot['solver_calls'], tot['solver_time'],
                                 replays_ok, len(replay_paths),
                                 len(known_hits), wall))
    if harness_errors:
        return EXIT_HARNESS
    if replay_paths:
        return EXIT_VIOLATION
    if inconclusive:
        return EXIT_INCONCLUSIVE
    return EXIT_OK


def twin(prop, tier="quick", nparts=4):
    """vacuity guard: the first partitions of the harness with an obligation
    `False` appended at the end of the harness function; every one of them
    must come back violated and the violation must reproduce natively"""
    from . import loader, envpatch
    loader.install()
    loader.POST_LOAD.append(envpatch.patch_module)
    modname = HARNESS[prop]
    mod = importlib.import_module(modname)
    limits = dict(DEFAULT_LIMITS[tier])
    limits.update(getattr(mod, 'LIMITS', {}).get(tier, {}))
    limits['max_paths'] = 400
    parts = mod.partitions(tier)
    seen, chosen = set(), []
    for p in parts:                       # one partition per harness function
        if p['fn'] not in seen and len(chosen) < nparts:
            seen.add(p['fn'])
            chosen.append(p)
    jobs = [dict(module=modname, part=p, tier=tier, seed=0, limits=limits, twin=True)
            for p in chosen]
    ctxm = multiprocessing.get_context("fork")
    ok = True
    with ctxm.Pool(min(8, len(jobs))) as pool:
        for r in pool.imap_unordered(runner.run_partition, jobs, chunksize=1):
            tw = [v for v in r['violations'] if v['label'] == "reachability-twin"]
            if not tw:
                print("TWIN NOT VIOLATED: %s %s (%s)" % (prop, r['name'], r['error']))
                ok = False
                continue
            out = runner.native_run(modname, r['fn'], r['params'], [tw[0]['assignment']],
                                    timeout=120, twin=True)
            rep = bool(out) and "reachability-twin" in out[0].get('failed', [])
            print("twin %s %-40s paths=%d violated=%d native=%s" % (
                prop, r['name'], r['stats']['paths'], len(tw), "reproduced" if rep else "NOT REPRODUCED"))
            ok = ok and rep
    return EXIT_OK if ok else EXIT_HARNESS


def replay(path):
    with open(path) as f:
        rec = json.load(f)
    out = runner.native_run(rec['module'], rec['fn'], rec['params'],
                            [rec['assignment']], timeout=120)
    o = out[0] if out else dict(failed=[], error="no output")
    print(json.dumps(o, indent=1)[:3000])
    label = rec['label']
    hit = label in o.get('failed', []) or \
        (label.startswith("hang@") and o.get('error') == 'hang')
    if hit:
        print("VIOLATION property=%s replay=%s" % (rec['property'], path))
        print("  reproduced natively: %s" % label)
        return EXIT_VIOLATION
    print("not reproduced: %s" % label)
    return EXIT_OK


def main(argv=None):
    ap = argparse.ArgumentParser()
    ap.add_argument("what")
    ap.add_argument("arg", nargs="?")
    ap.add_argument("--tier", default=os.environ.get("VERIF_TIER", "quick"))
    ap.add_argument("--only", default=None, help="partition name glob (debug)")
    ap.add_argument("-v", action="store_true")
    a = ap.parse_args(argv)
    if a.what == "replay":
        return replay(a.arg)
    if a.what == "twin":
        props = [a.arg] if a.arg else sorted(HARNESS)
        rc = EXIT_OK
        for p in props:
            if os.path.exists(os.path.join(VERIF, HARNESS[p].replace(".", "/") + ".py")):
                rc = max(rc, twin(p, a.tier))
        return rc
    if a.what not in HARNESS:
        print("unknown property", a.what)
        return EXIT_HARNESS
    return check(a.what, a.tier, a.only, a.v)


if __name__ == "__main__":
    sys.exit(main())
