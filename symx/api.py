"""The interface harnesses are written against.  Two implementations:

SymAPI     values are solver terms; control flow forks; check() asks z3.
NativeAPI  values come from a recorded assignment (a solver model); the
           unmodified nfc package runs; check() evaluates a Python bool.

The same harness function runs under both, which is how every counterexample
and one witness per explored path are validated against the implementation.
"""
import z3
from . import core, sbytes
from .core import SymInt, SymBool, MonoFloat
from .sbytes import SymBytes


class SymAPI(object):
    mode = 'sym'

    def __init__(self, ctx):
        self.ctx = ctx

    # ---- inputs
    def int(self, name, lo, hi):
        if lo == hi:
            return lo
        return self.ctx.fresh(name, lo, hi)

    def byte(self, name):
        return self.ctx.fresh(name, 0, 255)

    def bytes(self, name, n, mutable=False):
        return SymBytes([self.ctx.fresh("%s[%d]" % (name, i), 0, 255)
                         for i in range(n)], mutable)

    def flag(self, name):
        return self.ctx.fresh(name, 0, 1) == 1

    def pick(self, name, options):
        options = list(options)
        if len(options) == 1:
            return options[0]
        i = self.ctx.fresh(name, 0, len(options) - 1)
        return options[i.__index__()]

    # ---- obligations
    def check(self, cond, label):
        return self.ctx.check(cond, label)

    def check_all(self, pairs):
        """[(cond, label), ...]: same meaning as check() on each pair in turn,
        but one solver query when all of them hold (the usual case)."""
        pairs = list(pairs)
        allc = self.all([c for c, l in pairs])
        if isinstance(allc, SymBool) and len(pairs) > 1 and \
                len(self.ctx.trail) >= len(self.ctx.prefix):
            if not self.ctx._check(z3.Not(allc.e)):
                self.ctx.stats['checks'] += len(pairs)
                self.ctx.stats['discharged'] += len(pairs)
                return True
        ok = True
        for c, l in pairs:
            ok = self.ctx.check(c, l) and ok
        return ok

    def assume(self, cond, why=""):
        self.ctx.assume(cond, why)

    def reach(self, label):
        self.ctx.reach(label)

    # ---- helpers
    def mkbytes(self, items, mutable=True):
        return SymBytes(list(items), mutable)

    def is_sym(self, x):
        if isinstance(x, (SymInt, SymBool, MonoFloat)):
            return True
        if isinstance(x, SymBytes):
            return any(isinstance(i, (SymInt, SymBool)) for i in x.items)
        return False

    def concrete(self, x):
        if isinstance(x, (SymInt, SymBool)):
            return x.__index__()
        return x

    def truth(self, x):
        """fork on a condition, returning a python bool"""
        return bool(x)

    @staticmethod
    def _b(c):
        if isinstance(c, SymBool):
            return c.e
        if isinstance(c, SymInt):
            return c.e != 0
        return z3.BoolVal(bool(c))

    def all(self, conds):
        conds = list(conds)
        if any(c is False for c in conds):
            return False
        cs = [self._b(c) for c in conds if c is not True]
        if not cs:
            return True
        return SymBool(z3.And(*cs))

    def any(self, conds):
        conds = list(conds)
        if any(c is True for c in conds):
            return True
        cs = [self._b(c) for c in conds if c is not False]
        if not cs:
            return False
        return SymBool(z3.Or(*cs))

    def neg(self, c):
        if isinstance(c, (SymBool,)):
            return ~c
        if isinstance(c, SymInt):
            return c == 0
        return not c

    def implies(self, a, b):
        return self.any([self.neg(a), b])

    def ite(self, c, a, b):
        if not isinstance(c, (SymBool, SymInt)):
            return a if c else b
        ce = self._b(c)
        la, lb = core.lift(a), core.lift(b)
        return core.mk(z3.If(ce, la[0], lb[0]), min(la[1], lb[1]),
                       max(la[2], lb[2]))

    def eq(self, a, b):
        """equality without forking (ints, bools, byte strings)"""
        if isinstance(a, (SymBytes, bytes, bytearray)) and \
                isinstance(b, (SymBytes, bytes, bytearray)):
            if not isinstance(a, SymBytes):
                a = SymBytes(list(a), False)
            return a._eq(b)
        return a == b

    def value(self, obj):
        """concrete JSON-able value of obj under the path's final model"""
        return evaluate(obj, self.ctx.final_model())


class NativeAPI(object):
    mode = 'native'

    def __init__(self, assignment):
        self.a = assignment
        self.failed = []
        self.reached = set()
        self.used = set()

    def _get(self, name, lo, hi):
        self.used.add(name)
        v = self.a.get(name, 0)
        if not lo <= v <= hi:
            # model completion of a variable the model never constrained
            raise ReplayMismatch("input %s=%r outside [%r,%r]"
                                 % (name, v, lo, hi))
        return v

    def int(self, name, lo, hi):
        if lo == hi:
            return lo
        return self._get(name, lo, hi)

    def byte(self, name):
        return self._get(name, 0, 255)

    def bytes(self, name, n, mutable=False):
        b = bytearray(self._get("%s[%d]" % (name, i), 0, 255)
                      for i in range(n))
        return b if mutable else bytes(b)

    def flag(self, name):
        return self._get(name, 0, 1) == 1

    def pick(self, name, options):
        options = list(options)
        if len(options) == 1:
            return options[0]
        return options[self._get(name, 0, len(options) - 1)]

    def check(self, cond, label):
        if not cond:
            self.failed.append(label)
            raise CheckFailed(label)
        return True

    def check_all(self, pairs):
        for c, l in list(pairs):
            self.check(c, l)
        return True

    def assume(self, cond, why=""):
        if not cond:
            raise ReplayMismatch("assumption %r false on replay" % why)

    def reach(self, label):
        self.reached.add(label)

    def mkbytes(self, items, mutable=True):
        return bytearray(items) if mutable else bytes(bytearray(items))

    def is_sym(self, x):
        return False

    def concrete(self, x):
        return x

    def truth(self, x):
        return bool(x)

    def all(self, conds):
        return all(list(conds))

    def any(self, conds):
        return any(list(conds))

    def neg(self, c):
        return not c

    def implies(self, a, b):
        return (not a) or bool(b)

    def ite(self, c, a, b):
        return a if c else b

    def eq(self, a, b):
        if isinstance(a, (bytes, bytearray)) and isinstance(b, (bytes, bytearray)):
            return bytes(a) == bytes(b)
        return a == b

    def value(self, obj):
        return evaluate(obj, None)


class CheckFailed(BaseException):
    """native mode: an obligation evaluated to false (ends the replay)"""


class ReplayMismatch(BaseException):
    pass


def evaluate(obj, model):
    """normalise an outcome to JSON-able concrete data (same result in both
    modes when the engine is faithful)."""
    if obj is None or isinstance(obj, (str, float)):
        return obj
    if isinstance(obj, bool):
        return bool(obj)
    if isinstance(obj, int):
        return int(obj)
    if isinstance(obj, SymInt):
        return model.eval(obj.e, model_completion=True).as_signed_long()
    if isinstance(obj, SymBool):
        return bool(z3.is_true(model.eval(obj.e, model_completion=True)))
    if isinstance(obj, MonoFloat):
        return obj.f(evaluate(obj.x, model))
    if isinstance(obj, SymBytes):
        return "h:" + "".join("%02x" % evaluate(i, model) for i in obj.items)
    if isinstance(obj, (bytes, bytearray, memoryview)):
        return "h:" + bytes(obj).hex()
    if isinstance(obj, (list, tuple)):
        return [evaluate(i, model) for i in obj]
    if isinstance(obj, (set, frozenset)):
        return sorted(evaluate(i, model) for i in obj)
    if isinstance(obj, dict):
        return {str(k): evaluate(v, model) for k, v in sorted(
            obj.items(), key=lambda kv: str(kv[0]))}
    if isinstance(obj, BaseException):
        return "exc:" + type(obj).__name__
    if isinstance(obj, type):
        return "type:" + obj.__name__
    return "obj:" + type(obj).__name__
