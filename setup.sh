#!/bin/bash
# Build /verif/.venv offline: python 3.12 of /venv + its site-packages (nfcpy deps) + z3-solver from the wheelhouse.
set -e
cd "$(dirname "$0")"
if [ -x .venv/bin/python ] && .venv/bin/python -c "import z3, ndef, pyDes" 2>/dev/null; then exit 0; fi
rm -rf .venv
/venv/bin/python -m venv .venv
SP=$(.venv/bin/python -c "import sysconfig; print(sysconfig.get_paths()['purelib'])")
echo "import site; site.addsitedir('/venv/lib/python3.12/site-packages')" > "$SP/_base.pth"
PIP_NO_INDEX=1 .venv/bin/python -m pip install -q --no-index --find-links /opt/veriftools/wheels z3-solver
.venv/bin/python -c "import z3, ndef, pyDes; print('verif venv ok', z3.get_version_string())"
