"""C16 - tag commands retry transient errors and fail only as TagCommandError."""
import nfc
import nfc.clf
import nfc.tag
from harness import worlds, ndefflow

PROPERTY = "C16"

KINDS = {"timeout": (nfc.clf.TimeoutError, nfc.tag.TIMEOUT_ERROR),
         "transmission": (nfc.clf.TransmissionError, nfc.tag.RECEIVE_ERROR),
         "protocol": (nfc.clf.ProtocolError, nfc.tag.PROTOCOL_ERROR)}


class Burst(object):
    """one burst of `length` consecutive failing exchanges of one kind,
    starting at a lazily chosen command; each failing exchange either loses
    the command (tag does not execute) or the response (tag executed)"""

    def __init__(self, sx, kinds, lengths, modes=("cmd", "rsp")):
        self.sx, self.kinds, self.lengths, self.modes = sx, kinds, lengths, modes
        self.k = 0
        self.started = False
        self.left = 0
        self.kind = None
        self.length = 0
        self.at = None
        self.at_sector_select = False
        self.at_mac_write = False
        self.at_auth_part2 = False
        self.passed_after = 0      # exchanges let through after the burst began

    def __call__(self, sim, cmd):
        sx = self.sx
        if not self.started:
            if sx.truth(sx.flag("burst_starts_at_cmd_%d" % self.k)):
                self.started = True
                self.at = self.k
                # Type 2 SECTOR SELECT: packet 1 (C2 FF) and the passively
                # acknowledged packet 2 cannot be repeated by design
                self.at_sector_select = (len(cmd) > 0 and cmd[0] == 0xC2) or \
                    getattr(sim, 'sector_pending', False)
                # FeliCa Lite-S Write with MAC (block list ends with MAC_A,
                # 91h): the tag counts executed writes (WCNT is part of the MAC)
                self.at_mac_write = bool(
                    getattr(sim, 'lite_s', False) and len(cmd) > 17 and
                    cmd[1] == 0x08 and cmd[13] == 2 and cmd[17] == 0x91)
                # MIFARE Ultralight C AUTHENTICATE part 2 (AFh + 16 bytes): the
                # tag leaves the handshake when it has executed it
                self.at_auth_part2 = bool(
                    getattr(sim, 'ulc', False) and len(cmd) == 17 and cmd[0] == 0xAF)
                self.kind = sx.pick("kind", self.kinds)
                self.length = sx.pick("burst", self.lengths)
                self.mode = sx.pick("lost", list(self.modes))
                self.left = self.length
            else:
                self.k += 1
                return None
        if self.left > 0:
            self.left -= 1
            exc = KINDS[self.kind][0]("injected")
            if self.mode == "cmd":
                raise exc
            return exc
        self.passed_after += 1
        return None


class FixedOS(object):
    """module attribute `os` of nfc.tag.tt3_sony in the FeliCa Lite worlds and
    of nfc.tag.tt2_nxp in the Ultralight C worlds: the random challenge is a
    fixed byte string (contents are not what this property quantifies over)"""

    @staticmethod
    def urandom(n):
        return bytes(bytearray((0xA5 + 7 * i) & 0xFF for i in range(n)))


class LiteWorld(worlds.World):
    """FeliCa Lite (IC code F0h) / Lite-S (F1h) from env.tt3lite_sim, NDEF
    formatted (Nbr 4, Nbw 1, Nmaxb 13) with a short message; card key of
    PASSWORD; real pyDes on both sides (all cipher inputs are concrete).
    auth=True: op_faults authenticates fault-free before the burst is armed,
    so NDEF access goes through read_with_mac (Lite-S: write_with_mac)."""
    kind = "tt3"
    PASSWORD = b"0123456789abcdef"

    def __init__(self, sx, lite_s, oldlen, auth):
        from env import tt3lite_sim
        import nfc.tag.tt3_sony
        nfc.tag.tt3_sony.os = FixedOS
        self.sx, self.auth, self.lite_s = sx, auth, lite_s
        self.label = "lites" if lite_s else "lite"
        self.password = self.PASSWORD
        nmaxb = 13
        attr = [0x10, 4, 1, 0, nmaxb, 0, 0, 0, 0, 0x00, 0x01,
                0, (oldlen >> 8) & 255, oldlen & 255]
        cs = sum(attr)
        blocks = {0: attr + [cs >> 8, cs & 255]}
        for b in range(1, nmaxb + 1):
            blocks[b] = [(0x40 + (16 * b + i) * 5 + b) & 0xFF for i in range(16)]
        self.oldlen = oldlen
        self.old = sx.mkbytes(blocks[1][0:oldlen], False)
        self.cap = nmaxb * 16
        key = self.PASSWORD
        ck = [key[7 - i] for i in range(8)] + [key[15 - i] for i in range(8)]
        self.sim = tt3lite_sim.LiteHookSim(tt3lite_sim.RealCipher(), lite_s, ck,
                                           blocks, wcnt=0x000102)
        self.clf = tt3lite_sim.LiteClf(self.sim)
        # the message that op "write" stores (concrete: it goes through the MAC)
        self.concrete_msg = [0x80 + 9 * i for i in range(7)]

    def target(self):
        from env import tt3lite_sim
        return tt3lite_sim.target(self.lite_s)

    def card_authenticated(self):
        """the card's side of a completed authentication: Lite-S holds the
        external authentication flag; Lite only gives out the MAC over ID"""
        if self.lite_s:
            return self.sim.ext_auth == 1
        return ("read", [0x82, 0x81]) in self.sim.log


class UlcWorld(worlds.T2World):
    """MIFARE Ultralight C (env.tt2nxp_sim.UlcSim: 48 pages, 3DES mutual
    authentication with real pyDes on the card side), NDEF formatted (CC
    E1 10 12 0x, 144 bytes data area) with a short message; the card key is
    PASSWORD.  auth=False: nothing is protected (AUTH0 30h).  auth=True:
    pages 3.. are write protected (AUTH0 3, AUTH1 1, CC access byte 08h =
    proprietary write access) and op_faults authenticates fault-free before
    the burst is armed.  Everything is concrete."""
    PASSWORD = b"0123456789abcdef"
    NEW_PASSWORD = b"ZYXWVUTSRQPONMLK"
    expect_class = "MifareUltralightC"
    label = "ulc"

    def __init__(self, sx, oldlen, auth):
        from env import tt2nxp_sim
        import nfc.tag.tt2_nxp
        nfc.tag.tt2_nxp.os = FixedOS
        worlds.T2World.__init__(self, sx, 144, "", [], oldlen, extra=32,
                                symbolic_window=(0, 0), terminator=1)
        self.auth = auth
        self.password, self.new_password = self.PASSWORD, self.NEW_PASSWORD
        self.uid = b"\x04\x51\x7C\xA1\xE1\xED\x25"
        mem = self.sim.mem
        mem[10:12] = [0, 0]              # static lock bits: nothing locked
        if auth:
            mem[15] = 0x08
        self.sim = tt2nxp_sim.UlcSim(mem, self.uid, self.PASSWORD,
                                     auth0=3 if auth else 0x30,
                                     auth1=1 if auth else 0)
        from env import tags
        self.clf = tags.SimClf(self.sim)
        self.concrete_msg = [0x80 + 9 * i for i in range(7)]

    def card_authenticated(self):
        return self.sim.authenticated is True

    def card_has_key(self, password):
        return self.sim.stored_key() == [password[i] for i in range(16)] and \
            self.sim.key_eff == self.sim.stored_key()


class NxpWorld(worlds.World):
    """NTAG21x / MIFARE Ultralight EV1 (env.tt2nxp_sim.NxpHookSim), NDEF
    formatted with a short message; PWD/PACK of the card are PASSWORD.
    auth=True: CC access byte 08h (proprietary write access) and op_faults
    authenticates fault-free before the burst is armed.  Everything is
    concrete."""
    kind = "tt2"
    PASSWORD = b"pw0123"
    NEW_PASSWORD = b"PW9876"

    def __init__(self, sx, product, oldlen, auth, label):
        from env import tt2nxp_sim, tags
        self.sx, self.auth, self.label = sx, auth, label
        self.expect_class = product
        self.password, self.new_password = self.PASSWORD, self.NEW_PASSWORD
        version, npages, cfg = tt2nxp_sim.PRODUCTS[product]
        upages = cfg - 4 - (1 if cfg > 16 else 0)      # user memory pages
        self.S = upages * 4
        self.sim = tt2nxp_sim.NxpHookSim(
            product, [self.PASSWORD[i] for i in range(4)],
            [self.PASSWORD[i] for i in range(4, 6)], "timeout",
            [0xE1, 0x10, self.S // 8, 0x08 if auth else 0x00])
        data = [0x03, oldlen] + [(i * 7 + 3) & 0x7F for i in range(oldlen)] + [0xFE]
        data += [(i * 5 + 1) & 0x7F for i in range(len(data), self.S)]
        for p in range(upages):
            self.sim.pages[4 + p] = data[4 * p:4 * p + 4]
        self.oldlen = oldlen
        self.old = sx.mkbytes(data[2:2 + oldlen], False)
        self.cap = self.S - 2
        self.clf = tags.SimClf(self.sim)
        self.concrete_msg = [0x80 + 9 * i for i in range(7)]

    def target(self):
        from env import tt2nxp_sim
        return tt2nxp_sim.target()

    def card_authenticated(self):
        return self.sim.authenticated is True

    def card_has_key(self, password):
        return self.sim.pwd() + self.sim.pack() == [password[i] for i in range(6)]


FELICA_STANDARD = {"tt3fs01": (0x01, "FelicaStandard", "felica_standard"),
                   "tt3fs20": (0x20, "FelicaStandard", "felica_standard"),
                   "tt3fm10": (0x10, "FelicaMobile", "felica_mobile")}
NXP_WORLDS = {"tt2ntag213": ("NTAG213", "ntag"), "tt2ulev1": ("MF0UL21", "ulev1")}


def make_world(sx, tt, oldlen):
    if tt.startswith("tt3lite"):
        return LiteWorld(sx, tt.startswith("tt3lites"), oldlen, tt.endswith("+auth"))
    base = tt[:-5] if tt.endswith("+auth") else tt
    if base == "tt2ulc":
        return UlcWorld(sx, oldlen, tt.endswith("+auth"))
    if base in NXP_WORLDS:
        return NxpWorld(sx, NXP_WORLDS[base][0], oldlen, tt.endswith("+auth"),
                        NXP_WORLDS[base][1])
    if tt in FELICA_STANDARD:
        # FeliCa Standard / Mobile FeliCa: the Type 3 world of "tt3" with the
        # IC code of a vendor class and the FeliCa Standard command set
        w = worlds.T3World(sx, 4, 3, 5, oldlen, ic_code=FELICA_STANDARD[tt][0],
                           fill=0x40, standard=True)
        w.expect_class, w.label = FELICA_STANDARD[tt][1], FELICA_STANDARD[tt][2]
        return w

    # previous tag contents are concrete here: the quantifier of this property
    # is the fault script, not the data (C01-C03 cover contents)
    win = (0, 0)
    if tt == "tt2":
        return worlds.T2World(sx, 48, "L", [(64, 2)], oldlen, symbolic_window=win)
    if tt == "tt2big":
        # two sectors: the message crosses the 1 KiB sector boundary
        return worlds.T2World(sx, 2032, "", [], 1100, symbolic_window=win)
    if tt == "tt1":
        return worlds.T1World(sx, (0x11, 0x48), 120, "", [], oldlen, symbolic_window=win)
    if tt == "tt1dyn":
        return worlds.T1World(sx, (0x12, 0x4C), 512, "LM", [(122, 6), (120, 2)], oldlen,
                              exact=True, symbolic_window=win)
    if tt == "tt3":
        return worlds.T3World(sx, 4, 3, 5, oldlen, fill=0x40)
    if tt == "tt3slow":
        # a card whose PMm announces the longest response times (all six time
        # parameters FFh) and that is read six blocks at a time: one command
        # may take more than a second; three attempts all the same
        return worlds.T3World(sx, 6, 4, 8, 90, fill=0x40, pmm_tail=[0xFF] * 6)
    if tt == "tt3emu":
        return worlds.T3World(sx, 4, 3, 5, oldlen, emulated=True, fill=0x40)
    if tt == "tt4a":
        return worlds.T4World(sx, 0x20, 255, 255, 32, oldlen, typ="A", fsci=8, fill=0x41)
    if tt == "tt4b":
        return worlds.T4World(sx, 0x30, 20, 9, 32, oldlen, typ="B", fsci=4, fill=0x41)
    if tt == "tt4fwi11":
        # frame waiting time integer 11: the retry budget per block is 1
        return worlds.T4World(sx, 0x20, 255, 255, 32, oldlen, typ="A", fsci=8, fwi=11, fill=0x41)
    if tt == "tt4fwi10":
        # ... 10: budget 3
        return worlds.T4World(sx, 0x20, 255, 255, 32, oldlen, typ="A", fsci=8, fwi=10, fill=0x41)
    if tt == "tt4longchain":
        # a READ BINARY answer chained over 8 card blocks (more blocks than the
        # retry budget of 5): every block has its own budget
        return worlds.T4World(sx, 0x20, 255, 255, 120, 100, typ="A", fsci=8, tx_size=13, fill=0x41)
    if tt == "tt4chain":
        # FSC 16: every UPDATE BINARY / READ BINARY answer of 20 bytes is chained
        return worlds.T4World(sx, 0x20, 20, 20, 40, oldlen, typ="A", fsci=0, tx_size=13, fill=0x41)
    raise ValueError(tt)


def attempts(world, tag):
    """documented number of attempts per command: three for Type 1/2/3; for
    ISO-DEP the retry budget derived from the frame waiting time plus one"""
    dep = getattr(tag, "_dep", None)
    if dep is not None:
        return dep.n_retry_nak + 1
    return 3


def activation_faults(sx, tt, kinds, lengths):
    """faults during nfc.tag.activate(): a tag object or the documented None,
    never an exception"""
    w = make_world(sx, tt, 5)
    burst = Burst(sx, kinds, lengths)
    w.sim.hook = burst
    try:
        tag = w.fresh_tag()
    except nfc.tag.TagCommandError:
        # (activation is documented to return None on communication errors;
        # a TagCommandError is at least the documented error type)
        sx.reach("activation_tag_command_error")
        tag = None
    w.sim.hook = None
    if burst.started:
        sx.reach("fault:" + burst.kind)
        sx.reach("activation_with_fault")
    else:
        sx.reach("no_fault")
    return ["activated" if tag is not None else "none", burst.at]


def op_faults(sx, tt, op, kinds, lengths):
    oldlen = 5
    w = make_world(sx, tt, oldlen)
    oldlen = w.oldlen
    if tt.startswith("tt2"):
        w.head = sx.mkbytes(list(w.sim.mem[0:16]), False)   # UID, lock, CC
    tag = w.fresh_tag()
    if tag is None:
        sx.check(False, "activate-returned-none:" + tt)
    # vendor worlds: the vendor specific class is what activation returns
    vendor = getattr(w, "expect_class", None) is not None
    if vendor and type(tag).__name__ != w.expect_class:
        sx.check(False, "activate-returned-other-class:" + tt)
    if getattr(w, "auth", False):
        # FeliCa Lite / Lite-S, Ultralight C, NTAG21x: authenticated state,
        # reached without faults
        if tag.authenticate(w.password) is not True:
            sx.check(False, "fault-free-authenticate-fails:" + tt)
        sx.reach("%s_authenticated_before_faults" % w.label)
    burst = Burst(sx, kinds, lengths)
    pre_ndef = None
    if op in ("write", "writebig", "format", "formatwipe", "reread"):
        pre_ndef = tag.ndef          # fault-free part
        if pre_ndef is None:
            sx.check(False, "well-formed-layout-not-recognised:" + tt)
    msg = None
    w.sim.sent = []
    w.sim.hook = burst
    outcome = None
    try:
        if op == "read":
            nd = tag.ndef
            outcome = ("ndef", None if nd is None else nd.octets)
        elif op == "reread":
            outcome = ("changed", pre_ndef.has_changed)
        elif op == "write":
            if hasattr(w, "concrete_msg"):
                msg = sx.mkbytes(list(w.concrete_msg), True)
            else:
                msg = sx.mkbytes([sx.int("msg[%d]" % i, 0x80, 0xFF) for i in range(7)], True)
            pre_ndef.octets = msg
            outcome = ("written",)
        elif op == "writebig":
            # a message that differs from the stored one on both sides of the
            # 1 KiB sector boundary (message offset 1004): the first SECTOR
            # SELECT of the operation happens while cached pages are written
            msg = sx.mkbytes([(b ^ 0x55) if 996 <= i < 1012 else b
                              for i, b in enumerate(w.old)], True)
            pre_ndef.octets = msg
            outcome = ("written",)
        elif op == "present":
            outcome = ("present", tag.is_present)
        elif op == "format":
            outcome = ("format", tag.format())
        elif op == "formatwipe":
            outcome = ("format", tag.format(wipe=sx.int("wipe", 0x80, 0xFF)))
        elif op == "protect":
            outcome = ("protect", tag.protect())
        elif op == "protectpw":
            # password protection with a new password; protect() ends with a
            # fresh activation and authenticate(new password)
            outcome = ("protect", tag.protect(w.new_password))
        elif op == "authenticate":
            # the right password, starting from the unauthenticated state
            outcome = ("authenticate", tag.authenticate(w.password))
        elif op == "dump":
            outcome = ("dump", len(tag.dump()) > 0)
        else:
            raise ValueError(op)
    except nfc.tag.TagCommandError as e:
        outcome = ("TagCommandError", e.errno)
    w.sim.hook = None
    who = "%s:%s" % (tt, op)
    check_sends(sx, w, who)
    if tt in FELICA_STANDARD:
        if any(e[0] == "request_response" for e in w.sim.log):
            sx.reach(w.label + "_request_response")
        if any(e[0] == "search_service_code" for e in w.sim.log):
            sx.reach(w.label + "_dump_walks_services")
    if not burst.started:
        if op in ("authenticate", "protectpw") and outcome[1] is not True:
            sx.check(False, "fault-free-%s-fails:%s" % (op, tt))
        sx.reach("no_fault")
        return ["clean", op]
    sx.reach("fault:" + burst.kind)
    absorbed_expected = burst.length < attempts(w, tag) and not burst.at_sector_select
    if tt.startswith("tt4") and burst.kind == "protocol":
        # ISO/IEC 14443-4 has no recovery for protocol errors: documented as
        # unrecoverable, reported at once with PROTOCOL_ERROR
        absorbed_expected = False
    if outcome[0] == "TagCommandError":
        sx.reach("ended_in_tag_command_error")
        errno = outcome[1]
        ok = sx.any([sx.eq(errno, KINDS[burst.kind][1]), errno > 0])
        sx.check(ok, "errno-does-not-match-error-kind:%s:%s" % (who, burst.kind))
        if absorbed_expected and not burst.at_sector_select:
            sx.check(False, not_absorbed_label(who, burst))
        if vendor and op == "present":
            # vendor worlds: the presence check is documented as True/False
            sx.check(False, "presence-check-raised-tag-command-error:" + who)
        silent = burst.at_sector_select and burst.kind == "timeout"
        # (a lost second SECTOR SELECT packet is taken for its passive
        # acknowledgement: reader and tag disagree about the sector from
        # then on, by design of the protocol - nothing is demanded)
        if op in ("read", "write", "writebig") and not tt.startswith("tt4") and not silent:
            # the error is over (the burst is used up): the application repeats
            # the operation through the same tag object
            return ["error", op, burst.kind, repeat_after_error(sx, w, tag, pre_ndef, op, msg, who)]
        return ["error", op, burst.kind]
    # operation completed: absorbed, or a documented None/False result
    if burst.at_sector_select and burst.kind == "timeout":
        # a lost second SECTOR SELECT packet is indistinguishable from its
        # passive acknowledgement (silence): nothing is demanded of the result
        sx.reach("sector_select_packet_lost_silently")
        return ["done", op, burst.kind]
    if op == "read":
        if outcome[1] is None:
            sx.reach("read_gave_none")
            if absorbed_expected:
                sx.check(False, not_absorbed_label(who, burst))
            if not tt.startswith("tt4") and not (burst.at_sector_select and burst.kind == "timeout"):
                return ["done", op, burst.kind, repeat_after_error(sx, w, tag, pre_ndef, op, msg, who)]
        else:
            sx.check(sx.eq(outcome[1], w.old), "read-result-differs-after-faults:" + who)
            sx.reach("absorbed")
    elif op in ("write", "writebig"):
        w.sim.mute = False
        tag2 = w.fresh_tag()
        nd2 = tag2.ndef if tag2 is not None else None
        if nd2 is None:
            sx.check(False, "ndef-gone-after-write-with-absorbed-faults:" + who)
        sx.check(sx.eq(nd2.octets, msg), "write-result-differs-after-faults:" + who)
        sx.reach("absorbed")
    elif op == "present":
        if outcome[1] is not True:
            sx.reach("present_false")
            if burst.passed_after == 0:
                sx.reach("present_false_under_persistent_error")
            if absorbed_expected:
                sx.check(False, not_absorbed_label(who, burst))
        else:
            if burst.passed_after == 0:
                # the error persisted to the end of the operation: no exchange
                # was answered since the burst began
                sx.check(False, "present-true-although-every-exchange-failed:%s:%s"
                         % (who, burst.kind))
            sx.reach("absorbed")
    elif op in ("authenticate", "protectpw") or (vendor and op == "protect"):
        # documented results: True / False (None means "not supported", which
        # is not the case for these classes); a burst shorter than the
        # attempts of one command does not change the result
        res = outcome[1]
        if res is not True and res is not False:
            sx.check(False, "result-neither-true-nor-false:" + who)
        if res is True:
            if op != "protect":
                if not w.card_authenticated():
                    sx.check(False, "true-result-but-card-not-authenticated:" + who)
                if tag.is_authenticated is not True:
                    sx.check(False, "true-result-but-is_authenticated-false:" + who)
            if op == "protectpw" and not w.card_has_key(w.new_password):
                sx.check(False, "protect-true-but-card-holds-other-key:" + who)
            sx.reach("absorbed")
            if op == "authenticate":
                sx.reach(w.label + "_authenticated")
            elif op == "protectpw":
                sx.reach(w.label + "_protected_with_password")
        else:
            sx.reach("documented_false_or_none")
            if absorbed_expected:
                sx.check(False, not_absorbed_label(who, burst))
    else:
        sx.reach("absorbed" if outcome[1] is True else "documented_false_or_none")
    return ["done", op, burst.kind]


def not_absorbed_label(who, burst):
    label = "transient-burst-not-absorbed:%s:%s:len=%d" % (who, burst.kind, burst.length)
    if burst.at_mac_write and burst.mode == "rsp":
        # the executed Write with MAC whose response was lost: a site of its own
        label += ":mac-write-response-lost"
    if burst.at_auth_part2 and burst.mode == "rsp":
        # Ultralight C: the executed second part of AUTHENTICATE whose
        # response was lost: a site of its own
        label += ":auth-part2-response-lost"
    return label


def repeat_after_error(sx, w, tag, pre_ndef, op, msg, who):
    """the operation failed with TagCommandError while the burst lasted; now
    the link is fault-free again and the same tag object is used once more:
    the repeated operation must give the fault-free result (the driver's
    picture of the tag - selected sector, cached memory - must not have been
    advanced by commands that were never answered)"""
    w.sim.hook = None
    w.sim.mute = False
    sx.reach("repeated_after_error")
    try:
        if op == "read":
            nd = tag.ndef
            got = None if nd is None else nd.octets
            if got is None:
                sx.check(False, "repeated-read-after-error-gives-none:" + who)
            sx.check(sx.eq(got, w.old), "repeated-read-after-error-differs:" + who)
            return "read-ok"
        pre_ndef.octets = msg
    except nfc.tag.TagCommandError:
        sx.check(False, "repeated-operation-fails-without-fault:" + who)
    head = getattr(w, "head", None)
    if head is not None:
        sx.check(sx.eq(sx.mkbytes(list(w.sim.mem[0:len(head)]), False), head),
                 "repeated-write-changed-bytes-in-front-of-the-data-area:" + who)
    tag2 = w.fresh_tag()
    nd2 = tag2.ndef if tag2 is not None else None
    if nd2 is None:
        sx.check(False, "ndef-gone-after-repeated-write:" + who)
    sx.check(sx.eq(nd2.octets, msg), "repeated-write-after-error-differs:" + who)
    return "write-ok"


def op_after_outage(sx, tt, op, kind1, kinds2):
    """history through one tag object: an operation fails because the tag
    misses all attempts of one command (a persistent error of kind1 from a
    lazily chosen command on), the tag is back, and the NEXT operation meets
    a burst shorter than the documented attempts (kinds2, length 1..2, at a
    lazily chosen command): it must be absorbed like on a fresh tag object -
    what a driver remembers about an outage must not cost the next operation
    its retries"""
    w = make_world(sx, tt, 5)
    tag = w.fresh_tag()
    if tag is None:
        sx.check(False, "activate-returned-none:" + tt)
    first = Burst(sx, [kind1], [4], modes=("cmd",))
    w.sim.hook = first
    try:
        r1 = tag.is_present if op == "present" else tag.ndef
        out1 = "done"
    except nfc.tag.TagCommandError:
        out1 = "error"
    w.sim.hook = None
    if not first.started:
        sx.reach("no_fault")
        return ["clean"]
    sx.reach("outage_before_next_operation")
    # the tag is back in the field; a fresh sense is what the application's
    # polling loop does when an operation reported the tag gone
    w.sim.mute = False
    second = Burst(sx, list(kinds2), [1, 2])
    second.k = 0

    class Hook(object):         # (the second burst's flags have names of their own)
        def __call__(self, sim, cmd):
            if not second.started:
                if sx.truth(sx.flag("second_burst_starts_at_cmd_%d" % second.k)):
                    second.started = True
                    second.at = second.k
                    second.kind = sx.pick("kind2", list(kinds2))
                    second.length = sx.pick("burst2", [1, 2])
                    second.mode = sx.pick("lost2", ["cmd", "rsp"])
                    second.left = second.length
                else:
                    second.k += 1
                    return None
            if second.left > 0:
                second.left -= 1
                exc = KINDS[second.kind][0]("injected")
                if second.mode == "cmd":
                    raise exc
                return exc
            return None
    w.sim.hook = Hook()
    who = "%s:%s:after-outage" % (tt, op)
    try:
        if op == "present":
            r2 = tag.is_present
            ok = r2 is True
        else:
            tag._ndef = None
            nd = tag.ndef
            ok = nd is not None and sx.truth(sx.eq(nd.octets, w.old))
    except nfc.tag.TagCommandError:
        ok = False
    w.sim.hook = None
    if not second.started:
        sx.check(ok, "operation-after-outage-fails-without-fault:" + who)
        return ["outage", "clean"]
    sx.reach("short_burst_after_outage")
    if not ok:
        sx.check(False, "transient-burst-not-absorbed:%s:%s:len=%d" % (who, second.kind, second.length))
    return ["outage", second.kind, second.length]


def nak_then_gone(sx, tt, later):
    """a command is refused by the tag (NAK) and the tag has left the field
    when the reader tries to activate it again; every later operation on the
    same tag object ends as documented, never in an unrelated exception"""
    w = make_world(sx, tt, 5)
    tag = w.fresh_tag()
    if tag is None:
        sx.check(False, "activate-returned-none:" + tt)
    w.sim.gone_after_nak = True
    try:
        tag.read(0xF0)                      # far behind the end of memory
        sx.check(False, "read-behind-memory-did-not-fail:" + tt)
    except nfc.tag.TagCommandError:
        sx.reach("nak_then_gone")
    out = []
    for op in later:
        try:
            if op == "present":
                out.append(tag.is_present is True)
            elif op == "ndef":
                out.append(tag.ndef is not None)
            elif op == "read":
                tag.read(4)
                out.append(True)
            elif op == "dump":
                out.append(len(tag.dump()) > 0)
            elif op == "write":
                tag.write(5, b"abcd")
                out.append(True)
        except nfc.tag.TagCommandError:
            out.append("TagCommandError")
        if op in ("present", "ndef") and out[-1] is True:
            sx.check(False, "tag-that-left-the-field-reported-%s:%s" % (op, tt))
    return out


def passive_ack_step(w, burst):
    """Type 2 SECTOR SELECT packet 2 is sent without retries by design"""
    return getattr(w.sim, 'sector_pending', False) or any(
        c[0] and c[0][0] == 0xC2 for c in w.sim.sent[-3:])


def check_sends(sx, w, who):
    """bounded attempts; an answered state-changing command is not re-sent"""
    sent = w.sim.sent
    run = 1
    for i in range(1, len(sent)):
        same = sent[i][0] == sent[i - 1][0] and all(
            not sx.is_sym(x) for x in sent[i][0])
        if sent[i][0] is sent[i - 1][0] or same:
            run += 1
            if sent[i - 1][1] and w.sim.is_write(sent[i][0]):
                sx.check(False, "answered-write-command-sent-again:" + who)
        else:
            run = 1
        if run > 6:
            sx.check(False, "unbounded-retries:" + who)


def vendor_partitions(tier):
    """FeliCa Standard / Mobile, MIFARE Ultralight C, NTAG21x, Ultralight EV1
    and authenticate() itself on FeliCa Lite / Lite-S.  The presence check of
    FeliCa Standard makes up to six attempts (3 x Request Response, 3 x
    Polling): bursts of 6 and 7 are the persistent error there."""
    all_kinds = ("timeout", "transmission", "protocol")
    T, X, P = ("timeout",), ("transmission",), ("protocol",)
    if tier == "quick":
        sel = [("tt3fs01", "present", all_kinds), ("tt3fs01", "read", T),
               ("tt3fs01", "write", X), ("tt3fs01", "dump", P),
               ("tt3fs20", "present", P), ("tt3fm10", "present", X),
               ("tt3fm10", "read", P),
               ("tt2ulc", "authenticate", all_kinds), ("tt2ulc", "protectpw", T + X),
               ("tt2ulc", "read", T), ("tt2ulc", "write", P), ("tt2ulc", "present", X),
               ("tt2ulc+auth", "write", X),
               ("tt2ntag213", "authenticate", all_kinds), ("tt2ntag213", "protectpw", T + P),
               ("tt2ntag213", "read", X), ("tt2ntag213", "write", T),
               ("tt2ntag213", "present", P),
               ("tt2ulev1", "authenticate", T), ("tt2ulev1", "protectpw", X),
               ("tt3lite", "authenticate", all_kinds),
               ("tt3lites", "authenticate", all_kinds)]
    else:
        ops = {"tt3fs01": ["present", "read", "reread", "write", "dump"],
               "tt3fs20": ["present", "read", "write", "dump"],
               "tt3fm10": ["present", "read", "write", "dump"],
               "tt2ulc": ["read", "reread", "write", "present", "dump", "protect",
                          "protectpw", "authenticate"],
               "tt2ulc+auth": ["read", "write", "present"],
               "tt2ntag213": ["read", "reread", "write", "present", "dump", "protect",
                              "protectpw", "authenticate"],
               "tt2ntag213+auth": ["read", "write"],
               "tt2ulev1": ["read", "write", "present", "dump", "protect",
                            "protectpw", "authenticate"],
               "tt2ulev1+auth": ["write"],
               "tt3lite": ["authenticate"], "tt3lites": ["authenticate"]}
        sel = [(tt, op, all_kinds) for tt, oplist in ops.items() for op in oplist]
    parts = []
    for tt, op, kinds in sel:
        for kind in kinds:
            lengths = [1, 2, 3] if tier == "quick" else [1, 2, 3, 4]
            if tt in FELICA_STANDARD and op == "present":
                lengths = lengths + [6, 7]
            parts.append(dict(name="%s:%s:%s" % (tt, op, kind), fn="op_faults",
                              params=dict(tt=tt, op=op, kinds=[kind], lengths=lengths)))
    return parts


def partitions(tier):
    parts = []
    ops = {"tt2": ["read", "reread", "write", "present", "format", "protect", "dump"],
           "tt2big": ["read", "writebig"],
           "tt1": ["read", "write", "present", "format", "protect", "dump"],
           "tt1dyn": ["read", "write", "format", "present"],
           "tt3": ["read", "write", "present", "dump"],
           "tt3emu": ["read", "write"],
           "tt3slow": ["read", "write"],
           "tt4a": ["read", "write", "present", "format"],
           "tt4b": ["read", "write"],
           "tt4chain": ["read", "write"],
           "tt4fwi11": ["read", "write"],
           "tt4fwi10": ["read"],
           "tt4longchain": ["read"]}
    if tier != "quick":
        for tt in ("tt2", "tt1", "tt1dyn", "tt4a"):
            ops[tt].append("formatwipe")
    else:
        ops["tt2"].append("formatwipe")
    for tt, oplist in ops.items():
        for op in oplist:
            for kind in ("timeout", "transmission", "protocol"):
                lengths = [1, 2, 3] if tier == "quick" else [1, 2, 3, 4]
                parts.append(dict(name="%s:%s:%s" % (tt, op, kind), fn="op_faults",
                                  params=dict(tt=tt, op=op, kinds=[kind], lengths=lengths)))
    # FeliCa Lite / Lite-S vendor classes (their NDEF classes override the
    # Type 3 ones), unauthenticated and authenticated before the faults
    all_kinds = ("timeout", "transmission", "protocol")
    if tier == "quick":
        lite = [("tt3lite+auth", "read", all_kinds), ("tt3lite+auth", "write", all_kinds),
                ("tt3lites+auth", "read", all_kinds), ("tt3lites+auth", "write", ("timeout",)),
                ("tt3lite", "read", ("timeout", "protocol")),
                ("tt3lite", "write", ("transmission",)),
                ("tt3lites", "read", ("transmission",))]
    else:
        lite = [(tt, op, all_kinds)
                for tt in ("tt3lite", "tt3lites", "tt3lite+auth", "tt3lites+auth")
                for op in ("read", "reread", "write", "present")]
    for tt, op, kinds in lite:
        for kind in kinds:
            lengths = [1, 2, 3] if tier == "quick" else [1, 2, 3, 4]
            parts.append(dict(name="%s:%s:%s" % (tt, op, kind), fn="op_faults",
                              params=dict(tt=tt, op=op, kinds=[kind], lengths=lengths)))
    parts += vendor_partitions(tier)
    for tt in ("tt1", "tt1dyn", "tt2", "tt3"):
        for op in ("present", "read"):
            for kind1 in (("timeout",) if tier == "quick" else ("timeout", "transmission")):
                parts.append(dict(name="%s:%s:after-outage:%s" % (tt, op, kind1), fn="op_after_outage",
                                  params=dict(tt=tt, op=op, kind1=kind1,
                                              kinds2=["timeout", "transmission", "protocol"])))
    for later in (["present", "read"], ["ndef", "dump"], ["read", "write", "present"]):
        parts.append(dict(name="tt2:nak-then-gone:" + "+".join(later), fn="nak_then_gone",
                          params=dict(tt="tt2", later=later)))
    for tt in ("tt2", "tt1", "tt1dyn", "tt3", "tt4a", "tt4b"):
        for kind in ("timeout", "transmission", "protocol"):
            parts.append(dict(name="%s:activate:%s" % (tt, kind), fn="activation_faults",
                              params=dict(tt=tt, kinds=[kind], lengths=[1, 3] if tier == "quick" else [1, 2, 3, 4])))
    return parts


MUST_REACH = ["outage_before_next_operation", "short_burst_after_outage", "no_fault", "fault:timeout", "fault:transmission", "fault:protocol",
              "absorbed", "ended_in_tag_command_error", "activation_with_fault",
              "repeated_after_error", "lite_authenticated_before_faults",
              "lites_authenticated_before_faults",
              # vendor worlds (vendor_partitions): the vendor specific code ran
              "felica_standard_request_response", "felica_mobile_request_response",
              "felica_standard_dump_walks_services",
              "present_false_under_persistent_error",
              "ulc_authenticated", "ulc_protected_with_password",
              "ulc_authenticated_before_faults",
              "ntag_authenticated", "ntag_protected_with_password",
              "ulev1_authenticated", "ulev1_protected_with_password",
              "lite_authenticated", "lites_authenticated"]
BOUNDS = {"quick": "one burst (length 1..3, kind timeout/transmission/protocol, command or response lost) at every command position of read/write/presence/format/protect/dump on one small world per tag type; after a read/write that ended in TagCommandError or None the operation is repeated fault-free through the same tag object (Type 1/2/3) and must give the fault-free result; added later: Type 4 worlds with FWI 10/11, a Type 3 card with the slowest PMm parameters, an operation that exhausted its attempts followed by a burst of 1..2 in the next operation of the same tag object (Type 1/2/3)",
          "thorough": "burst lengths 1..4"}
LITE_BOUNDS = "; FeliCa Lite / Lite-S vendor classes (env.tt3lite_sim, NDEF formatted, concrete key and contents): quick = authenticated Lite read/write x all kinds, authenticated Lite-S read x all kinds and write x timeout, unauthenticated Lite read/write and Lite-S read for some kinds; thorough = read/reread/write/present x all kinds on all four (unauthenticated, authenticated fault-free before the burst)"
VENDOR_BOUNDS = {
    "quick": "; other vendor classes (concrete keys and contents, same burst model): FeliCa Standard IC 01h (env.tags.Tt3Sim standard=True: Request Response, Request System Code, Search Service Code, Request Service; one system 12FCh, area 0, services 0009h/000Bh) presence check x all kinds with bursts 1..3 and 6, 7 (3 x Request Response + 3 x Polling = persistent error, result must be False), read/write/dump for one kind each, IC 20h and Mobile FeliCa IC 10h presence check and read for one kind; MIFARE Ultralight C (env.tt2nxp_sim.UlcSim, 3DES handshake with real pyDes) authenticate(right password) x all kinds, protect(new password) x 2 kinds, read/write/present for one kind, NDEF write on a write-protected tag authenticated before the burst; NTAG213 (env.tt2nxp_sim.NxpHookSim) authenticate x all kinds, protect(new password) x 2 kinds, read/write/present one kind; Ultralight EV1 MF0UL21 authenticate, protect(new password) one kind; FeliCa Lite and Lite-S authenticate(right password) from the unauthenticated state x all kinds.  authenticate/protect with password: True and the card agrees (authenticated state, stored key) when the burst is shorter than three attempts, otherwise True, False or TagCommandError with the matching reason",
    "thorough": "; other vendor classes: FeliCa Standard IC 01h/20h and Mobile FeliCa IC 10h present/read/write/dump x all kinds (presence check with bursts 1..4, 6, 7); Ultralight C, NTAG213 and Ultralight EV1 MF0UL21 read/write/present/dump/protect (lock bits)/protect(new password)/authenticate x all kinds, NDEF read/write on write-protected tags authenticated before the burst; FeliCa Lite / Lite-S authenticate x all kinds"}
BOUNDS = dict((k, v + LITE_BOUNDS + VENDOR_BOUNDS[k]) for k, v in BOUNDS.items())
OUTSIDE = ["two separate bursts in one operation (two bursts in two successive operations of one tag object: the after-outage partitions)", "repeating an operation after an error on a Type 4 Tag (ISO-DEP state after a failed exchange: known finding of C12)", "vendor specific tag classes other than Topaz/Topaz-512, FeliCa Lite / Lite-S, FeliCa Standard / Mobile, MIFARE Ultralight C, NTAG21x (NTAG213) and Ultralight EV1 (MF0UL21): NTAG203, NTAG I2C, FeliCa Plug, plain MIFARE Ultralight, the other members of the NTAG21x / EV1 families (same code, other page numbers)", "authenticate() with a wrong password under faults; FeliCa Lite / Lite-S protect(); FeliCa Standard cards with more than one system or with nested areas, and their keyed services; access restrictions of NTAG21x / EV1 (AUTH0/PROT are not enforced by env.tt2nxp_sim.NxpSim); a frame that reaches the tag damaged (NAK, tag back in IDLE state)"]
ASSUMPTIONS = ["a failing exchange either never reaches the tag or is executed with the response lost",
               "FeliCa Lite / Lite-S worlds: env.tt3lite_sim.LiteHookSim with real pyDes on both sides (key, challenge from a fixed os.urandom stub, contents and the written message are concrete); the tag counts executed writes with MAC (WCNT)",
               "FeliCa Standard / Mobile worlds: env.tags.Tt3Sim with standard=True answers Request Response (mode 0), Request System Code (12FCh), Search Service Code (area 0000h-FFFEh, services 0009h, 000Bh) and Request Service; the IC code in PMm selects the nfcpy class",
               "Ultralight C worlds: env.tt2nxp_sim.UlcSim (MF0ICU2 memory map, key pages write-only, AUTH0/AUTH1/key effective from the next activation, 3DES mutual authentication computed with pyDes on the card side, a new RndB for every `1A 00`, `AF` outside a handshake is an unknown command, NAK = mute until sensed again); os.urandom of nfc.tag.tt2_nxp is a fixed stub; key, contents and message are concrete",
               "NTAG213 / MF0UL21 worlds: env.tt2nxp_sim.NxpHookSim (PWD_AUTH answered with PACK in every state, PWD/PACK read back as zero, NAK surfaces as time-out and leaves the tag mute until sensed again)"]
