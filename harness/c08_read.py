"""C08 - activating and reading arbitrary tags terminates safely.

Mutations of valid layouts with the mutated fields symbolic (TLV lengths,
capability container bytes, control TLV values, attribute block, CC file,
NLEN, activation answers), plus small fully symbolic images, plus the command
index at which the tag stops answering."""
import nfc
import nfc.clf
import nfc.tag
from env import tags
from harness import worlds

PROPERTY = "C08"


class Silence(object):
    """hook: the tag stops answering at a lazily chosen command index"""

    def __init__(self, sx):
        self.sx, self.k, self.at = sx, 0, None

    def __call__(self, sim, cmd):
        if self.at is None and self.sx.truth(self.sx.flag("silent_from_cmd_%d" % self.k)):
            self.at = self.k
            sim.gone = True
            raise nfc.clf.TimeoutError("gone")
        self.k += 1


def exercise(sx, world, kind, avail=None, max_cmds=None, silence=False):
    """activate + every ndef attribute; nothing but None / a consistent object"""
    sim = world.sim
    if silence:
        sim.hook = Silence(sx)
    sim.max_cmds = max_cmds if max_cmds is not None else 20000
    try:
        return _exercise(sx, world, kind, avail)
    except tags.TooManyCommands:
        sx.check(False, "unbounded-number-of-commands:" + kind)


def _exercise(sx, world, kind, avail):
    sim = world.sim
    tag = world.fresh_tag()
    if tag is None:
        sx.reach("activate_none")
        return "no-tag"
    ndef = tag.ndef
    if ndef is None:
        sx.reach("ndef_none")
        res = "no-ndef"
    else:
        sx.reach("ndef_object")
        length, cap = ndef.length, ndef.capacity
        octets = ndef.octets
        sx.check(len(octets) == length, "length-differs-from-octets:" + kind)
        sx.check(length <= cap, "length-exceeds-capacity:" + kind)
        if avail is not None:
            sx.check(length <= avail, "octets-outside-data-area:" + kind)
        readable, writeable = ndef.is_readable, ndef.is_writeable
        changed = ndef.has_changed
        if tag.ndef is not None:
            sx.check(tag.ndef.length <= tag.ndef.capacity, "length-exceeds-capacity-after-reread:" + kind)
        res = "ndef"
    return res


# ----------------------------------------------------------------------------
# Type 2
# ----------------------------------------------------------------------------
def length_field(sx, m, T, fmt):
    """1-byte form: the length byte fully symbolic (below FFh); 3-byte form:
    high byte from a boundary set, low byte symbolic"""
    if fmt == 1:
        m[T + 1] = sx.int("len1", 0, 0xFE)
    else:
        m[T + 1] = 0xFF
        m[T + 2] = sx.pick("len_hi", [0, 1, 2, 0xFF])
        m[T + 3] = sx.byte("len_lo")


def t2_len(sx, S, prefix, rsv, extra, fmt):
    w = worlds.T2World(sx, S, prefix, [tuple(r) for r in rsv], 0, extra=extra,
                       symbolic_window=(0, 0), terminator=1)
    m = w.sim.mem
    T = w.T
    length_field(sx, m, T, fmt)
    # old terminator position may have been set; value bytes symbolic in a window
    for i in range(T + 4, min(T + 12, len(m))):
        if i not in w.R:
            m[i] = sx.byte("v[%d]" % i)
    # what the data area can hold behind a 1- or 3-byte length field
    end = 16 + S
    a1 = len([b for b in range(T + 2, end) if b not in w.R])
    a3 = len([b for b in range(T + 4, end) if b not in w.R])
    avail = sx.ite(m[T + 1] == 0xFF, a3, a1)
    return exercise(sx, w, "tt2:tlv-length", avail=avail, max_cmds=4 * (len(m) // 4) + 40)


def t2_cc(sx, size_byte, phys):
    w = worlds.T2World(sx, 48, "", [], 3, extra=phys - 64, symbolic_window=(0, 0), terminator=1)
    m = w.sim.mem
    m[12] = sx.byte("cc0")
    m[13] = sx.byte("cc1")
    m[14] = size_byte
    m[15] = sx.byte("cc3")
    return exercise(sx, w, "tt2:cc", max_cmds=4 * (phys // 4) + 40)


def t2_ctl(sx, S, which, tlvlen):
    w = worlds.T2World(sx, S, "", [], 2, symbolic_window=(0, 0), terminator=1)
    m = w.sim.mem
    v0 = sx.pick("v0", [0x00, 0x10, 0x41, 0xF0, 0xFF])
    v1 = sx.pick("v1", [0, 1, 8, 255])
    v2 = sx.pick("v2", [0x00, 0x02, 0x03, 0x0F, 0xF4])
    body = [v0, v1, v2, 0x00, 0x00][:tlvlen] if tlvlen < 200 else [v0, v1, v2]
    if tlvlen == 255:
        tlv = [which, 0xFF, 0x00, 0x03] + body
    else:
        tlv = [which, tlvlen] + body
    ndef = [0x03, sx.pick("ndef_len", [0, 2, 40, 255]), 0xD0, 0x00, 0xFE]
    m[16:16 + len(tlv) + len(ndef)] = tlv + ndef
    return exercise(sx, w, "tt2:control-tlv", max_cmds=4 * (len(m) // 4) + 60)


def t2_ctl256(sx, which, rsv, oldlen):
    """a stored message that runs across the bytes a control TLV with size
    byte 00h reserves (256 lock bits = 32 bytes / 256 reserved bytes): what
    the reader returns are the octets of the data area, and its capacity does
    not count the reserved bytes"""
    w = worlds.T2World(sx, 872, which, [tuple(rsv)], oldlen, symbolic_window=(0, 0), terminator=1)
    kind = "tt2:control-tlv-size-00h:" + which
    w.sim.max_cmds = 1200
    try:
        tag = w.fresh_tag()
        ndef = tag.ndef if tag is not None else None
    except tags.TooManyCommands:
        sx.check(False, "unbounded-number-of-commands:" + kind)
    if ndef is None:
        sx.check(False, "well-formed-message-not-read:" + kind)
    sx.reach("t2_ctl_size_00h")
    octets = ndef.octets
    sx.check(len(octets) == ndef.length and ndef.length <= ndef.capacity,
             "length-exceeds-capacity:" + kind)
    sx.check(ndef.capacity <= w.cap, "capacity-exceeds-data-area:" + kind)
    if len(octets) != len(w.old):
        sx.check(False, "octets-outside-data-area:" + kind)
    sx.check(sx.eq(octets, w.old), "octets-are-not-what-the-data-area-holds:" + kind)
    return "ndef"


def t2_unknown(sx, S):
    w = worlds.T2World(sx, S, "", [], 0, symbolic_window=(0, 0), terminator=1)
    m = w.sim.mem
    m[16] = sx.byte("t")
    m[17] = sx.byte("l")
    for i in range(18, 64):
        m[i] = 0x00
    m[40:45] = [0x03, 0x02, 0xD0, 0x00, 0xFE]
    return exercise(sx, w, "tt2:unknown-tlv", max_cmds=4 * (len(m) // 4) + 60)


def t2_tiny(sx, size_byte, ndata):
    w = worlds.T2World(sx, 48, "", [], 0, extra=0, symbolic_window=(0, 0), terminator=1)
    m = w.sim.mem
    m[14] = size_byte
    for i in range(16, 16 + ndata):
        m[i] = sx.byte("m[%d]" % i)
    return exercise(sx, w, "tt2:symbolic-image", max_cmds=4 * (len(m) // 4) + 60)


VERSIONS = ["0004030101000B03", "0004030201000B03", "0004030101000E03", "0004030201000E03",
            "0004040101000B03", "0004040101000E03", "0004040201000F03", "0004040201001103",
            "0004040201001303", "0004040502011303", "0004040502011503",
            "0004040502021303", "00", "0004", "000404020100", "FFFFFFFFFFFFFFFF", ""]


def t2_version(sx, phys_pages):
    """NXP tag (UID starts with 04h) answering GET_VERSION with each known
    product code, unknown codes, NAK, truncated and empty answers, on a memory
    that need not have the size the product code promises; AUTHENTICATE (1Ah)
    probe answered by NAK/silence or by AFh + 8 symbolic bytes (Ultralight C)"""
    S = phys_pages * 4 - 16
    w = worlds.T2World(sx, 48 if S >= 48 else 8, "", [], 3 if S >= 48 else 0, extra=max(S - 48, 0),
                       symbolic_window=(0, 0), terminator=1)
    sim = w.sim
    w.uid = b"\x04\x51\x7C\xA1\xE1\xED\x25"
    ver = sx.pick("version", VERSIONS)
    ulc = sx.pick("ulc", [False, True])
    orig = sim.execute

    def execute(cmd):
        if len(cmd) == 1 and cmd[0] == 0x60 and ver != "":
            return sx.mkbytes(list(bytes.fromhex(ver)), True)
        if len(cmd) == 2 and cmd[0] == 0x1A and ulc:
            return sx.mkbytes([0xAF] + list(sx.bytes("ek", 8)), True)
        if len(cmd) == 1 and cmd[0] == 0x3C:
            return sx.mkbytes([0] * 32, True)
        return orig(cmd)
    sim.execute = execute
    return exercise(sx, w, "tt2:nxp-version", max_cmds=4 * phys_pages + 80)


def t2_gone(sx, S, n):
    w = worlds.T2World(sx, S, "L", [(16 + S, 2)], n, symbolic_window=(0, 0), terminator=1)
    return exercise(sx, w, "tt2:goes-silent", silence=True)


# ----------------------------------------------------------------------------
# Type 1
# ----------------------------------------------------------------------------
def t1_len(sx, hr, size, prefix, rsv, fmt):
    w = worlds.T1World(sx, tuple(hr), size, prefix, [tuple(r) for r in rsv], 0,
                       exact=True, symbolic_window=(0, 0), terminator=1)
    m = w.sim.mem
    T = w.T
    if fmt == 1:
        m[T + 1] = sx.int("len1", 0, 0xFE)
    else:
        m[T + 1] = 0xFF
        m[T + 2] = sx.pick("len_hi", [0, 1, 0xFF])
        m[T + 3] = sx.pick("len_lo", [0, 1, 0xC0, 0xCE, 0xCF, 0xFF])
    a1 = len([b for b in range(T + 2, size) if b not in w.R])
    a3 = len([b for b in range(T + 4, size) if b not in w.R])
    avail = sx.ite(m[T + 1] == 0xFF, a3, a1)
    return exercise(sx, w, "tt1:tlv-length", avail=avail, max_cmds=200)


def t1_cc(sx, hr, size, size_byte):
    w = worlds.T1World(sx, tuple(hr), size, "", [], 2, symbolic_window=(0, 0), terminator=1)
    m = w.sim.mem
    m[8] = sx.byte("cc0")
    m[9] = sx.byte("cc1")
    m[10] = size_byte
    m[11] = sx.byte("cc3")
    return exercise(sx, w, "tt1:cc", max_cmds=200)


def t1_hr(sx, size):
    w = worlds.T1World(sx, (0x11, 0x48), size, "", [], 2, symbolic_window=(0, 0), terminator=1)
    w.sim.hr = [sx.pick("hr0", [0x11, 0x12, 0x10, 0x21, 0x00, 0x1F]), sx.byte("hr1")]
    w.sim.dynamic = sx.pick("dyn", [False, True])
    return exercise(sx, w, "tt1:header-rom", max_cmds=200)


def t1_hr_long(sx, size, oldlen):
    """a message that runs across the reserved blocks 0Dh-0Fh (bytes 104..127)
    of a tag with more than 120 bytes whose header ROM says anything (HR0
    11h = static memory structure included, as long as the tag answers the
    dynamic memory commands): what the reader returns, if anything, are the
    octets of the data area - not lock or reserved bytes"""
    w = worlds.T1World(sx, (0x12, 0x4C), size, "", [], oldlen, symbolic_window=(0, 0), terminator=1)
    w.sim.hr = [sx.pick("hr0", [0x11, 0x12, 0x1F, 0x10, 0x21]), sx.byte("hr1")]
    w.sim.dynamic = True
    kind = "tt1:header-rom:long-message"
    w.sim.max_cmds = 400
    try:
        tag = w.fresh_tag()
        ndef = tag.ndef if tag is not None else None
    except tags.TooManyCommands:
        sx.check(False, "unbounded-number-of-commands:" + kind)
    if ndef is None:
        sx.reach("t1_long_none")
        return "none"
    sx.reach("t1_long_object")
    octets = ndef.octets
    sx.check(len(octets) == ndef.length and ndef.length <= ndef.capacity,
             "length-exceeds-capacity:" + kind)
    if len(octets) != len(w.old):
        sx.check(False, "octets-outside-data-area:" + kind)
    sx.check(sx.eq(octets, w.old), "octets-are-not-what-the-data-area-holds:" + kind)
    return "ndef"


def t1_ctl(sx, hr, size, which):
    w = worlds.T1World(sx, tuple(hr), size, "", [], 0, symbolic_window=(0, 0), terminator=1)
    m = w.sim.mem
    v0 = sx.pick("v0", [0x00, 0x10, 0x41, 0xF0, 0xFF])
    v1 = sx.pick("v1", [0, 1, 8, 255])
    v2 = sx.pick("v2", [0x00, 0x02, 0x03, 0x0F, 0xF4])
    tlvlen = sx.pick("tlvlen", [3, 0, 2, 5])
    tlv = [which, tlvlen] + [v0, v1, v2, 0, 0][:tlvlen]
    ndef = [0x03, sx.pick("ndef_len", [0, 2, 100, 255]), 0xD0, 0x00, 0xFE]
    m[12:12 + len(tlv) + len(ndef)] = tlv + ndef
    return exercise(sx, w, "tt1:control-tlv", max_cmds=200)


def t1_gone(sx, hr, size, n):
    w = worlds.T1World(sx, tuple(hr), size, "", [], n, symbolic_window=(0, 0), terminator=1)
    return exercise(sx, w, "tt1:goes-silent", silence=True)


# ----------------------------------------------------------------------------
# Type 3
# ----------------------------------------------------------------------------
def t3_attr(sx, checksum_ok, nblocks, with_sys):
    w = worlds.T3World(sx, 4, 3, 5, 0, extra=nblocks - 6, fill=0x40)
    m = w.sim.mem
    # version, Nbw, Nmaxb (low), WriteF and RWFlag are symbolic (a 14-term
    # symbolic sum in every later query is too slow), Nbr and Ln from boundary
    # sets; the checksum is correct or two further symbolic bytes
    for i in ((0, 2, 4, 9, 10) if not checksum_ok else (0, 9, 10)):
        m[i] = sx.byte("a[%d]" % i)
    if checksum_ok:
        # (a correct checksum over many symbolic bytes makes every later query
        # slow: Nbw and Nmaxb from boundary sets in this variant)
        m[2] = sx.pick("nbw", [0, 1, 3])
        m[4] = sx.pick("nmaxb_lo", [0, 5, 0xFF])
    # Nbr is turned into a range() step by the reader: boundary set
    m[1] = sx.pick("nbr", [0, 1, 4, 255])
    # Ln becomes a range() extent and a slice bound in the reader: boundary sets
    m[11] = 0
    m[12] = sx.pick("ln_mid", [0, 1, 0xFF])
    m[13] = sx.pick("ln_lo", [0, 1, 16, 17, 0x50, 0x51, 0xFF])
    # version, Nbw, Nmaxb, WriteF, RWFlag stay symbolic
    if checksum_ok:
        s = sum(m[0:14])
        m[14], m[15] = (s >> 8) & 0xFF, s & 0xFF
    else:
        m[14], m[15] = sx.byte("cs_hi"), sx.byte("cs_lo")
    w.with_sys = with_sys
    w.target = lambda: tags.tt3_target(w.sim, with_sys)
    return exercise(sx, w, "tt3:attribute-block", max_cmds=3 * 4200)


def t3_nbr_big(sx):
    """a checksum-valid attribute block that lets the reader ask for very
    many blocks in one command (the block list does not fit one frame from
    about 120 two-byte elements on)"""
    w = worlds.T3World(sx, 4, 3, 5, 0, fill=0x40)
    m = w.sim.mem
    m[1] = sx.pick("nbr", [15, 16, 119, 120, 121, 122, 126, 127, 255])
    m[3], m[4] = 0x00, 0xFF                        # Nmaxb 255
    ln = sx.pick("ln", [1904, 1921, 2032, 4080])
    m[11], m[12], m[13] = 0, ln >> 8, ln & 0xFF
    cs = sum(m[0:14])
    m[14], m[15] = (cs >> 8) & 0xFF, cs & 0xFF
    return exercise(sx, w, "tt3:many-blocks-per-read", max_cmds=3 * 300)


def t3_pmm(sx):
    """the PMm bytes that the reader turns into command time-outs, symbolic"""
    w = worlds.T3World(sx, 4, 3, 5, 20, fill=0x40)
    w.sim.pmm[5] = sx.byte("pmm5")
    w.sim.pmm[6] = sx.byte("pmm6")
    return exercise(sx, w, "tt3:pmm-timing", max_cmds=100)


def t3_poll(sx, with_sys):
    """well-framed polling answers of every length: the reader polls for
    system 12FCh itself when the SENSF_RES carried no (or another) system
    code; cards may append request data whatever the request code was"""
    w = worlds.T3World(sx, 4, 3, 5, 20, fill=0x40)
    sim = w.sim
    delta = sx.pick("poll_len", [-9, -1, 0, 1, 2, 3, 4])
    orig = sim.execute

    def execute(cmd):
        if len(cmd) == 6 and cmd[1] == 0x00:
            body = list(sim.idm) + list(sim.pmm)
            if delta < 0:
                body = body[:delta]
            else:
                body = body + list(sx.bytes("poll_extra", delta))
            return sx.mkbytes([2 + len(body), 0x01] + body, True)
        return orig(cmd)
    sim.execute = execute
    w.with_sys = with_sys
    w.target = lambda: tags.tt3_target(w.sim, with_sys)
    return exercise(sx, w, "tt3:polling-answer", max_cmds=60)


def t3_gone(sx, n):
    w = worlds.T3World(sx, 4, 3, 5, n, fill=0x40)
    return exercise(sx, w, "tt3:goes-silent", silence=True)


def t3_rsp(sx, n):
    """arbitrary well-framed answer of n bytes to the first block read"""
    w = worlds.T3World(sx, 4, 3, 5, 3, fill=0x40)
    sim = w.sim
    body = list(sx.bytes("rsp", n))
    for i in (9, 10):     # status flags become a dict key in the error class
        if i < n:
            body[i] = sx.pick("sf%d" % i, [0x00, 0x01, 0xA1, 0xFF])
    orig = sim.execute

    def execute(cmd):
        if len(cmd) > 1 and cmd[1] == 0x06:
            return sx.mkbytes([n + 1] + list(body), True)
        return orig(cmd)
    sim.execute = execute
    return exercise(sx, w, "tt3:arbitrary-read-response", max_cmds=50)


# ----------------------------------------------------------------------------
# Type 4
# ----------------------------------------------------------------------------
def t4_ats(sx, n):
    w = worlds.T4World(sx, 0x20, 255, 255, 16, 3, fill=0x41)
    card = w.sim
    # the length byte TL is symbolic as well (an answer whose TL disagrees
    # with the number of bytes received is still a well-framed answer)
    ats = [sx.byte("ats[0]")] + [sx.byte("ats[%d]" % i) for i in range(1, n)]
    card.ats = lambda: ats
    return exercise(sx, w, "tt4:ats", max_cmds=80)


def t4_sensb(sx):
    w = worlds.T4World(sx, 0x20, 255, 255, 16, 3, typ="B", fill=0x41)
    card = w.sim
    prot = [sx.byte("p0"), sx.byte("p1"), sx.byte("p2")]

    def target():
        t = tags.tt4_target(card)
        t.sensb_res[9:12] = sx.mkbytes(prot, True)
        return t
    w.target = target
    return exercise(sx, w, "tt4:sensb", max_cmds=80)


def t4_cc(sx, field):
    w = worlds.T4World(sx, 0x20, 255, 255, 16, 3, fill=0x41)
    cc = w.sim.files[0xE103]
    if field == "cclen":
        cc[0], cc[1] = sx.byte("cclen_hi"), sx.byte("cclen_lo")
    elif field == "ver":
        cc[2] = sx.byte("ver")
    elif field == "mle":
        cc[3], cc[4] = sx.pick("mle_hi", [0, 1]), sx.byte("mle_lo")
    elif field == "mlc":
        cc[5], cc[6] = sx.pick("mlc_hi", [0, 1]), sx.byte("mlc_lo")
    elif field == "tlv":
        cc[7], cc[8] = sx.byte("tlv_t"), sx.pick("tlv_l", [0, 5, 6, 7, 8, 9, 255])
    elif field == "fid":
        cc[9], cc[10] = sx.pick("fid_hi", [0xE1, 0x00, 0xFF]), sx.pick("fid_lo", [0x04, 0x03, 0x00, 0xFF])
    elif field == "size":
        cc[11], cc[12] = sx.byte("size_hi"), sx.byte("size_lo")
    elif field == "access":
        cc[13], cc[14] = sx.byte("rf"), sx.byte("wf")
    w.sim.mle = 255       # the card itself is lenient here
    w.sim.mlc = 255
    return exercise(sx, w, "tt4:cc-file:" + field, max_cmds=400)


def t4_nlen(sx):
    w = worlds.T4World(sx, 0x20, 255, 255, 16, 3, fill=0x41)
    f = w.sim.files[0xE104]
    f[0], f[1] = sx.pick("nlen_hi", [0, 1, 0xFF]), sx.pick("nlen_lo", [0, 1, 13, 14, 15, 0xFF])
    return exercise(sx, w, "tt4:nlen", max_cmds=600)


def t4_short_read(sx):
    """the card answers READ BINARY with fewer bytes than asked (incl. none)"""
    w = worlds.T4World(sx, 0x20, 255, 255, 16, 9, fill=0x41)
    card = w.sim
    orig = card._apdu
    state = dict(k=0)

    def apdu(a):
        r = orig(a)
        if len(a) > 1 and a[1] == 0xB0 and len(r) > 2:
            state['k'] += 1
            keep = sx.pick("keep%d" % state['k'], [len(r) - 2, 0, 1]) if state['k'] <= 6 else len(r) - 2
            return r[:keep] + r[-2:]
        return r
    card._apdu = apdu
    return exercise(sx, w, "tt4:short-read-binary", max_cmds=400)


def t4_blocks(sx, nsym, tail):
    """the card answers the first nsym blocks after activation with arbitrary
    short frames (PCB and up to two more bytes symbolic), then behaves as
    `tail`: 'wtx' = asks for a waiting time extension for ever, 'ack' = answers
    R(ACK) with the wrong block number for ever, 'gone' = silent"""
    w = worlds.T4World(sx, 0x20, 255, 255, 16, 3, fill=0x41)
    card = w.sim
    orig = card.execute
    state = dict(k=0)

    def execute(cmd):
        if not card.activated:
            return orig(cmd)
        state['k'] += 1
        k = state['k']
        if k <= nsym:
            # PCB fully symbolic; a second and third byte from small sets (a
            # status word becomes a dict key in the error class)
            n = sx.pick("blen%d" % k, [1, 2, 3])
            body = [sx.byte("pcb%d" % k)]
            if n >= 2:
                body.append(sx.pick("b%d_1" % k, [0x00, 0x01, 0x90, 0x6A]))
            if n >= 3:
                body.append(sx.pick("b%d_2" % k, [0x00, 0x82]))
            return sx.mkbytes(body, True)
        if tail == 'wtx':
            return sx.mkbytes([0xF2, 0x01], True)
        if tail == 'ack':
            return sx.mkbytes([0xA2 | ((cmd[0] & 1) ^ 1)], True)
        raise nfc.clf.TimeoutError("gone")
    card.execute = execute
    return exercise(sx, w, "tt4:arbitrary-blocks:" + tail, max_cmds=300)


def t4_long_read(sx):
    """READ BINARY answers longer than requested"""
    w = worlds.T4World(sx, 0x20, 255, 255, 16, 9, fill=0x41)
    card = w.sim
    orig = card._apdu
    state = dict(k=0)

    def apdu(a):
        r = orig(a)
        if len(a) > 1 and a[1] == 0xB0 and len(r) >= 2:
            state['k'] += 1
            extra = sx.pick("extra%d" % state['k'], [0, 1, 40]) if state['k'] <= 5 else 0
            return r[:-2] + [0x5A] * extra + r[-2:]
        return r
    card._apdu = apdu
    return exercise(sx, w, "tt4:long-read-binary", max_cmds=400)


def t4_mle_big(sx):
    """a standard-conformant CC that announces MLe above 256 (up to FFFFh is
    legal) with an NDEF file longer than one short READ BINARY"""
    mle = sx.pick("mle", [0x00FF, 0x0100, 0x0101, 0x0FFF, 0xFFFF])
    w = worlds.T4World(sx, 0x20, mle, 255, 600, 400, fill=0x41)
    return exercise(sx, w, "tt4:mle-above-256", max_cmds=400)


def t4_len_edge(sx, ver):
    """the stored length on both sides of what the file can hold (file size
    minus the 2-byte NLEN / 4-byte ENLEN field), on a card whose memory goes
    on behind the declared file size"""
    mfs = 64
    w = worlds.T4World(sx, ver, 255, 255, mfs, 3, fill=0x41, guard=8)
    f = w.sim.files[0xE104]
    nl = w.nl
    n = mfs - nl + sx.pick("delta", [-1, 0, 1, 2, 3, 8])
    f[nl - 2], f[nl - 1] = n >> 8, n & 0xFF
    return exercise(sx, w, "tt4:length-at-file-end:%02x" % ver, avail=mfs - nl, max_cmds=200)


def t4_v3_big(sx):
    """mapping version 3, NLEN above 65535, a card that serves any offset"""
    w = worlds.T4World(sx, 0x30, 255, 255, 16, 3, fill=0x41)
    card = w.sim
    cc = card.files[0xE103]
    # file control TLV 06 08 E104 <size 4 bytes> 00 00: size 00 02 00 00
    cc[7:17] = [0x06, 0x08, 0xE1, 0x04, 0x00, 0x02, 0x00, 0x00, 0x00, 0x00]
    f = card.files[0xE104]
    f[0:4] = [0x00, 0x01, 0x00, sx.byte("nlen_lo")]
    orig = card._apdu

    def apdu(a):
        if len(a) == 5 and a[1] == 0xB0 and card.cur == 0xE104:
            off = (a[2] << 8) | a[3]
            le = a[4] or 256
            if off >= 4:
                return [0x41] * le + [0x90, 0x00]
        return orig(a)
    card._apdu = apdu
    return exercise(sx, w, "tt4:v3-large-nlen", max_cmds=700)


def t4_v3_32k(sx):
    """mapping version 3 with an NDEF file of 36 KiB whose contents differ
    from address to address; message lengths that end just below, at and
    above offset 8000h (READ BINARY carries a 15-bit offset; with bit 8 of P1
    set the card reads P1 as a short file identifier, ISO/IEC 7816-4)"""
    mfs = 0x9000
    w = worlds.T4World(sx, 0x30, 255, 255, mfs, 3, fill=0x41)
    f = w.sim.files[0xE104]
    nlen = sx.pick("nlen", [0x7FFB, 0x7FFC, 0x7FFD, 0x8123])
    f[0:4] = [0, 0, nlen >> 8, nlen & 0xFF]
    for i in range(4, mfs):
        f[i] = (i * 3 + (i >> 8) * 7 + (i >> 15) * 101) & 0xFF
    kind = "tt4:v3-file-above-32k"
    w.sim.max_cmds = 2000
    try:
        tag = w.fresh_tag()
        ndef = tag.ndef if tag is not None else None
    except tags.TooManyCommands:
        sx.check(False, "unbounded-number-of-commands:" + kind)
    if ndef is None:
        sx.reach("v3_32k_none")
        return "no-ndef"
    sx.reach("v3_32k_object")
    octets = ndef.octets
    sx.check(len(octets) == ndef.length, "length-differs-from-octets:" + kind)
    sx.check(ndef.length <= ndef.capacity, "length-exceeds-capacity:" + kind)
    sx.check(len(octets) <= mfs - 4, "octets-outside-data-area:" + kind)
    if bytes(bytearray(octets)) != bytes(bytearray(f[4:4 + len(octets)])):
        sx.check(False, "octets-are-not-what-the-data-area-holds:" + kind)
    return "ndef:%d" % len(octets)


def t4_gone(sx, n):
    w = worlds.T4World(sx, 0x20, 20, 9, 40, n, fill=0x41)
    return exercise(sx, w, "tt4:goes-silent", silence=True)


def partitions(tier):
    P = []
    add = lambda name, fn, **kw: P.append(dict(name=name, fn=fn, params=kw))
    for prefix, rsv in (("", []), ("L", [(64, 2)]), ("M", [(30, 4)])):
        for extra in (0, 16, 64):
            for fmt in (1, 3):
                add("t2:len:%s:%d:%d" % (prefix or "-", extra, fmt), "t2_len", S=48, prefix=prefix,
                    rsv=rsv, extra=extra, fmt=fmt)
    for phys in (64, 80):
        for sb in (0, 1, 6, (phys - 16) // 8, (phys - 16) // 8 + 1, 0xFF):
            add("t2:cc:%d:%d" % (phys, sb), "t2_cc", size_byte=sb, phys=phys)
    for which in (1, 2):
        for tlvlen in (3, 0, 2, 5, 255):
            add("t2:ctl:%d:%d" % (which, tlvlen), "t2_ctl", S=48, which=which, tlvlen=tlvlen)
    add("t2:unknown", "t2_unknown", S=48)
    add("t2:ctl256:L", "t2_ctl256", which="L", rsv=(384, 32), oldlen=400)
    add("t2:ctl256:M", "t2_ctl256", which="M", rsv=(384, 256), oldlen=400)
    add("t2:tiny:1:3", "t2_tiny", size_byte=1, ndata=3)
    if tier != "quick":
        add("t2:tiny:2:3", "t2_tiny", size_byte=2, ndata=3)
        add("t2:tiny:6:3", "t2_tiny", size_byte=6, ndata=3)
    add("t2:gone", "t2_gone", S=48, n=20)
    for pages in (16, 20, 45):
        add("t2:version:%d" % pages, "t2_version", phys_pages=pages)
    T1 = [((0x11, 0x48), 120, "", []), ((0x12, 0x4C), 512, "LM", [(122, 6), (120, 2)]),
          ((0x12, 0x00), 512, "", [])]
    for hr, size, prefix, rsv in T1:
        for fmt in (1, 3):
            add("t1:len:%02x%02x:%s:%d" % (hr[0], hr[1], prefix or "-", fmt), "t1_len", hr=hr, size=size,
                prefix=prefix, rsv=rsv, fmt=fmt)
        for sb in (0, 0x0E, 0x0F, 0x3F, 0x40, 0xFF):
            add("t1:cc:%02x%02x:%d" % (hr[0], hr[1], sb), "t1_cc", hr=hr, size=size, size_byte=sb)
        for which in (1, 2):
            add("t1:ctl:%02x%02x:%d" % (hr[0], hr[1], which), "t1_ctl", hr=hr, size=size, which=which)
        add("t1:gone:%02x%02x" % (hr[0], hr[1]), "t1_gone", hr=hr, size=size, n=30)
    add("t1:hr:120", "t1_hr", size=120)
    add("t1:hr:512", "t1_hr", size=512)
    for size, oldlen in ((256, 100), (512, 100)):
        add("t1:hr-long:%d" % size, "t1_hr_long", size=size, oldlen=oldlen)
    for cs in (True, False):
        for nb in ((6, 20) if tier != "quick" else (6,)):
            for ws in (True, False):
                add("t3:attr:%s:%d:%s" % (cs, nb, ws), "t3_attr", checksum_ok=cs, nblocks=nb, with_sys=ws)
    add("t3:gone", "t3_gone", n=40)
    add("t3:pmm", "t3_pmm")
    add("t3:nbr-big", "t3_nbr_big")
    add("t3:poll:nosys", "t3_poll", with_sys=False)
    add("t3:poll:sys", "t3_poll", with_sys=True)
    for n in (0, 1, 9, 10, 11, 12, 13):
        add("t3:rsp:%d" % n, "t3_rsp", n=n)
    for n in range(1, 8 if tier == "quick" else 10):
        add("t4:ats:%d" % n, "t4_ats", n=n)
    add("t4:sensb", "t4_sensb")
    for f in ("cclen", "ver", "mle", "mlc", "tlv", "fid", "size", "access"):
        add("t4:cc:" + f, "t4_cc", field=f)
    add("t4:nlen", "t4_nlen")
    add("t4:mle-big", "t4_mle_big")
    for ver in (0x20, 0x30):
        add("t4:len-edge:%02x" % ver, "t4_len_edge", ver=ver)
    for tail in ("wtx", "ack", "gone"):
        add("t4:blocks:%s" % tail, "t4_blocks", nsym=1 if tier == "quick" else 2, tail=tail)
    add("t4:long-read", "t4_long_read")
    add("t4:v3-big", "t4_v3_big")
    add("t4:v3-32k", "t4_v3_32k")
    add("t4:short-read", "t4_short_read")
    add("t4:gone", "t4_gone", n=30)
    return P


MUST_REACH = ["t2_ctl_size_00h", "t1_long_object", "v3_32k_object", "v3_32k_none", "activate_none", "ndef_none", "ndef_object"]
BOUNDS = {"quick": "mutations of valid layouts with symbolic mutated fields (see module docstring): TLV length fields, CC bytes, control TLVs, Type 3 attribute block (symbolic fields, boundary sets for Nbr/Ln, Nbr up to 255 with Ln up to 4080), PMm, polling answers of every length with/without system code in SENSF_RES, arbitrary first read answers, Type 4 CC file fields, NLEN/ENLEN around the end of the file for both mapping versions (guard bytes behind the file), MLe up to FFFFh with a 400-byte file, short and over-long READ BINARY answers, mapping version 3 with NLEN above 65535, mapping version 3 with a 36 KiB file of position-dependent contents and messages ending around offset 8000h (octets compared with the file; the card reads P1 bit 8 as short file identifier per ISO/IEC 7816-4), ATS of 1..7 symbolic bytes, SENSB_RES protocol info; a fully symbolic Type 2 image of 3 data bytes; GET_VERSION variants; silence from every command index; added later: a 100-octet message across the reserved blocks of a 256/512-byte Type 1 tag with HR0 from {11h,12h,1Fh,10h,21h}, octets compared with the data area; a 400-byte message stored across the range of a Type 2 lock/memory control TLV with size byte 00h",
          "thorough": "fully symbolic T2 images of 3 data bytes under three CC sizes; ATS up to 9 bytes; two arbitrary ISO-DEP blocks"}
OUTSIDE = ["fully symbolic images larger than stated", "more than one mutated structure per image", "NXP GET_VERSION/signature answer variants (concrete in C20's model)"]
ASSUMPTIONS = ["tags answer well-framed: the simulators of env/tags.py with mutated contents"]
LIMITS = {"quick": dict(max_steps=400000)}
