"""C02 - an interrupted NDEF write never leaves a corrupt message on the tag."""
import nfc.tag
from harness import worlds, ndefflow
from harness.c01_ndef import lens_for

PROPERTY = "C02"


def t2(sx, S, prefix, rsv, oldlens, lens, long, retry=False, outage=0, relation=None, concrete=False):
    oldlen = sx.pick("oldlen", oldlens)
    w = worlds.T2World(sx, S, prefix, [tuple(r) for r in rsv], oldlen,
                       old_lt_80=long, symbolic_window=(0, 0) if concrete else None)
    w.long_trick = long
    if concrete:
        w.concrete_msg = True
    if S > 1008 and oldlen > 1008:
        sx.reach("stored_message_reaches_into_second_sector")
    n = sx.pick("n", [x for x in lens_for(w.cap, lens) if x <= w.cap])
    return ndefflow.cutflow(sx, w, n, retry, outage, relation)


def t1(sx, hr, size, prefix, rsv, oldlens, lens, long, retry=False, outage=0, relation=None):
    oldlen = sx.pick("oldlen", oldlens)
    w = worlds.T1World(sx, tuple(hr), size, prefix, [tuple(r) for r in rsv], oldlen,
                       old_lt_80=long)
    w.long_trick = long
    n = sx.pick("n", [x for x in lens_for(w.cap, lens) if x <= w.cap])
    return ndefflow.cutflow(sx, w, n, retry, outage, relation)


def t3(sx, nbr, nbw, nmaxb, oldlens, lens, emulated, retry=False, outage=0):
    oldlen = sx.pick("oldlen", [o for o in oldlens if o <= nmaxb * 16])
    w = worlds.T3World(sx, nbr, nbw, nmaxb, oldlen, emulated=emulated)
    n = sx.pick("n", [x for x in lens_for(w.cap, lens) if x <= w.cap])
    return ndefflow.cutflow(sx, w, n, retry, outage)


class FixedOS(object):
    """module attribute `os` of nfc.tag.tt3_sony in the FeliCa Lite worlds
    (the challenge is not what this property quantifies over)"""

    @staticmethod
    def urandom(n):
        return bytes(bytearray((0x3C + 11 * i) & 0xFF for i in range(n)))


class LiteCutWorld(worlds.World):
    """FeliCa Lite (IC code F0h) / Lite-S (F1h) from env.tt3lite_sim behind the
    power-cut hook, NDEF formatted (Nbr 4, Nbw 1, Nmaxb 13) with an old
    message of `oldlen` octets; real pyDes on both sides, so key, challenge,
    old and new message are concrete (the quantifier here is the cut point).
    The first fresh_tag() is the writer, every later one a fresh reader;
    either authenticates with the card's password before tag.ndef is
    touched when its switch is on."""
    PASSWORD = b"0123456789abcdef"
    concrete_msg = True

    def __init__(self, sx, lite_s, oldlen, writer_authenticates, reader_authenticates, rwflag=0x01):
        from env import tt3lite_sim
        import nfc.tag.tt3_sony
        nfc.tag.tt3_sony.os = FixedOS
        self.sx, self.lite_s = sx, lite_s
        self.kind = "tt3lites" if lite_s else "tt3lite"
        self.writer_authenticates = writer_authenticates
        self.reader_authenticates = reader_authenticates
        self.nfresh = 0
        self.reader_authenticated = False
        nmaxb = 13
        # rwflag 00h: the attribute block says read-only (what protect() with
        # a password leaves behind); an authenticated Lite-S session may write
        # all the same (memory configuration block)
        attr = [0x10, 4, 1, 0, nmaxb, 0, 0, 0, 0, 0x00, rwflag,
                0, (oldlen >> 8) & 255, oldlen & 255]
        cs = sum(attr)
        blocks = {0: attr + [cs >> 8, cs & 255]}
        for b in range(1, nmaxb + 1):
            blocks[b] = [(0x21 + (16 * b + i) * 7 + b) & 0x7F for i in range(16)]
        data = []
        for b in range(1, nmaxb + 1):
            data += blocks[b]
        self.first_data = dict((b, list(blocks[b])) for b in range(1, nmaxb + 1))
        self.oldlen = oldlen
        self.old = sx.mkbytes(data[0:oldlen], False)
        self.cap = nmaxb * 16
        key = self.PASSWORD
        ck = [key[7 - i] for i in range(8)] + [key[15 - i] for i in range(8)]
        self.sim = tt3lite_sim.LiteHookSim(tt3lite_sim.RealCipher(), lite_s, ck,
                                           blocks, wcnt=0x0000FE)
        self.clf = tt3lite_sim.LiteClf(self.sim)

    def target(self):
        from env import tt3lite_sim
        return tt3lite_sim.target(self.lite_s)

    def geometry(self, n):
        return []

    def fresh_tag(self):
        self.nfresh += 1
        self.sim.mute = False
        tag = nfc.tag.activate(self.clf, self.target())
        if tag is None:
            return None
        writer = self.nfresh == 1
        if (self.writer_authenticates if writer else self.reader_authenticates):
            if tag.authenticate(self.PASSWORD) is not True:
                self.sx.check(False, "fault-free-authenticate-fails:" + self.kind)
            if not writer:
                self.reader_authenticated = True
        return tag

    def cut_in_data_phase(self):
        """the attribute block still says 'write in progress' and at least
        one data block differs from what the tag held before"""
        return self.sim.blk[0][9] == 0x0F and any(
            self.sim.blk[b] != self.first_data[b] for b in self.first_data)


def t3lite(sx, lite_s, oldlens, lens, writer_auth, reader_auth, retry=False, rwflag=0x01):
    oldlen = sx.pick("oldlen", oldlens)
    w = LiteCutWorld(sx, bool(lite_s), oldlen, bool(writer_auth), bool(reader_auth), rwflag)
    if rwflag == 0:
        sx.reach("lite_attribute_block_says_read_only")
    n = sx.pick("n", [x for x in lens_for(w.cap, lens) if x <= w.cap])
    out = ndefflow.cutflow(sx, w, n, retry)
    if w.nfresh > 1:
        if w.reader_authenticated:
            sx.reach("lite_reader_authenticated_after_cut")
            if w.cut_in_data_phase():
                sx.reach("lite_authenticated_reader_after_cut_in_data_phase")
        elif w.cut_in_data_phase():
            sx.reach("lite_plain_reader_after_cut_in_data_phase")
    return out


def t4(sx, ver, mle, mlc, mfs, oldlens, lens, typ, fsci, retry=False):
    oldlen = sx.pick("oldlen", oldlens)
    mle = sx.int("mle", mle[0], mle[1])
    mlc = sx.int("mlc", mlc[0], mlc[1])
    w = worlds.T4World(sx, ver, mle, mlc, mfs, oldlen, typ=typ, fsci=fsci)
    n = sx.pick("n", [x for x in lens_for(w.cap, lens) if x <= w.cap])
    return ndefflow.cutflow(sx, w, n, retry)


def partitions(tier):
    parts = []
    for ver, typ, fsci in [(0x20, "A", 8), (0x30, "B", 5)]:
        parts.append(dict(name="t4:%02x:%s:%d:small" % (ver, typ, fsci), fn="t4",
                          params=dict(ver=ver, mle=[15, 0xFFFF], mlc=[1, 0xFFFF], mfs=16,
                                      oldlens=[0, 3], lens=[0, 1, 7, "cap"], typ=typ, fsci=fsci)))
    parts.append(dict(name="t4:20:A:8:big", fn="t4",
                      params=dict(ver=0x20, mle=[255, 255], mlc=[100, 0xFFFF], mfs=300,
                                  oldlens=[257], lens=[256, "cap"], typ="A", fsci=8)))
    for emulated in (False, True):
        for nbr, nbw, nmaxb in [(1, 1, 3), (4, 3, 5), (15, 13, 14), (3, 2, 4)]:
            parts.append(dict(name="t3%s:%d:%d:%d" % ("emu" if emulated else "", nbr, nbw, nmaxb),
                              fn="t3", params=dict(nbr=nbr, nbw=nbw, nmaxb=nmaxb, oldlens=[0, 5, 17],
                                                   lens=[0, 1, 16, 17, 33, "cap"], emulated=emulated)))
    # a tag of two sectors whose stored message reaches into the second one
    # (reading it leaves sector 1 selected): overwritten through the same
    # object, cut at every command (contents concrete: the subject is which
    # sector the commands go to)
    parts.append(dict(name="t2:2032:sector:cut", fn="t2",
                      params=dict(S=2032, prefix="", rsv=[], oldlens=[1100], lens=[5, 1060],
                                  long=True, concrete=True)))
    for nulls in range(4):
        prefix = "N" * nulls
        parts.append(dict(name="t1:static:%s:free" % (prefix or "-"), fn="t1",
                          params=dict(hr=[0x11, 0x48], size=120, prefix=prefix, rsv=[],
                                      oldlens=[0, 2], lens=[0, 1, 3], long=False)))
        parts.append(dict(name="t1:static:%s:sep" % (prefix or "-"), fn="t1",
                          params=dict(hr=[0x11, 0x48], size=120, prefix=prefix, rsv=[],
                                      oldlens=[0, 4], lens=[5, "cap"], long=True)))
        parts.append(dict(name="t1:dyn:%s:free" % (prefix or "-"), fn="t1",
                          params=dict(hr=[0x12, 0x4C], size=512, prefix=prefix, rsv=[],
                                      oldlens=[0, 2], lens=[0, 1, 3], long=False)))
        for oldlens, lens, tag in (([3], [255, 300], "1to3"), ([255, 260], [3, 254], "3to1"),
                                   ([255, 300], [255, 256, "cap"], "3to3")):
            if tier == "quick" and nulls in (1, 2) and tag == "1to3":
                # the known finding (length field across a block boundary) makes
                # the reader follow a symbolic stale length: thousands of paths;
                # the 3to3 partitions exercise the same defect in the quick tier
                continue
            parts.append(dict(name="t1:dyn:%s:%s" % (prefix or "-", tag), fn="t1",
                              params=dict(hr=[0x12, 0x4C], size=512, prefix=prefix, rsv=[],
                                          oldlens=oldlens, lens=lens, long=True)))
    # the new message begins with the stored one (a record appended) or is a
    # prefix of it: unchanged pages are skipped by the writers, so a cut can
    # leave a new length over data that "is already there"
    for nulls in (0, 1, 2):
        prefix = "N" * nulls
        for rel, oldlens, lens in (("append", [3, 260], [3, 9, 300, 320]),
                                   ("truncate", [9, 300], [3, 260, 300])):
            parts.append(dict(name="t2:496:%s:%s" % (prefix or "-", rel), fn="t2",
                              params=dict(S=496, prefix=prefix, rsv=[], oldlens=oldlens, lens=lens,
                                          long=True, relation=rel)))
            if nulls < 2:
                parts.append(dict(name="t1:dyn:%s:%s" % (prefix or "-", rel), fn="t1",
                                  params=dict(hr=[0x12, 0x4C], size=512, prefix=prefix, rsv=[],
                                              oldlens=oldlens, lens=lens, long=True, relation=rel)))
    parts.append(dict(name="t1:dyn:LM:mixed", fn="t1",
                      params=dict(hr=[0x12, 0x00], size=512, prefix="LM", rsv=[[122, 6], [120, 2]],
                                  oldlens=[0, 9], lens=[4, 100] + ([255] if tier != "quick" else []),
                                  long=True)))
    # NDEF TLV offsets 0..3 modulo the 4-byte page: leading NULL TLVs
    for nulls in range(4):
        prefix = "N" * nulls
        parts.append(dict(name="t2:48:%s:free" % (prefix or "-"), fn="t2",
                          params=dict(S=48, prefix=prefix, rsv=[], oldlens=[0, 2],
                                      lens=[0, 1, 3], long=False)))
        parts.append(dict(name="t2:48:%s:sep" % (prefix or "-"), fn="t2",
                          params=dict(S=48, prefix=prefix, rsv=[], oldlens=[0, 5],
                                      lens=[6, 9, "cap"] if tier == "quick" else list(range(4, 47)),
                                      long=True)))
        for oldlens, lens, tag in (([3], [255, 300], "1to3"), ([255, 260], [3, 254], "3to1"),
                                   ([255, 300], [255, 256, "cap"], "3to3")):
            parts.append(dict(name="t2:496:%s:%s" % (prefix or "-", tag), fn="t2",
                              params=dict(S=496, prefix=prefix, rsv=[], oldlens=oldlens,
                                          lens=lens, long=True)))
    for prefix, rsv in [("L", [(64, 2)]), ("M", [(26, 2)]), ("LM", [(64, 2), (36, 8)])]:
        parts.append(dict(name="t2:48:%s:ctl" % prefix, fn="t2",
                          params=dict(S=48, prefix=prefix, rsv=rsv, oldlens=[0, 4],
                                      lens=[2, 9, "cap"], long=True)))
    # ---- the tag misses all attempts of one command (out of the field for a
    # moment) and answers again: the write fails with TagCommandError, but
    # whatever the writer sends afterwards (clean-up) reaches the tag
    O = dict(outage=3)
    parts.append(dict(name="outage:t3:nbw1", fn="t3",
                      params=dict(nbr=4, nbw=1, nmaxb=5, oldlens=[33], lens=[33, 40], emulated=False, **O)))
    parts.append(dict(name="outage:t3:nbw2", fn="t3",
                      params=dict(nbr=4, nbw=2, nmaxb=5, oldlens=[40], lens=[17, 40], emulated=False, **O)))
    parts.append(dict(name="outage:t2:48", fn="t2",
                      params=dict(S=48, prefix="N", rsv=[], oldlens=[9], lens=[9, 11], long=True, **O)))
    parts.append(dict(name="outage:t1:static", fn="t1",
                      params=dict(hr=[0x11, 0x48], size=120, prefix="", rsv=[], oldlens=[6], lens=[6, 9],
                                  long=True, **O)))
    parts.append(dict(name="outage:t1:dyn", fn="t1",
                      params=dict(hr=[0x12, 0x4C], size=512, prefix="", rsv=[], oldlens=[20], lens=[12, 20],
                                  long=True, **O)))
    # ---- the application repeats the write through the same tag object after
    # the cut; the repeated write is cut at every point or completes
    R = dict(retry=True)
    parts.append(dict(name="retry:t1:static", fn="t1",
                      params=dict(hr=[0x11, 0x48], size=120, prefix="N", rsv=[], oldlens=[4],
                                  lens=[5, 9], long=True, **R)))
    parts.append(dict(name="retry:t1:dyn", fn="t1",
                      params=dict(hr=[0x12, 0x4C], size=512, prefix="", rsv=[], oldlens=[9],
                                  lens=[12, 20] + ([255] if tier != "quick" else []), long=True, **R)))
    parts.append(dict(name="retry:t2:48", fn="t2",
                      params=dict(S=48, prefix="N", rsv=[], oldlens=[5], lens=[6, 11], long=True, **R)))
    parts.append(dict(name="retry:t3", fn="t3",
                      params=dict(nbr=4, nbw=1, nmaxb=5, oldlens=[17], lens=[16, 33], emulated=False, **R)))
    parts.append(dict(name="retry:t3emu", fn="t3",
                      params=dict(nbr=4, nbw=3, nmaxb=5, oldlens=[17], lens=[33], emulated=True, **R)))
    # ---- FeliCa Lite / Lite-S (vendor NDEF classes), writer and fresh
    # reader plain or authenticated; concrete contents, every cut point
    lite = [(1, 0, 1), (1, 1, 1), (0, 1, 1), (1, 0, 0), (0, 0, 0)]
    if tier != "quick":
        lite += [(1, 1, 0), (0, 0, 1), (0, 1, 0)]
    for lite_s, wa, ra in lite:
        parts.append(dict(name="t3lite%s:writer=%s:reader=%s" % (
            "s" if lite_s else "", "auth" if wa else "plain", "auth" if ra else "plain"),
            fn="t3lite", params=dict(lite_s=lite_s, oldlens=[17, 33],
                                     lens=[16, 17, 33, 40] if tier == "quick" else
                                     [0, 1, 16, 17, 32, 33, 40, "cap"],
                                     writer_auth=wa, reader_auth=ra)))
    # a Lite-S tag whose attribute block says read-only (RWFlag 00h): its
    # owner authenticates and rewrites it, the reader after the cut does not
    for ra in (0, 1):
        parts.append(dict(name="t3lites:rwflag0:writer=auth:reader=%s" % ("auth" if ra else "plain"),
                          fn="t3lite", params=dict(lite_s=1, oldlens=[17, 33], lens=[16, 33, 40],
                                                   writer_auth=1, reader_auth=ra, rwflag=0)))
    parts.append(dict(name="retry:t3lites:writer=auth:reader=auth", fn="t3lite",
                      params=dict(lite_s=1, oldlens=[17], lens=[33], writer_auth=1,
                                  reader_auth=1, **R)))
    if tier != "quick":
        parts.append(dict(name="retry:t2:496", fn="t2",
                          params=dict(S=496, prefix="NN", rsv=[], oldlens=[255], lens=[40, 256],
                                      long=True, **R)))
    return parts


MUST_REACH = ["stored_message_reaches_into_second_sector", "lite_attribute_block_says_read_only", "new_message_appends_to_old", "new_message_is_prefix_of_old", "cut", "cut_before_first_write", "write_completed_without_cut",
              "after_cut_empty", "after_cut_old_or_new", "length_field_straddles_write_unit",
              "after_cut_not_readable", "retry_completed", "retry_cut",
              "lite_authenticated_reader_after_cut_in_data_phase",
              "lite_plain_reader_after_cut_in_data_phase"]
BOUNDS = {"quick": "T2: 48- and 496-byte data areas, NDEF TLV at offsets 0..3 mod 4, old/new lengths on both sides of 254/255, cut before every WRITE; one repetition of the same write through the same tag object after the cut (Type 1 static/dynamic, Type 2, Type 3 and its emulation), itself cut at every point or completed; a momentary outage (the three attempts of one command unanswered, then the tag answers again) at every point; added later: new messages that begin with the stored one or are a prefix of it (Type 1 dynamic, Type 2); a FeliCa Lite-S tag with RWFlag 00h rewritten by its authenticated owner; a two-sector Type 2 tag (2032 bytes, stored message of 1100 bytes reaching into sector 1, concrete contents) overwritten with 5 / 1060 bytes through the object that read it",
          "thorough": "as quick with every new length for the 48-byte area"}
OUTSIDE = ["torn writes inside one command", "tags that change memory on a failed command",
           "a repeated write after the cut on a Type 4 Tag (the ISO-DEP state after a failed exchange is the known finding of C12)",
           "more than one repetition; a different message in the repetition"]
ASSUMPTIONS = ["power cut = the tag stops answering before a state-changing command; memory keeps the effect of all earlier commands"]

LIMITS = {"thorough": dict(max_time=3000)}
