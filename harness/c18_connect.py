"""C18 - connect() and sense() honour their documented contract.

Real code executed: nfc.clf.ContactlessFrontend (open, close, connect,
_rdwr_connect, _llcp_connect, _card_connect, sense, listen, exchange, size
properties), nfc.tag.activate / nfc.tag.tt2 (generic Type 2 Tag incl. the real
presence check), nfc.tag.emulate / Type3TagEmulation, nfc.llcp.llc
(LogicalLinkController.activate, run_as_target, run_as_initiator, terminate),
nfc.dep (Initiator/Target activate, exchange, deactivate) - all on top of the
recording driver env.recdevice.RecDevice.

The oracle is written from the docstrings of connect(), sense(), listen() and
exchange() (the documented contract), as checks over the recorded history of
callbacks, terminate() polls and driver calls; it does not re-implement
connect().  Where the code disagrees with the docstring the check fails with a
label naming the phase, and the decision is made in known_findings.d/C18.json.

The scenario functions take a `mode` argument: 'contract' (this property) or
'lock' (harness/c15_lock.py re-uses the very same scenarios with the contract
checks switched off and its own obligation at every driver call).
"""
import errno

import nfc
import nfc.clf
import nfc.tag
import nfc.llcp
import nfc.llcp.llc
from symx.envpatch import CLOCK
from env.recdevice import T1TagEnv
from env import recdevice
from env.recdevice import (RecDevice, Trace, Env, UnsupportedEnv, T2TagEnv,
                           T4ATagEnv,
                           ReaderEnv, PeerEnv, SlotEnv, HarnessLimit,
                           make_frontend, open_frontend, new_frontend)

PROPERTY = "C18"


class Opaque(object):
    """stands for 'some other object' as a callback result"""


OBJ = Opaque()
RESULT = {"True": True, "False": False, "None": None, "0": 0, "1": 1,
          "empty": "", "x": "x", "obj": OBJ}
ALL8 = ["True", "False", "None", "0", "1", "empty", "x", "obj"]
TF = ["True", "False"]


def truthy(name):
    return bool(RESULT[name])


class Chk(object):
    """contract obligations; switched off when the scenarios run for C15"""

    def __init__(self, sx, active):
        self.sx, self.active = sx, active

    def check(self, cond, label):
        if self.active:
            self.sx.check(cond, label)

    def fail(self, label):
        if self.active:
            self.sx.check(False, label)


def call(fn, *a, **kw):
    """-> ('ok', value) | ('exc', exception) | ('limit', e); engine control
    flow (SxAbort, CheckFailed) passes through"""
    try:
        return "ok", fn(*a, **kw)
    except HarnessLimit as e:
        return "limit", e
    except (KeyboardInterrupt, SystemExit) as e:
        return "exc", e
    except Exception as e:
        return "exc", e


def describe(status, value):
    if status == "limit":
        return "no-return"
    if status == "exc":
        return "raised:" + type(value).__name__
    if value is None or value is True or value is False:
        return str(value)
    if isinstance(value, nfc.tag.Tag):
        return "tag"
    if isinstance(value, nfc.tag.TagEmulation):
        return "emulation"
    if isinstance(value, nfc.llcp.llc.LogicalLinkController):
        return "llc"
    if isinstance(value, (nfc.clf.RemoteTarget, nfc.clf.LocalTarget)):
        return type(value).__name__
    for k in ALL8:
        if value is RESULT[k]:
            return "value:" + k
    return "other:" + type(value).__name__


def is_enodev(e):
    return isinstance(e, IOError) and e.errno == errno.ENODEV


# ----------------------------------------------------------------------------
# connect(): options, callbacks, terminate
# ----------------------------------------------------------------------------
RDWR_ACTIVE = ("default", "all", "first", "last")
LLCP_ACTIVE = ("default", "llc")
CARD_ACTIVE = ("target", "target-a")

IDM = [0x02, 0xFE, 1, 2, 3, 4, 5, 6]
PMM = [0xFF] * 8
SYS = [0x12, 0xFC]


def make_terminate(sx, tr, K):
    st = dict(n=0, true=False)

    def terminate():
        i = st['n']
        st['n'] += 1
        if not st['true']:
            if i >= K:
                st['true'] = True
            else:
                st['true'] = sx.pick("poll#%d" % i, [False, True])
        tr.add("poll", i, st['true'])
        if st['n'] > K + 40:
            raise HarnessLimit("terminate() polled %d times" % st['n'])
        return st['true']
    return terminate


def make_cb(sx, tr, mode, name, first, later, action=None):
    """a callback whose result is picked when (and only if) the code under
    test calls it: full value set on the first call, `later` afterwards"""
    count = [0]

    def cb(arg):
        i = count[0]
        count[0] += 1
        rn = sx.pick("cb.%s.%s#%d" % (mode, name, i), first if i == 0 else later)
        if action is not None:
            action(arg)
        tr.add("cb", mode, name, arg, rn)
        return RESULT[rn]
    return cb


def startup_cb(sx, tr, mode, kind):
    def rdwr(targets):
        tr.add("cb", "rdwr", "on-startup", list(targets), kind)
        if kind == "all":
            return targets
        if kind == "first":
            return targets[:1]
        if kind == "last":
            return targets[-1:]
        if kind == "empty":
            return []
        if kind == "with-local-target":
            # not "a list of those RemoteTarget objects": the option is removed
            return list(targets[:1]) + [nfc.clf.LocalTarget("106A")]
        if kind == "with-string":
            return list(targets[:1]) + ["212F"]
        return RESULT[kind]

    def llcp(llc):
        tr.add("cb", "llcp", "on-startup", llc, kind)
        if kind == "llc":
            return llc
        return RESULT[kind]

    def card(target):
        tr.add("cb", "card", "on-startup", target, kind)
        if kind == "target":
            # as in the docstring example: populate the unspecific target
            target.brty = "212F"
            target.sensf_res = sx.mkbytes([0x01] + IDM + PMM + SYS)
            return target
        if kind == "target-a":
            target.brty = "106A"
            target.sens_res = sx.mkbytes([0x01, 0x01])
            target.sdd_res = sx.mkbytes([0x08, 0x01, 0x02, 0x03])
            target.sel_res = sx.mkbytes([0x00])
            return target
        return RESULT[kind]
    return dict(rdwr=rdwr, llcp=llcp, card=card)[mode]


def make_env(sx, tr, name):
    if name == "none":
        return Env(sx, tr)
    if name == "t2":
        return T2TagEnv(sx, tr, max_reads=2)
    if name == "t2-3":
        return T2TagEnv(sx, tr, max_reads=3)
    if name == "t1-stay":
        return T1TagEnv(sx, tr, max_reads=99)
    if name == "reader-3":
        return ReaderEnv(sx, tr, max_idle=0, max_cmds=3)
    if name == "peer-init-3":
        return PeerEnv(sx, tr, "initiator", max_symm=3)
    if name == "peer-target-3":
        return PeerEnv(sx, tr, "target", max_symm=3)
    if name == "t4a":
        return T4ATagEnv(sx, tr, max_reads=1)
    if name == "peer-target-busy":
        # answers SYMM to everything for longer than any scenario lasts
        return PeerEnv(sx, tr, "target", max_symm=80, always_symm=True)
    if name == "t2-short":
        return T2TagEnv(sx, tr, max_reads=1, gone_kinds=("timeout",))
    if name == "t2-stay":
        # the tag outlives the terminate bound: release is caused by terminate
        return T2TagEnv(sx, tr, max_reads=50, gone_kinds=("timeout",))
    if name == "t2-late":
        return T2TagEnv(sx, tr, max_reads=1, appear=1, gone_kinds=("timeout",))
    if name == "unsup-a":
        return UnsupportedEnv(sx, tr, ("tta",))
    if name == "unsup-all":
        return UnsupportedEnv(sx, tr, ("tta", "ttb", "ttf", "dep"))
    if name == "reader":
        return ReaderEnv(sx, tr, max_idle=0, max_cmds=2)
    if name == "reader-late":
        return ReaderEnv(sx, tr, max_idle=1, max_cmds=1)
    if name == "reader-nocmd":
        return ReaderEnv(sx, tr, first_cmd=False)
    if name == "reader-silent":
        return ReaderEnv(sx, tr, silent=True)
    if name == "reader-a":
        return ReaderEnv(sx, tr, kinds=("tta",))
    if name == "peer-init":
        return PeerEnv(sx, tr, "initiator", max_symm=2)
    if name == "peer-init-late":
        return PeerEnv(sx, tr, "initiator", max_idle=1, max_symm=1)
    if name == "peer-init-lto":
        return PeerEnv(sx, tr, "initiator", max_symm=1, sym_lto=True)
    if name == "peer-target":
        return PeerEnv(sx, tr, "target", max_symm=2)
    if name == "peer-target-lto":
        return PeerEnv(sx, tr, "target", max_symm=1, sym_lto=True)
    if name == "peer-init-nomagic":
        return PeerEnv(sx, tr, "initiator", magic=False)
    if name == "peer-target-nomagic":
        return PeerEnv(sx, tr, "target", magic=False)
    raise ValueError(name)


def connect_scn(sx, mode="contract", modes=("rdwr",), env="none", startup=None,
                vals=None, K=2, fault=None, targets=None, iterations=None,
                beep=("default",), role=None, io=False, use_terminate=True,
                via_open=False, hook=None, traffic=0, grab=0, interval=None,
                cost=None):
    """one clf.connect() conversation.

    interval   None or list of rdwr 'interval' values to pick from
    cost       None or list: virtual seconds every driver sense_* call takes
    traffic    llcp: on-connect queues that many UI datagrams (MSG_DONTWAIT)
               on a logical data link socket: sustained outbound traffic
    grab       C15: after any of the first `grab` callbacks / terminate polls
               (picked) "another thread" takes clf.lock and keeps it

    modes      which of rdwr/llcp/card options are passed
    startup    {mode: [on-startup result kinds to pick from]}
    vals       {callback: [result names]} first-call value set per callback
               ('default' in the list = callback not supplied)
    K          terminate() is forced true at poll number K (picked earlier)
    fault      None or dict(kind, budget, persistent, first): host link fault
    iterations None or (lo, hi): symbolic rdwr 'iterations' option
    """
    chk = Chk(sx, mode == "contract")
    tr = Trace()
    envo = make_env(sx, tr, env)
    dev = RecDevice(sx, envo, tr)
    dev.hook = hook
    clf = make_frontend(dev, via_open=via_open)
    dev.entry = "connect"
    if cost is not None:
        envo.sense_cost = sx.pick("sense.cost", list(cost))
        if envo.sense_cost:
            sx.reach("connect:sense-pass-longer-than-interval")
    if fault is not None:
        dev.fault = dict(fault)
        dev.fault.setdefault('first', dev.ncalls + 1)
    startup = startup or {}
    vals = vals or {}
    spec = dict(modes=list(modes), env=env, given={}, startup={}, beep=None,
                targets=None, iterations=None, K=K, fault=fault, role=role)
    options = {}

    def io_action(tag):
        # the application talks to the tag inside the callback
        tag.is_present

    def traffic_action(llc):
        # the application keeps the send queue of the link non-empty
        sock = nfc.llcp.Socket(llc, nfc.llcp.LOGICAL_DATA_LINK)
        sock.bind(None)
        for i in range(traffic):
            sock.sendto(b"DATA", 16, nfc.llcp.MSG_DONTWAIT)

    grabs = [0]

    def grabbing(f):
        if not grab:
            return f

        def g(*a):
            r = f(*a)
            if not clf.guard_lock.locked() and not clf.lock.locked() \
                    and grabs[0] < grab:
                grabs[0] += 1
                if sx.pick("grab#%d" % grabs[0], [0, 1]):
                    tr.add("grab")
                    clf.guard_lock.hold_as_other()
            return r
        return g

    def unlocked(m, name, f):
        # a callback may use the frontend (sense again, close the reader,
        # talk to the tag): it must not be run with the frontend's
        # non-reentrant lock held by connect() itself
        def g(*a):
            if recdevice.lock_held_by_caller(clf.lock):
                sx.check(False, "callback-run-with-frontend-lock-held:%s:%s" % (m, name))
            sx.reach("callback_lock_state_looked_at")
            return f(*a)
        return g

    for m in modes:
        o = {}
        kind = sx.pick("startup." + m, startup.get(m, ["default"]))
        spec['startup'][m] = kind
        if kind != "default":
            o['on-startup'] = startup_cb(sx, tr, m, kind)
        names = ("on-discover", "on-connect", "on-release") if m != "llcp" \
            else ("on-connect", "on-release")
        for name in names:
            vs = list(vals.get(name, ["default"]))
            given = True
            if "default" in vs:
                vs.remove("default")
                given = bool(vs) and sx.pick("given.%s.%s" % (m, name),
                                             [True, False])
            spec['given'][(m, name)] = given
            if given:
                later = [v for v in TF if v in vs] or vs[:1]
                action = io_action if (io and m == "rdwr"
                                       and name == "on-connect") else None
                if traffic and m == "llcp" and name == "on-connect":
                    action = traffic_action
                o[name] = unlocked(m, name, grabbing(make_cb(sx, tr, m, name, vs, later, action)))
        if m == "rdwr":
            if targets is not None:
                o['targets'] = list(targets)
            spec['targets'] = list(targets) if targets is not None \
                else ['106A', '106B', '212F']
            b = sx.pick("beep", list(beep))
            spec['beep'] = True if b == "default" else b
            if b != "default":
                o['beep-on-connect'] = b
            if iterations is not None:
                it = sx.int("iterations", iterations[0], iterations[1])
                o['iterations'] = it
                spec['iterations'] = it
            o['interval'] = 0.0 if iterations is not None else 0.1
            if interval is not None:
                iv = sx.pick("interval", list(interval))
                if iv == "default":
                    del o['interval']
                else:
                    o['interval'] = iv
        if m == "llcp" and role is not None:
            o['role'] = role
        options[m] = o
    if use_terminate:
        options['terminate'] = grabbing(make_terminate(sx, tr, K))
    spec['use_terminate'] = use_terminate
    spec['traffic'] = traffic

    status, value = call(clf.connect, **options)
    if grab:
        if clf.guard_lock.blocked:
            sx.reach("contended:connect:waits-for-lock")
        clf.guard_lock.release_other()
    check_connect(chk, tr, spec, status, value, envo)
    return dict(result=describe(status, value),
                trace=tr.names(("cb", "poll", "env", "fault")),
                drv=[e[1] for e in tr.drv()])


def cause_of(tr, frm):
    for e in tr.ev[frm:]:
        if e[0] == "fault":
            return "fault:" + e[1]
    return "none"


def check_connect(chk, tr, spec, status, value, envo):
    if not chk.active:
        return
    sx = chk.sx
    ev = tr.ev
    res = describe(status, value)
    active = dict(
        rdwr="rdwr" in spec['modes'] and spec['startup']['rdwr'] in RDWR_ACTIVE,
        llcp="llcp" in spec['modes'] and spec['startup']['llcp'] in LLCP_ACTIVE,
        card="card" in spec['modes'] and spec['startup']['card'] in CARD_ACTIVE)
    faults = [i for i, e in enumerate(ev) if e[0] == "fault"]
    fault_kind = ev[faults[0]][1] if faults else None

    chk.check(status != "limit", "connect-does-not-return")
    if status == "limit":
        return

    # ---- on-startup comes first, once per given option, before any activity
    first_other = None
    for i, e in enumerate(ev):
        if e[0] in ("poll", "drv") or (e[0] == "cb" and e[2] != "on-startup"):
            first_other = i
            break
    for i, e in enumerate(ev):
        if e[0] == "cb" and e[2] == "on-startup":
            chk.check(first_other is None or i < first_other,
                      "on-startup-after-activity:" + e[1])
    for m in spec['modes']:
        n = len([e for e in ev if e[0] == "cb" and e[1] == m
                 and e[2] == "on-startup"])
        want = 0 if spec['startup'][m] == "default" else 1
        chk.check(n == want, "on-startup-count:%s" % m)

    # ---- no option left: None, and nothing else happens
    if not any(active.values()):
        sx.reach("connect:none:no-options")
        chk.check(res == "None", "return-value:none-expected:no-options-left")
        chk.check(first_other is None or all(
            e[0] == "poll" for e in ev[first_other:]),
            "activity-without-options")
        return

    # ---- callbacks of an option that on-startup removed are never called
    for e in ev:
        if e[0] == "cb" and e[2] != "on-startup":
            chk.check(active[e[1]], "callback-of-removed-option:%s.%s"
                      % (e[1], e[2]))

    # ---- an uncaught exception is never part of the contract
    if status == "exc":
        chk.fail("connect-raised:%s:%s" % (type(value).__name__,
                                           phase_of(tr, spec)))
        return

    # ---- structure of an activation: discover -> connect -> release
    # (a callback that is not supplied cannot be observed: the documented
    # default of on-connect/on-release returns True)
    given = spec['given']
    cbs = [(i, e) for i, e in enumerate(ev)
           if e[0] == "cb" and e[2] != "on-startup"]
    open_connect = None      # (index, mode, object) of a true on-connect
    finished = None          # index of the event that completed the activation
    connect_false = None     # (index, object) of a false on-connect
    released = None
    prev = None
    for i, e in cbs:
        m, name, arg, rn = e[1], e[2], e[3], e[4]
        chk.check(finished is None, "callback-after-completed-activation:%s.%s"
                  % (m, name))
        if name == "on-discover":
            chk.check(open_connect is None, "on-discover-while-connected:" + m)
        elif name == "on-connect":
            chk.check(open_connect is None, "on-connect-while-connected:" + m)
            if given.get((m, "on-discover")):
                chk.check(prev is not None and prev[1] == m and
                          prev[2] == "on-discover" and truthy(prev[4]),
                          "on-connect-without-true-on-discover:" + m)
            want = dict(rdwr=nfc.tag.Tag, card=nfc.tag.TagEmulation,
                        llcp=nfc.llcp.llc.LogicalLinkController)[m]
            chk.check(isinstance(arg, want), "on-connect-argument-type:" + m)
            if m == "rdwr" and prev is not None and prev[2] == "on-discover":
                chk.check(arg.target is prev[3],
                          "on-connect-tag-not-the-discovered-target")
            if truthy(rn):
                open_connect = (i, m, arg)
                if not given.get((m, "on-release")):
                    finished = None     # release not observable
            else:
                connect_false = (i, arg)
                finished = i
        elif name == "on-release":
            if given.get((m, "on-connect")):
                chk.check(open_connect is not None and open_connect[1] == m,
                          "on-release-without-true-on-connect:" + m)
                if open_connect is not None:
                    chk.check(arg is open_connect[2],
                              "on-release-argument-differs:" + m)
            else:
                chk.check(released is None, "on-release-twice:" + m)
            released = (i, m, rn)
            open_connect = None
            finished = i
        prev = e

    # ---- on-release exactly once for every true on-connect
    connected = None         # mode of a true on-connect whose release we cannot see
    if open_connect is not None:
        if given.get((open_connect[1], "on-release")):
            chk.fail("on-release-missing:%s:%s"
                     % (open_connect[1], cause_of(tr, open_connect[0])))
            return
        connected = open_connect[1]

    # ---- on-release only after the link was found broken or terminate() true
    if released is not None:
        i0 = ([i for i, e in cbs if i < released[0]] or [0])[-1]
        reason = [e for e in ev[i0:released[0]] if e[0] == "poll" and e[2]] + \
            [e for e in ev[:released[0]] if e[0] == "env" and e[1] in (
                "gone", "link-broken", "peer-ends", "peer-silent")]
        chk.check(len(reason) > 0, "on-release-without-reason:" + released[1])

    # ---- while connected, terminate() is asked before every presence check /
    #      command-response / symmetry exchange ("or when the 'terminate'
    #      function returned a true value")
    for i, e in cbs:
        if e[2] == "on-connect" and truthy(e[4]) and spec['use_terminate']:
            polled = False
            for f in ev[i + 1:]:
                if f[0] == "cb":
                    break
                if f[0] == "poll":
                    polled = True
                elif f[0] == "env" and f[1] in ("read-ok", "gone", "reader-cmd",
                                                "reader-silent", "link-broken",
                                                "peer-symm", "peer-ends"):
                    chk.check(polled, "llcp-terminate-not-polled-while-sending"
                              if spec.get('traffic') else
                              "terminate-not-polled-between-exchanges:" + e[1])
                    polled = False

    # ---- release follows the loss of the peer, not the terminate callback:
    #      once the tag is gone / the reader has left (BrokenLinkError) / the
    #      peer has ended the link, on-release comes without waiting for
    #      terminate() and without further exchanges on the dead link
    #      (llcp: run_as_target looks at terminate() once before it looks at
    #      the failed exchange; deactivation may try a few more frames)
    loss = dict(rdwr=("gone",), card=("link-broken",), llcp=("peer-ends",))
    name_of = dict(rdwr="rdwr-presence-loop-continues-after-tag-gone",
                   card="card-loop-continues-after-broken-link",
                   llcp="llcp-run-loop-continues-after-link-loss")
    for i, e in cbs:
        if e[2] == "on-connect" and truthy(e[4]):
            m = e[1]
            lost = False
            polls = xchgs = 0
            for f in ev[i + 1:]:
                if f[0] == "cb":
                    break
                if not lost:
                    lost = f[0] == "env" and f[1] in loss[m]
                elif f[0] == "poll":
                    polls += 1
                elif f[0] == "xchg":
                    xchgs += 1
            if lost:
                sx.reach("connect:peer-lost:" + m)
                chk.check(polls <= (1 if m == "llcp" else 0), name_of[m])
                if m == "card":
                    chk.check(xchgs == 0, name_of[m])
                elif m == "llcp":
                    chk.check(xchgs <= 12, name_of[m])

    # ---- return value
    # modes whose activation we could not see at all (default callbacks)
    blind = [m for m in ("rdwr", "llcp", "card") if active[m]
             and not given.get((m, "on-connect"))
             and not given.get((m, "on-release"))]
    if connect_false is not None:
        sx.reach("connect:object:" + ev[connect_false[0]][1])
        chk.check(status == "ok" and value is connect_false[1],
                  "return-value:object-expected:on-connect-false")
    elif released is not None:
        m, rn = released[1], released[2]
        cls = "true" if RESULT[rn] is True else \
            "truthy" if truthy(rn) else "false"
        sx.reach("connect:released:" + m)
        chk.check(value is True,
                  "return-after-release:%s:on-release-result-%s" % (m, cls))
    elif connected is not None and fault_kind is None:
        sx.reach("connect:released:" + connected)
        chk.check(value is True,
                  "return-after-release:%s:on-release-default" % connected)
    elif fault_kind is not None:
        sx.reach("connect:false:" + fault_kind)
        chk.check(value is False, "return-value:false-expected:" + fault_kind)
    elif active['rdwr'] and len(effective_targets(spec)) == 1 and \
            any(e[0] == "env" and e[1] == "unsupported" for e in ev):
        sx.reach("connect:false:unsupported")
        chk.check(value is False,
                  "return-value:false-expected:UnsupportedTargetError")
    elif blind and value is True:
        # default on-connect and on-release: a completed activation shows
        # only in the driver log (presence checks / data exchange happened)
        sx.reach("connect:true:default-callbacks")
        chk.check(any(e[0] == "env" and e[1] in ("found", "activated",
                                                  "dep-activated") for e in ev),
                  "return-value:true-without-activation")
    else:
        sx.reach("connect:none:terminated")
        chk.check(value is None, "return-value:none-expected:terminated")
        polls = [e for e in ev if e[0] == "poll"]
        chk.check(len(polls) > 0 and polls[-1][2] is True,
                  "returned-without-activation-or-terminate")

    # ---- a single activation: nothing happens after it completed
    if finished is not None:
        rest = [e for e in ev[finished + 1:] if e[0] in ("cb", "drv", "poll")]
        chk.check(len(rest) == 0, "activity-after-completed-activation:"
                  + ev[finished][1])

    # ---- ending promptly once terminate() is true
    first_true = None
    for i, e in enumerate(ev):
        if e[0] == "poll" and e[2]:
            first_true = i
            break
    if first_true is not None:
        after = ev[first_true + 1:]
        chk.check(not any(e[0] == "cb" and e[2] in ("on-discover", "on-connect")
                          for e in after), "activation-after-terminate")
        chk.check(not any(e[0] == "drv" and e[1].startswith(("sense_", "listen_"))
                          for e in after), "discovery-after-terminate")
        chk.check(len([e for e in after if e[0] == "poll"]) <= 1,
                  "terminate-polled-again-and-again")
        # the remaining driver traffic is bounded: deactivation only
        chk.check(len([e for e in after if e[0] == "drv"]) <= 12,
                  "driver-traffic-after-terminate")

    # ---- progress: what the environment offered was taken up
    check_progress(chk, tr, spec, active)

    # ---- discovery only as configured: the 'role' restriction of llcp and
    #      the target list that rdwr 'on-startup' returned
    disc = [e[1] for e in ev if e[0] == "drv" and
            e[1].startswith(("sense_", "listen_"))]
    if spec['modes'] == ["llcp"] and spec['role'] == "initiator":
        chk.check(not any(d.startswith("listen_") for d in disc),
                  "llcp-role-initiator-but-listening")
    if spec['modes'] == ["llcp"] and spec['role'] == "target":
        chk.check(not any(d.startswith("sense_") for d in disc),
                  "llcp-role-target-but-polling")
    if spec['modes'] == ["llcp"] and spec['role'] == "invalid":
        chk.check(len(disc) == 0, "llcp-invalid-role-but-discovering")
    if spec['modes'] == ["rdwr"] and active['rdwr']:
        meth = {"106A": "sense_tta", "106B": "sense_ttb", "212F": "sense_ttf"}
        allowed = [meth[t] for t in effective_targets(spec)]
        # (a Type 2 Tag re-senses its own target only in read(); not used here)
        chk.check(all(d in allowed for d in disc),
                  "rdwr-senses-target-not-in-startup-result")
        if spec['env'] == "none" and disc:
            k = len(allowed)
            chk.check(all(disc[i] == allowed[i % k] for i in range(len(disc))),
                      "rdwr-sense-order-differs-from-target-list")

    # ---- LED / buzzer: on iff 'beep-on-connect' and on-connect true
    if "rdwr" in spec['modes']:
        on = len([e for e in ev if e[0] == "drv"
                  and e[1] == "turn_on_led_and_buzzer"])
        connected = [e for i, e in cbs if e[1] == "rdwr" and
                     e[2] == "on-connect" and truthy(e[4])]
        if spec['given'].get(("rdwr", "on-connect")):
            want = 1 if (connected and spec['beep']) else 0
            chk.check(on == want, "led-and-buzzer:on=%d,want=%d" % (on, want))

    # ---- 'iterations' sense cycles between two terminate() polls
    if spec['iterations'] is not None and spec['modes'] == ["rdwr"] \
            and spec['env'] == "none" and active['rdwr']:
        it = spec['iterations']
        ntg = len(effective_targets(spec))
        pi = [i for i, e in enumerate(ev) if e[0] == "poll"]
        if len(pi) >= 2:
            cnt = len([e for e in ev[pi[0]:pi[1]] if e[0] == "drv"
                       and e[1].startswith("sense_")])
            sx.reach("connect:iterations-counted")
            chk.check(sx.eq(cnt, ntg * sx.ite(it < 1, 1, it)),
                      "iterations-not-honoured")


def effective_targets(spec):
    t = spec['targets']
    k = spec['startup'].get('rdwr')
    if k == "first":
        return t[:1]
    if k == "last":
        return t[-1:]
    return t


def phase_of(tr, spec):
    """where an exception left connect(): the last callback or driver call"""
    for e in reversed(tr.ev):
        if e[0] == "cb" and e[2] != "on-startup":
            return "after-%s.%s" % (e[1], e[2])
    for e in reversed(tr.ev):
        if e[0] == "drv":
            return "discovery"
    return "start"


def activation_failed(ev, i):
    """the environment made the activation that follows event i fail"""
    for f in ev[i + 1:]:
        if f[0] in ("cb", "poll", "fault"):
            return False
        if f[0] == "env" and f[1] == "activation-fault":
            return True
    return False


def check_progress(chk, tr, spec, active):
    ev = tr.ev

    def next_cb(i):
        for j in range(i + 1, len(ev)):
            if ev[j][0] in ("cb", "poll", "fault"):
                return ev[j]
        return None

    for i, e in enumerate(ev):
        if e[0] != "env":
            continue
        drv = None
        for j in range(i - 1, -1, -1):
            if ev[j][0] == "drv":
                drv = ev[j]
                break
        chain = drv[7] if drv is not None else []
        if e[1] == "found" and "_rdwr_connect" in chain and \
                chain[-2:] == ["sense", "sense_tta"] and \
                chain[-3] == "_rdwr_connect":
            n = next_cb(i)
            if spec['given'].get(("rdwr", "on-discover")):
                chk.check(n is not None and n[0] != "poll" and
                          (n[0] == "fault" or (n[2] == "on-discover"
                                               and n[3] is e[2])),
                          "discovered-target-not-offered-to-on-discover")
            elif spec['given'].get(("rdwr", "on-connect")) and \
                    "llcp" not in spec['modes'] and not activation_failed(ev, i):
                chk.check(n is not None and n[0] != "poll" and
                          (n[0] == "fault" or n[2] == "on-connect"),
                          "discovered-tag-not-offered-to-on-connect")
        if e[1] == "activated" and "_card_connect" in chain:
            n = next_cb(i)
            if spec['given'].get(("card", "on-discover")):
                chk.check(n is not None and n[0] != "poll" and
                          (n[0] == "fault" or (n[2] == "on-discover"
                                               and n[3] is e[2])),
                          "activated-target-not-offered-to-on-discover")
        if e[1] == "dep-activated" and "_llcp_connect" in chain and \
                "nomagic" not in spec['env']:
            n = next_cb(i)
            if spec['given'].get(("llcp", "on-connect")):
                chk.check(n is not None and n[0] != "poll" and
                          (n[0] == "fault" or (n[1] == "llcp" and
                                               n[2] == "on-connect")),
                          "activated-link-not-offered-to-on-connect")
    # a true on-discover is followed by on-connect (activation of the models
    # used here cannot fail) unless a fault intervened or nothing to emulate
    for i, e in enumerate(ev):
        if e[0] == "cb" and e[2] == "on-discover" and truthy(e[4]) and \
                spec['given'].get((e[1], "on-connect")):
            n = next_cb(i)
            if e[1] == "card" and spec['env'] in ("reader-nocmd", "reader-a"):
                chk.check(n is None or n[2] != "on-connect",
                          "on-connect-without-emulation")
                continue
            failed = False
            for f in ev[i + 1:]:
                if f[0] in ("cb", "poll", "fault"):
                    break
                if f[0] == "env" and f[1] == "activation-fault":
                    failed = True
            if failed:
                # the tag did not survive activation: no on-connect for this
                # round, discovery goes on
                chk.sx.reach("connect:activation-failed")
                chk.check(n is None or not (n[0] == "cb" and
                                            n[2] == "on-connect"),
                          "on-connect-after-failed-activation")
                continue
            chk.check(n is not None and (n[0] == "fault" or (
                n[0] == "cb" and n[1] == e[1] and n[2] == "on-connect")),
                "true-on-discover-not-followed-by-on-connect:" + e[1])
    # every on-discover argument is something the driver reported
    offered = [e[2] for e in ev if e[0] == "env" and
               e[1] in ("found", "activated", "peer-found")]
    for e in ev:
        if e[0] == "cb" and e[2] == "on-discover":
            chk.check(any(e[3] is o for o in offered),
                      "on-discover-argument-not-from-driver:" + e[1])


# ----------------------------------------------------------------------------
# sense()
# ----------------------------------------------------------------------------
SENSE_KINDS = ["A", "B", "F", "DEP", "A-unsup", "F-unsup", "X", "A-badsel",
               "DEP-short", "A-commerr"]
DRIVER_KIND = {"A": "ok", "B": "ok", "F": "ok", "DEP": "ok",
               "A-unsup": "unsup", "F-unsup": "unsup", "A-commerr": "commerr"}
SENSE_METHOD = {"A": "sense_tta", "B": "sense_ttb", "F": "sense_ttf",
                "DEP": "sense_dep", "A-unsup": "sense_tta",
                "F-unsup": "sense_ttf", "A-commerr": "sense_tta"}


def mk_target(sx, kind):
    if kind in ("A", "A-commerr"):
        return nfc.clf.RemoteTarget("106A")
    if kind == "B":
        return nfc.clf.RemoteTarget("106B")
    if kind == "F":
        return nfc.clf.RemoteTarget("212F")
    if kind == "DEP":
        return nfc.clf.RemoteTarget(
            "106A", atr_req=sx.mkbytes([0xD4, 0x00] + [0x11] * 14))
    if kind == "A-unsup":
        return nfc.clf.RemoteTarget("848A")
    if kind == "F-unsup":
        return nfc.clf.RemoteTarget("848F")
    if kind == "X":
        return nfc.clf.RemoteTarget("999X")
    if kind == "A-badsel":
        return nfc.clf.RemoteTarget("106A", sel_req=sx.mkbytes([1, 2, 3, 4, 5]))
    if kind == "DEP-short":
        return nfc.clf.RemoteTarget(
            "424F", atr_req=sx.mkbytes([0xD4, 0x00] + [0x11] * 13))
    raise ValueError(kind)


def mk_response(sx, kind):
    if kind == "A":
        return nfc.clf.RemoteTarget(
            "106A", sens_res=sx.mkbytes([0x44, 0x00]),
            sel_res=sx.mkbytes([0x00]), sdd_res=sx.mkbytes([8, 1, 2, 3]))
    if kind == "B":
        return nfc.clf.RemoteTarget(
            "106B", sensb_res=sx.mkbytes([0x50] + [0] * 11))
    if kind == "F":
        return nfc.clf.RemoteTarget(
            "212F", sensf_res=sx.mkbytes([0x01] + IDM + PMM))
    if kind == "DEP":
        return nfc.clf.RemoteTarget(
            "106A", atr_req=sx.mkbytes([0xD4, 0x00] + [0x11] * 14),
            atr_res=sx.mkbytes([0xD5, 0x01] + [0x22] * 15))
    raise ValueError(kind)


def programmed_sense(sx, chk, clf, dev, envo, tr, kinds, pfx, iters):
    """one clf.sense() call with picked `found` slot -> (status, value,
    expected response object or None)"""
    n = len(kinds)
    args = [mk_target(sx, k) for k in kinds]
    it = sx.pick(pfx + "iterations", iters)
    rounds = max(1, it) if it is not None else 1
    slots = [None] + [(r, t) for r in range(rounds) for t in range(n)
                      if DRIVER_KIND.get(kinds[t]) == "ok"]
    raising = [k for k in kinds if k not in ("A", "B", "F", "DEP", "A-commerr")]
    if n == 1 and raising:
        slots = [None]
    found = sx.pick(pfx + "found", slots)
    resp = {}

    def response(t):
        resp[t] = mk_response(sx, kinds[t])
        return resp[t]
    envo.program(args, [DRIVER_KIND.get(k) for k in kinds], found, response)
    kw = {}
    if it is not None:
        kw['iterations'] = it
        kw['interval'] = 0.5
    mark = len(tr.ev)
    t0 = CLOCK.t
    status, value = call(clf.sense, *args, **kw)
    elapsed = CLOCK.t - t0
    ev = tr.ev[mark:]
    drv = [e for e in ev if e[0] == "drv"]

    # expected order of discovery attempts
    want = []
    for r in range(rounds):
        stop = False
        for t in range(n):
            if kinds[t] in SENSE_METHOD:
                want.append(SENSE_METHOD[kinds[t]])
            if found == (r, t):
                stop = True
                break
        if stop:
            break
    got = [e[1] for e in drv if e[1].startswith("sense_")]

    if status == "limit":
        chk.fail("sense-does-not-return")
    if n == 1 and kinds[0] in ("A-unsup", "F-unsup", "X"):
        chk.check(status == "exc" and isinstance(
            value, nfc.clf.UnsupportedTargetError),
            "single-unsupported-target-not-reported:" + kinds[0])
        return status, value, None
    if n == 1 and kinds[0] in ("A-badsel", "DEP-short"):
        chk.check(status == "exc" and isinstance(value, ValueError),
                  "single-invalid-target-not-reported:" + kinds[0])
        return status, value, None
    if status == "exc":
        bad = [k for k in kinds if k in ("A-badsel", "DEP-short")]
        chk.fail("sense-raised-with-%s-targets:%s:%s" % (
            "several" if n > 1 else "one", type(value).__name__,
            bad[0] if bad and isinstance(value, ValueError) else
            "unsupported" if isinstance(value, nfc.clf.UnsupportedTargetError)
            else "other"))
        return status, value, None
    exp = resp.get(found[1]) if found is not None else None
    if found is not None:
        chk.check(exp is not None and value is exp,
                  "sense-did-not-return-first-found-target")
    else:
        chk.check(value is None, "sense-returned-something-not-found")
        chk.check(len(drv) > 0 and drv[-1][1] == "mute",
                  "field-left-on-after-unsuccessful-sense")
        if it is not None and n > 0 and not envo.sense_cost:
            # 'interval' seconds between iterations, none after the last
            chk.check(elapsed >= (rounds - 1) * 0.5 - 0.05,
                      "interval-between-iterations-not-waited")
            chk.check(elapsed < (rounds - 1) * 0.5 + 0.2,
                      "waiting-time-after-last-iteration")
    chk.check(got == want, "sense-order-differs-from-argument-order")
    return status, value, exp


def sense_scn(sx, mode="contract", n=2, first=None, kindset=None,
              iters=(None, 1, 2), hook=None, slow=False):
    """clf.sense() with n targets of picked kinds, then exchange()"""
    chk = Chk(sx, mode == "contract")
    tr = Trace()
    envo = SlotEnv(sx, tr)
    dev = RecDevice(sx, envo, tr)
    dev.hook = hook
    clf = make_frontend(dev)
    dev.entry = "sense"
    kindset = kindset or SENSE_KINDS
    kinds = []
    for t in range(n):
        if t == 0 and first is not None:
            kinds.append(first)
        else:
            kinds.append(sx.pick("kind%d" % t, kindset))
    if slow:
        # a slow reader: every discovery attempt takes 0, half an interval,
        # one interval or three intervals (interval = 0.5 s virtual time)
        envo.sense_cost = sx.pick("sense.cost", [0, 0.25, 0.5, 1.5])
        if envo.sense_cost:
            sx.reach("sense:pass-longer-than-interval")
    status, value, exp = programmed_sense(sx, chk, clf, dev, envo, tr, kinds,
                                          "s0.", list(iters))
    out = dict(kinds=kinds, sense=describe(status, value))
    # exchange() afterwards: uses exactly the target just found, or nothing
    dev.entry = "exchange"
    envo.answer = sx.mkbytes(list(sx.bytes("answer", 3)))
    mark = len(tr.ev)
    data = sx.mkbytes([0x30, 0x00])
    st2, v2 = call(clf.exchange, data, 0.1)
    x = [e for e in tr.ev[mark:] if e[0] == "xchg"]
    if status == "ok" and value is not None:
        chk.check(len(x) == 1 and x[0][1] == "cmd" and x[0][2] is value
                  and x[0][3] is data, "exchange-not-with-the-sensed-target")
        chk.check(st2 == "ok" and v2 is envo.answer,
                  "exchange-result-not-the-driver-answer")
    else:
        chk.check(len(x) == 0, "exchange-used-a-target-after-failed-sense")
        chk.check(st2 == "ok" and v2 is None,
                  "exchange-without-target-not-none")
    out['exchange'] = describe(st2, v2)
    out['drv'] = [e[1] for e in tr.drv()]
    sx.reach("sense:%d" % n)
    return out


def sense_tta_response_scn(sx, mode="contract", n=1, hook=None):
    """the Type A discovery response is symbolic: SENS_RES of 1..3 bytes,
    RID_RES absent / 5 / 6 bytes.  Oracle (NFC Forum Digital, as quoted in
    sense_tta's own messages): SENS_RES has two bytes; if its bit frame SDD
    field is 0 (Type 1 Tag platform) then byte 2 low nibble is 1100b and a
    6 byte RID_RES with HR0 high nibble 0001b exists."""
    chk = Chk(sx, mode == "contract")
    tr = Trace()
    envo = SlotEnv(sx, tr)
    dev = RecDevice(sx, envo, tr)
    dev.hook = hook
    clf = make_frontend(dev)
    dev.entry = "sense"
    kinds = ["A"] + ["F"] * (n - 1)
    args = [mk_target(sx, k) for k in kinds]
    ls = sx.pick("sens.len", [2, 1, 3])
    lr = sx.pick("rid.len", [None, 6, 5])
    sens = sx.bytes("sens", ls)
    rid = sx.bytes("rid", lr) if lr is not None else None
    holder = {}

    def response(t):
        r = nfc.clf.RemoteTarget("106A", sens_res=sx.mkbytes(list(sens)))
        if rid is not None:
            r.rid_res = sx.mkbytes(list(rid))
        else:
            r.sel_res = sx.mkbytes([0x00])
            r.sdd_res = sx.mkbytes([8, 1, 2, 3])
        holder['r'] = r
        return r
    envo.program(args, ["ok"] * n, (0, 0), response)
    status, value = call(clf.sense, *args)
    if ls != 2:
        valid = False
    else:
        t1 = (sens[0] & 0x1F) == 0
        ok_t1 = False
        if lr == 6:
            ok_t1 = sx.all([(sens[1] & 0x0F) == 0x0C, (rid[0] >> 4) == 1])
        valid = sx.any([sx.neg(t1), ok_t1])
    chk.check(status == "ok", "sense-raised-on-malformed-response:%s"
              % (type(value).__name__ if status == "exc" else ""))
    if status != "ok":
        return dict(result=describe(status, value))
    if value is None:
        chk.check(sx.neg(valid), "wellformed-type-a-response-dropped")
        drv = tr.drv()
        chk.check(drv[-1][1] == "mute",
                  "field-left-on-after-unsuccessful-sense")
        sx.reach("tta-response-rejected")
    else:
        chk.check(value is holder.get('r'), "sense-returned-foreign-object")
        chk.check(valid, "malformed-type-a-response-accepted")
        sx.reach("tta-response-accepted")
    # and exchange() agrees with what sense() said
    dev.entry = "exchange"
    mark = len(tr.ev)
    st2, v2 = call(clf.exchange, sx.mkbytes([0x30, 0x00]), 0.1)
    x = [e for e in tr.ev[mark:] if e[0] == "xchg"]
    chk.check((len(x) == 1) == (value is not None),
              "exchange-disagrees-with-sense-result")
    return dict(result=describe(status, value), rid=lr, sens=ls,
                drv=[e[1] for e in tr.drv()])


# ----------------------------------------------------------------------------
# listen(), exchange() and stale targets
# ----------------------------------------------------------------------------
LISTEN_KINDS = ["dep", "tta", "ttb", "ttf", "bad-brty"]


def mk_local(sx, kind):
    if kind == "dep":
        return nfc.clf.LocalTarget(
            "106A", atr_res=sx.mkbytes([0xD5, 0x01] + [0x22] * 15),
            sens_res=sx.mkbytes([1, 1]), sdd_res=sx.mkbytes([8, 1, 2, 3]),
            sel_res=sx.mkbytes([0x40]),
            sensf_res=sx.mkbytes([0x01] + IDM + PMM))
    if kind == "tta":
        return nfc.clf.LocalTarget(
            "106A", sens_res=sx.mkbytes([1, 1]),
            sdd_res=sx.mkbytes([8, 1, 2, 3]), sel_res=sx.mkbytes([0x00]))
    if kind == "ttb":
        return nfc.clf.LocalTarget("106B")
    if kind == "ttf":
        return nfc.clf.LocalTarget(
            "212F", sensf_res=sx.mkbytes([0x01] + IDM + PMM + SYS))
    return nfc.clf.LocalTarget("999X")


def programmed_listen(sx, chk, clf, dev, envo, tr, kind, what, pfx):
    """one clf.listen(); what in found/none/unsup/valueerror"""
    holder = {}

    def response(k):
        if k == "dep":
            n = sx.pick(pfx + "atr_req.len", [16, 15, 64, 65])
            r = nfc.clf.LocalTarget(
                "424F", atr_req=sx.mkbytes([0xD4, 0x00] + [0x11] * (n - 2)),
                dep_req=sx.mkbytes([0xD4, 0x06, 0x00, 0x00, 0x00]))
            holder['n'] = n
        elif k == "tta":
            r = nfc.clf.LocalTarget("106A", tt2_cmd=sx.mkbytes([0x30, 0x00]))
        elif k == "ttb":
            r = nfc.clf.LocalTarget("106B", tt4_cmd=sx.mkbytes([0xE0, 0x80]))
        else:
            r = nfc.clf.LocalTarget(
                "212F", tt3_cmd=sx.mkbytes([0x00, 0xFF, 0xFF, 0x01, 0x00]))
        holder['r'] = r
        return r
    envo.listen_script = what
    envo.response = response
    mark = len(tr.ev)
    status, value = call(clf.listen, mk_local(sx, kind), 0.5)
    drv = [e for e in tr.ev[mark:] if e[0] == "drv"]
    got = [e[1] for e in drv if e[1].startswith("listen_")]
    if status == "limit":
        chk.fail("listen-does-not-return")
    if kind == "bad-brty":
        chk.check(status == "exc" and isinstance(value, ValueError),
                  "listen-bad-brty-not-reported")
        chk.check(got == [], "listen-driver-call-for-bad-brty")
        return status, value, None
    chk.check(got == ["listen_" + kind], "listen-wrong-driver-method:" + kind)
    if what == "unsup":
        chk.check(status == "exc" and isinstance(
            value, nfc.clf.UnsupportedTargetError),
            "listen-unsupported-not-reported")
        return status, value, None
    if what == "valueerror":
        chk.check(status == "exc" and isinstance(value, ValueError),
                  "listen-valueerror-not-reported")
        return status, value, None
    chk.check(status == "ok", "listen-raised:%s" % (
        type(value).__name__ if status == "exc" else ""))
    if status != "ok":
        return status, value, None
    if what == "none":
        chk.check(value is None, "listen-returned-something-not-activated")
        return status, value, None
    r = holder.get('r')
    if kind == "dep" and not 16 <= holder['n'] <= 64:
        # ATR_REQ is 16..64 bytes (NFC-DEP): such an activation is not one
        chk.check(value is None, "listen-returned-invalid-atr_req")
        return status, value, None
    chk.check(value is r, "listen-did-not-return-the-activated-target")
    return status, value, r


def listen_scn(sx, mode="contract", kind="ttf", hook=None):
    chk = Chk(sx, mode == "contract")
    tr = Trace()
    envo = SlotEnv(sx, tr)
    dev = RecDevice(sx, envo, tr)
    dev.hook = hook
    clf = make_frontend(dev)
    dev.entry = "listen"
    what = sx.pick("listen.what", ["found", "none", "unsup", "valueerror"]) \
        if kind != "bad-brty" else "none"
    status, value, exp = programmed_listen(sx, chk, clf, dev, envo, tr, kind,
                                           what, "l0.")
    dev.entry = "exchange"
    envo.answer = sx.mkbytes(list(sx.bytes("answer", 3)))
    mark = len(tr.ev)
    data = None if sx.pick("rsp.none", [False, True]) else \
        sx.mkbytes([0x1D, 0x07])
    st2, v2 = call(clf.exchange, data, 0.1)
    x = [e for e in tr.ev[mark:] if e[0] == "xchg"]
    if status == "ok" and value is not None:
        chk.check(len(x) == 1 and x[0][1] == "rsp" and x[0][2] is value
                  and x[0][3] is data, "exchange-not-as-the-activated-target")
        chk.check(st2 == "ok" and v2 is envo.answer,
                  "exchange-result-not-the-driver-answer")
    else:
        chk.check(len(x) == 0, "exchange-used-a-target-after-failed-listen")
        chk.check(st2 == "ok" and v2 is None,
                  "exchange-without-target-not-none")
    sx.reach("listen:" + kind)
    return dict(listen=describe(status, value), exchange=describe(st2, v2),
                drv=[e[1] for e in tr.drv()])


FIRST_OPS = ["sense:A", "sense:F", "sense:DEP", "listen:ttf", "listen:dep",
             "listen:tta"]
SECOND_OPS = ["sense:none", "sense:notfound", "sense:all-unsup",
              "sense:all-commerr", "sense:one-unsup", "sense:one-invalid",
              "sense:unknown-tech", "listen:none", "listen:unsup",
              "listen:valueerror", "listen:bad-brty", "listen:short-atr"]


def stale_scn(sx, mode="contract", first="sense:A", hook=None):
    """a target captured by an earlier sense()/listen() is not used by
    exchange() after a later sense()/listen() that found nothing"""
    chk = Chk(sx, mode == "contract")
    tr = Trace()
    envo = SlotEnv(sx, tr)
    dev = RecDevice(sx, envo, tr)
    dev.hook = hook
    clf = make_frontend(dev)
    op, arg = first.split(":")
    dev.entry = op
    if op == "sense":
        kinds = [arg]
        args = [mk_target(sx, arg)]
        holder = {}

        def response(t):
            holder['r'] = mk_response(sx, arg)
            return holder['r']
        envo.program(args, ["ok"], (0, 0), response)
        s1, v1 = call(clf.sense, *args)
        chk.check(s1 == "ok" and v1 is holder.get('r'),
                  "sense-did-not-return-first-found-target")
    else:
        s1, v1, _ = programmed_listen(sx, chk, clf, dev, envo, tr, arg,
                                      "found", "l0.")
        if arg == "dep" and v1 is None:
            return dict(first="not-activated")
    second = sx.pick("second", SECOND_OPS)
    op2, arg2 = second.split(":")
    dev.entry = op2
    if op2 == "sense":
        kinds = dict(none=[], notfound=["A", "F"],
                     **{"all-unsup": ["A-unsup", "X"],
                        "all-commerr": ["A-commerr", "A-commerr"],
                        "one-unsup": ["F-unsup"], "one-invalid": ["A-badsel"],
                        "unknown-tech": ["X"]})[arg2]
        args = [mk_target(sx, k) for k in kinds]
        envo.program(args, [DRIVER_KIND.get(k) for k in kinds], None, None)
        s2, v2 = call(clf.sense, *args, iterations=sx.pick("it2", [1, 2]),
                      interval=0.01)
        chk.check(not (s2 == "ok" and v2 is not None),
                  "sense-returned-something-not-found")
    else:
        kind = dict(none="ttf", unsup="tta", valueerror="ttf",
                    **{"bad-brty": "bad-brty", "short-atr": "dep"})[arg2]
        what = dict(none="none", unsup="unsup", valueerror="valueerror",
                    **{"bad-brty": "none", "short-atr": "found"})[arg2]
        if arg2 == "short-atr":
            holder2 = {}

            def response2(k):
                holder2['r'] = nfc.clf.LocalTarget(
                    "424F", atr_req=sx.mkbytes([0xD4, 0x00] + [0x11] * 13),
                    dep_req=sx.mkbytes([0xD4, 0x06, 0x00, 0x00, 0x00]))
                return holder2['r']
            envo.listen_script = "found"
            envo.response = response2
            s2, v2 = call(clf.listen, mk_local(sx, "dep"), 0.5)
            chk.check(s2 == "ok" and v2 is None,
                      "listen-returned-invalid-atr_req")
        else:
            s2, v2, _ = programmed_listen(sx, chk, clf, dev, envo, tr, kind,
                                          what, "l1.")
    dev.entry = "exchange"
    envo.answer = sx.mkbytes([0xAA])
    mark = len(tr.ev)
    s3, v3 = call(clf.exchange, sx.mkbytes([0x30, 0x00]), 0.1)
    x = [e for e in tr.ev[mark:] if e[0] == "xchg"]
    chk.check(len(x) == 0, "exchange-reused-stale-target:%s>%s" % (first, second))
    chk.check(s3 == "ok" and v3 is None, "exchange-without-target-not-none")
    sx.reach("stale:" + op2)
    return dict(first=describe(s1, v1), second=second,
                second_result=describe(s2, v2), exchange=describe(s3, v3),
                drv=[e[1] for e in tr.drv()])


# ----------------------------------------------------------------------------
# open / close / with / size properties / no device
# ----------------------------------------------------------------------------
NODEV_OPS = ["connect", "sense", "listen", "exchange", "max_send_data_size",
             "max_recv_data_size", "close", "exit"]


def do_op(sx, clf, op):
    if op == "connect":
        return call(clf.connect, rdwr={})
    if op == "sense":
        return call(clf.sense, nfc.clf.RemoteTarget("106A"))
    if op == "listen":
        return call(clf.listen, mk_local(sx, "ttf"), 0.1)
    if op == "exchange":
        return call(clf.exchange, sx.mkbytes([0x30, 0x00]), 0.1)
    if op == "max_send_data_size":
        return call(lambda: clf.max_send_data_size)
    if op == "max_recv_data_size":
        return call(lambda: clf.max_recv_data_size)
    if op == "close":
        return call(clf.close)
    if op == "exit":
        return call(clf.__exit__, None, None, None)
    raise ValueError(op)


def lifecycle_scn(sx, mode="contract", hook=None):
    chk = Chk(sx, mode == "contract")
    tr = Trace()
    envo = SlotEnv(sx, tr)
    dev = RecDevice(sx, envo, tr)
    dev.hook = hook
    clf = new_frontend()
    dev.clf = clf
    dev.entry = "open"
    out = {}
    found = sx.pick("open.found", [True, False])
    if not found:
        dev.open_result = None
    s, v = call(open_frontend, clf, dev)
    chk.check(s == "ok" and v is found, "open-return-value")
    out['open'] = describe(s, v)
    if found:
        chk.check(clf.device is dev, "open-did-not-install-the-driver")
        # the size properties ask the driver
        for op in ("max_send_data_size", "max_recv_data_size"):
            dev.entry = op
            s, v = do_op(sx, clf, op)
            chk.check(s == "ok" and v == 290, "size-property:" + op)
        how = sx.pick("close.how", ["close", "exit", "with", "reopen",
                                    "reopen-none"])
        envo.close_error = sx.pick("close.error", [False, True])
        mark = len(tr.ev)
        dev.entry = dict(close="close", exit="__exit__").get(how, how)
        if how == "close":
            s, v = call(clf.close)
        elif how == "exit":
            s, v = call(clf.__exit__, None, None, None)
        elif how == "with":
            def body():
                with clf as c:
                    return c is clf
            s, v = call(body)
            chk.check(s == "ok" and v is True, "enter-returns-frontend")
            v = None
        else:
            dev.entry = "open"
            tr2 = Trace()
            dev2 = RecDevice(sx, SlotEnv(sx, tr2), tr2)
            dev2.hook = hook
            dev2.entry = "open"
            if how == "reopen-none":
                dev2.open_result = None
            s, v = call(open_frontend, clf, dev2)
            chk.check(s == "ok" and v is (how == "reopen"),
                      "open-return-value")
            chk.check(clf.device is (dev2 if how == "reopen" else None),
                      "reopen-did-not-install-the-driver")
            out['reopen_drv'] = [e[1] for e in tr2.drv()]
            v = None
        chk.check(s == "ok" and v is None, "close-raised-or-returned")
        closes = [e for e in tr.ev[mark:] if e[0] == "drv" and e[1] == "close"]
        chk.check(len(closes) == 1, "driver-close-count")
        if how in ("close", "exit", "with", "reopen-none"):
            chk.check(clf.device is None, "device-still-set-after-close")
        out['close'] = how
    # without a device every operation reports ENODEV (close is a no-op)
    if clf.device is None:
        op = sx.pick("nodev.op", NODEV_OPS)
        dev.entry = op
        mark = len(tr.ev)
        s, v = do_op(sx, clf, op)
        if op in ("close", "exit"):
            chk.check(s == "ok" and v is None, "close-without-device")
        else:
            chk.check(s == "exc" and is_enodev(v), "no-device-not-ENODEV:" + op)
        chk.check(len([e for e in tr.ev[mark:] if e[0] == "drv"]) == 0,
                  "driver-call-on-closed-device:" + op)
        out['nodev'] = [op, describe(s, v)]
    sx.reach("lifecycle")
    out['drv'] = [e[1] for e in tr.drv()]
    return out


# ----------------------------------------------------------------------------
# partitions
# ----------------------------------------------------------------------------
SMALL = ["True", "False", "None", "x"]


def connect_partitions(tier):
    """(name, params) of all connect() scenarios - shared with C15"""
    P = []
    full = tier == "thorough"
    K = 3 if full else 2
    t2 = "t2-3" if full else "t2"
    budget = 45 if full else 30
    # ---- reader/writer, one callback at a time over all 8 result values
    for env in (t2, "t2-stay"):
        P.append(("rdwr:%s:discover" % env, dict(
            modes=["rdwr"], env=env, startup=dict(rdwr=["all"]),
            vals={"on-discover": ALL8 + ["default"], "on-connect": TF,
                  "on-release": ["True"]}, K=K, targets=["106A"])))
        P.append(("rdwr:%s:connect" % env, dict(
            modes=["rdwr"], env=env, startup=dict(rdwr=["default"]),
            vals={"on-discover": ["True"], "on-connect": ALL8 + ["default"],
                  "on-release": ["True", "default"]}, K=K,
            beep=["default", True, False])))
        P.append(("rdwr:%s:release" % env, dict(
            modes=["rdwr"], env=env, startup=dict(rdwr=["all"]),
            vals={"on-discover": ["default"], "on-connect": ["True", "1"],
                  "on-release": ALL8 + ["default"]}, K=K + 1,
            targets=["106A"])))
    # all combinations of the three callback results
    for d in (ALL8 if full else ["True"]):
        P.append(("rdwr:product:discover=" + d, dict(
            modes=["rdwr"], env=t2, startup=dict(rdwr=["all"]),
            vals={"on-discover": [d], "on-connect": ALL8, "on-release": ALL8},
            K=K, targets=["106A"], beep=[True, False] if full else ["default"])))
    P.append(("rdwr:startup", dict(
        modes=["rdwr"], env="t2-short",
        startup=dict(rdwr=["default", "all", "first", "last", "empty", "None",
                           "False", "with-local-target", "with-string"]),
        vals={"on-discover": SMALL if full else TF, "on-connect": TF,
              "on-release": ["True"]},
        K=K, targets=["212F", "106A"])))
    P.append(("rdwr:late-tag", dict(
        modes=["rdwr"], env="t2-late", startup=dict(rdwr=["default"]),
        vals={"on-discover": SMALL, "on-connect": SMALL,
              "on-release": ["True"]}, K=K + 1, targets=["106A", "106B"])))
    P.append(("rdwr:no-tag", dict(
        modes=["rdwr"], env="none", startup=dict(rdwr=["default", "first"]),
        vals={"on-discover": TF, "on-connect": TF, "on-release": TF},
        K=K + 1, iterations=(-1, 4 if full else 3))))
    P.append(("rdwr:unsupported", dict(
        modes=["rdwr"], env="unsup-a", startup=dict(rdwr=["default", "first",
                                                          "last"]),
        vals={"on-discover": TF, "on-connect": TF, "on-release": TF},
        K=K, targets=["106A", "106B"])))
    P.append(("rdwr:unsupported-all", dict(
        modes=["rdwr"], env="unsup-all", startup=dict(rdwr=["default", "first"]),
        vals={"on-discover": TF, "on-connect": TF, "on-release": TF},
        K=K)))
    P.append(("rdwr:no-terminate", dict(
        modes=["rdwr"], env="t2-short", startup=dict(rdwr=["default"]),
        vals={"on-discover": ["True"], "on-connect": SMALL,
              "on-release": ["True"]}, use_terminate=False)))
    # activation of a discovered tag fails once (Type 4A: RATS unanswered,
    # garbled, protocol error); the next round finds the tag normally
    P.append(("rdwr:t4a:activation", dict(
        modes=["rdwr"], env="t4a", startup=dict(rdwr=["default"]),
        vals={"on-discover": ["True", "default"], "on-connect": SMALL,
              "on-release": ["True"]}, K=K + 1, targets=["106A"])))
    # sustained outbound LLCP traffic must not keep terminate() from being seen
    P.append(("llcp:peer-target:traffic", dict(
        modes=["llcp"], env="peer-target-busy", role="initiator",
        startup=dict(llcp=["llc"]),
        vals={"on-connect": ["True"], "on-release": ["True"]}, K=K + 1,
        traffic=30)))
    # a slow reader / a short interval: one pass over the targets takes longer
    # than 'interval' (the pause between iterations must not go negative)
    for env in ("none", "t2-late"):
        P.append(("rdwr:slow-reader:" + env, dict(
            modes=["rdwr"], env=env, startup=dict(rdwr=["default"]),
            vals={"on-discover": ["True"], "on-connect": TF,
                  "on-release": ["True"]}, K=2, iterations=(2, 3),
            interval=[0, 0.001, 0.05, "default"], cost=[0, 0.025, 0.05, 0.3],
            targets=["106A", "212F"])))
    for env, role in (("peer-target", "initiator"), ("none", None)):
        P.append(("llcp:slow-reader:" + env, dict(
            modes=["llcp"], env=env, role=role, startup=dict(llcp=["llc"]),
            vals={"on-connect": TF, "on-release": ["True"]}, K=2,
            cost=[0, 0.05, 0.1, 0.3])))
    # no terminate function: only the loss of the peer can end connect()
    P.append(("card:no-terminate", dict(
        modes=["card"], env="reader", startup=dict(card=["target"]),
        vals={"on-discover": ["True"], "on-connect": SMALL,
              "on-release": ["True"]}, use_terminate=False)))
    for env, role in (("peer-init", "target"), ("peer-target", "initiator")):
        P.append(("llcp:%s:no-terminate" % env, dict(
            modes=["llcp"], env=env, role=role, startup=dict(llcp=["llc"]),
            vals={"on-connect": SMALL, "on-release": ["True"]},
            use_terminate=False)))
    P.append(("rdwr:io-in-callback", dict(
        modes=["rdwr"], env=t2, startup=dict(rdwr=["default"]),
        vals={"on-discover": ["True"], "on-connect": SMALL,
              "on-release": ["True"]}, K=K, io=True, targets=["106A"])))
    # ---- host link faults (IOError, KeyboardInterrupt) at any driver call
    faults = [("IOError", False), ("IOError", True),
              ("KeyboardInterrupt", False)]
    for kind, pers in faults:
        P.append(("rdwr:fault:%s:%s" % (kind, "persistent" if pers else "once"),
                  dict(modes=["rdwr"], env="t2" if full else "t2-short",
                       startup=dict(rdwr=["default"]),
                       vals={"on-discover": ["True"], "on-connect": TF,
                             "on-release": ["True"]}, K=K,
                       targets=["106A"],
                       fault=dict(kind=kind, budget=budget, persistent=pers))))
    # ---- card emulation
    for env in ("reader-3" if full else "reader", "reader-silent"):
        P.append(("card:%s:discover" % env, dict(
            modes=["card"], env=env, startup=dict(card=["target"]),
            vals={"on-discover": ALL8 + ["default"], "on-connect": TF,
                  "on-release": ["True"]}, K=K)))
        P.append(("card:%s:connect" % env, dict(
            modes=["card"], env=env, startup=dict(card=["target"]),
            vals={"on-discover": ["True"], "on-connect": ALL8 + ["default"],
                  "on-release": ["True", "default"]}, K=K)))
        P.append(("card:%s:release" % env, dict(
            modes=["card"], env=env, startup=dict(card=["target"]),
            vals={"on-discover": ["default"], "on-connect": ["True"],
                  "on-release": ALL8 + ["default"]}, K=K + 1)))
    for d in (ALL8 if full else ["True"]):
        P.append(("card:product:discover=" + d, dict(
            modes=["card"], env="reader", startup=dict(card=["target"]),
            vals={"on-discover": [d], "on-connect": ALL8, "on-release": ALL8},
            K=K)))
    P.append(("card:startup", dict(
        modes=["card"], env="reader",
        startup=dict(card=["default", "target", "None", "False", "x"]),
        vals={"on-discover": TF, "on-connect": TF, "on-release": ["True"]},
        K=K)))
    for env in ("reader-late", "reader-nocmd", "reader-a", "none"):
        P.append(("card:" + env, dict(
            modes=["card"], env=env,
            startup=dict(card=["target-a" if env == "reader-a" else "target"]),
            vals={"on-discover": SMALL, "on-connect": SMALL if full else TF,
                  "on-release": ["True"]}, K=K)))
    for kind, pers in faults:
        P.append(("card:fault:%s:%s" % (kind, "persistent" if pers else "once"),
                  dict(modes=["card"], env="reader",
                       startup=dict(card=["target"]),
                       vals={"on-discover": ["True"], "on-connect": TF,
                             "on-release": ["True"]}, K=K,
                       fault=dict(kind=kind, budget=budget, persistent=pers))))
    # ---- peer to peer
    for env, role in (("peer-init", "target"), ("peer-target", "initiator")):
        env3 = env + "-3" if full else env
        P.append(("llcp:%s:connect" % env, dict(
            modes=["llcp"], env=env3, role=role,
            startup=dict(llcp=["default"]),
            vals={"on-connect": ALL8 + ["default"],
                  "on-release": ["True", "default"]}, K=K)))
        P.append(("llcp:%s:release" % env, dict(
            modes=["llcp"], env=env3, role=role, startup=dict(llcp=["llc"]),
            vals={"on-connect": ["True"], "on-release": ALL8 + ["default"]},
            K=K + 1)))
        P.append(("llcp:%s:product" % env, dict(
            modes=["llcp"], env=env, role=role, startup=dict(llcp=["llc"]),
            vals={"on-connect": ALL8, "on-release": ALL8}, K=K)))
        P.append(("llcp:%s:both-roles" % env, dict(
            modes=["llcp"], env=env, role=None, startup=dict(llcp=["llc"]),
            vals={"on-connect": SMALL, "on-release": ["True", "None"]}, K=K)))
        for kind, pers in faults:
            P.append(("llcp:%s:fault:%s:%s" % (
                env, kind, "persistent" if pers else "once"), dict(
                modes=["llcp"], env=env, role=role, startup=dict(llcp=["llc"]),
                vals={"on-connect": TF, "on-release": ["True"]}, K=K,
                fault=dict(kind=kind, budget=budget, persistent=pers))))
        P.append(("llcp:%s:nomagic" % env, dict(
            modes=["llcp"], env=env + "-nomagic", role=role,
            startup=dict(llcp=["llc"]),
            vals={"on-connect": TF, "on-release": ["True"]}, K=K)))
    P.append(("llcp:startup", dict(
        modes=["llcp"], env="peer-init", role="target",
        startup=dict(llcp=["default", "llc", "None", "False", "obj"]),
        vals={"on-connect": TF, "on-release": ["True"]}, K=K)))
    P.append(("llcp:late-peer", dict(
        modes=["llcp"], env="peer-init-late", role="target",
        startup=dict(llcp=["llc"]),
        vals={"on-connect": SMALL, "on-release": ["True"]}, K=K + 1)))
    P.append(("llcp:wrong-role", dict(
        modes=["llcp"], env="peer-init", role="initiator",
        startup=dict(llcp=["llc"]),
        vals={"on-connect": TF, "on-release": ["True"]}, K=K)))
    P.append(("llcp:invalid-role", dict(
        modes=["llcp"], env="peer-init", role="invalid",
        startup=dict(llcp=["llc"]),
        vals={"on-connect": TF, "on-release": ["True"]}, K=K)))
    P.append(("llcp:no-peer", dict(
        modes=["llcp"], env="none", role=None, startup=dict(llcp=["default"]),
        vals={"on-connect": TF, "on-release": ["True"]}, K=K)))
    # a tag (no peer) is in the field while connect() looks for a peer: it
    # keeps polling and returns None when terminate() says so - whatever the
    # discovery responses of that tag look like (a Type 1 Tag has no SEL_RES)
    for env in ("t1-stay", "t2-stay", "t4a"):
        for role in (None, "initiator"):
            P.append(("llcp:tag-in-field:%s:%s" % (env, role), dict(
                modes=["llcp"], env=env, role=role, startup=dict(llcp=["default"]),
                vals={"on-connect": TF, "on-release": ["True"]}, K=K)))
    for env in ("peer-init-lto", "peer-target-lto"):
        P.append(("llcp:%s" % env, dict(
            modes=["llcp"], env=env,
            role="target" if "init" in env else "initiator",
            startup=dict(llcp=["llc"]),
            vals={"on-connect": ["True"], "on-release": ["True"]}, K=K)))
    # ---- combinations of options: every subset x what is in the field
    subsets = [["rdwr", "llcp"], ["rdwr", "card"], ["llcp", "card"],
               ["rdwr", "llcp", "card"]]
    for sub in subsets:
        for env in ("none", "t2-short", "reader", "peer-init", "peer-target"):
            st = {}
            if "rdwr" in sub:
                st['rdwr'] = ["default", "empty"] if not full else \
                    ["default", "all", "empty", "None"]
            if "llcp" in sub:
                st['llcp'] = ["default", "None"] if not full else \
                    ["default", "llc", "None", "obj"]
            if "card" in sub:
                st['card'] = ["target", "default"] if not full else \
                    ["target", "default", "False"]
            P.append(("mix:%s:%s" % ("+".join(sub), env), dict(
                modes=sub, env=env, startup=st,
                vals={"on-discover": ["True", "default"] if not full else
                      ["True", "False", "default"],
                      "on-connect": TF if not full else ALL8,
                      "on-release": ["True", "None"] if not full else SMALL},
                K=2 if not full else 3, targets=["106A"])))
    # a host link fault while several options are active
    for env in ("t2-short", "reader", "peer-init", "peer-target"):
        for kind, pers in (faults if full else faults[:1]):
            P.append(("mix:all:%s:fault:%s:%s" % (
                env, kind, "persistent" if pers else "once"), dict(
                modes=["rdwr", "llcp", "card"], env=env,
                startup=dict(rdwr=["default"], llcp=["default"],
                             card=["target"]),
                vals={"on-discover": ["True"], "on-connect": TF,
                      "on-release": ["True"]}, K=2, targets=["106A"],
                fault=dict(kind=kind, budget=budget + 15, persistent=pers))))
    if full:
        for env in ("t2-stay", "t2-late"):
            P.append(("rdwr:product:" + env, dict(
                modes=["rdwr"], env=env, startup=dict(rdwr=["all"]),
                vals={"on-discover": SMALL, "on-connect": ALL8,
                      "on-release": ALL8}, K=K, targets=["106A"])))
        for env in ("reader-silent", "reader-late", "reader-3"):
            P.append(("card:product:" + env, dict(
                modes=["card"], env=env, startup=dict(card=["target"]),
                vals={"on-discover": SMALL, "on-connect": ALL8,
                      "on-release": ALL8}, K=K)))
        for env, role in (("peer-init-3", "target"), ("peer-target-3", None),
                          ("peer-init-late", None)):
            P.append(("llcp:product:" + env, dict(
                modes=["llcp"], env=env, role=role, startup=dict(llcp=["llc"]),
                vals={"on-connect": ALL8, "on-release": ALL8}, K=K + 1)))
    P.append(("none:no-options", dict(modes=[], env="t2-short", K=1)))
    return P


def sense_partitions(tier):
    P = []
    full = tier == "thorough"
    its = [None, -1, 0, 1, 2, 3] if full else [None, 0, 1, 2]
    P.append(("sense:0", "sense_scn", dict(n=0, iters=its)))
    P.append(("sense:1", "sense_scn", dict(n=1, iters=its)))
    for k in SENSE_KINDS:
        P.append(("sense:2:" + k, "sense_scn", dict(n=2, first=k, iters=its)))
    reduced = ["A", "F", "DEP", "A-unsup", "X", "A-commerr", "A-badsel"]
    for k in (SENSE_KINDS if full else reduced):
        P.append(("sense:3:" + k, "sense_scn", dict(
            n=3, first=k, kindset=SENSE_KINDS if full else reduced,
            iters=[None, 0, 2, 3] if full else [None, 2])))
    for n in (1, 2, 3):
        P.append(("sense:slow-reader:%d" % n, "sense_scn", dict(
            n=n, kindset=["A", "F", "DEP", "A-commerr", "A-unsup"] if n < 3
            else ["A", "F", "A-commerr"], iters=[2, 3], slow=True)))
    for n in (1, 2):
        P.append(("sense:tta-response:%d" % n, "sense_tta_response_scn",
                  dict(n=n)))
    for k in LISTEN_KINDS:
        P.append(("listen:" + k, "listen_scn", dict(kind=k)))
    for f in FIRST_OPS:
        P.append(("stale:" + f, "stale_scn", dict(first=f)))
    P.append(("lifecycle", "lifecycle_scn", {}))
    return P


def partitions(tier):
    parts = []
    for name, params in connect_partitions(tier):
        parts.append(dict(name="connect:" + name, fn="connect_scn", params=params))
    for name, fn, params in sense_partitions(tier):
        parts.append(dict(name=name, fn=fn, params=params))
    return parts


MUST_REACH = ["callback_lock_state_looked_at", "connect:false:IOError", "connect:false:KeyboardInterrupt",
              "connect:false:unsupported", "connect:iterations-counted",
              "connect:none:no-options", "connect:none:terminated",
              "connect:true:default-callbacks"] + \
    ["connect:peer-lost:" + m for m in ("rdwr", "llcp", "card")] + \
    ["connect:activation-failed", "sense:pass-longer-than-interval",
     "connect:sense-pass-longer-than-interval"] + \
    ["connect:%s:%s" % (w, m) for w in ("object", "released")
     for m in ("rdwr", "llcp", "card")] + \
    ["sense:0", "sense:1", "sense:2", "sense:3",
              "tta-response-accepted", "tta-response-rejected",
              "stale:sense", "stale:listen", "lifecycle"] + \
    ["listen:" + k for k in LISTEN_KINDS]

_B = (
    "connect(): option sets {rdwr}, {llcp}, {card}, every 2- and 3-subset and "
    "the empty set; on-startup per option not supplied / conforming result "
    "(the list, its first or last element; the llc; the prepared 212F or 106A "
    "target) / [], None, False, foreign object; on-discover, on-connect, "
    "on-release each not supplied or returning one of True, False, None, 0, 1, "
    "'', 'x', object(): one callback at a time over all 8 values with the "
    "others from small sets, plus the product on-connect x on-release (8x8) "
    "per mode%(prod)s; repeated calls return True/False; terminate() absent or "
    "monotone, turning true at poll 0..%(K)d (picked lazily at every poll); "
    "beep-on-connect absent/True/False; rdwr 'iterations' SYMBOLIC in "
    "-1..%(it)d with 1-3 targets; llcp role absent/initiator/target/'invalid'. "
    "Environments (every decision picked at the moment the code asks): empty "
    "field; generic Type 2 Tag (SYMBOLIC 16 byte memory image and NAK byte) "
    "present at once or after one sense round, vanishing at presence check "
    "0..%(rd)d by silence / NAK / CRC error, or outliving terminate; minimal "
    "Type 4A Tag whose first RATS is answered / unanswered / garbled / a "
    "protocol error (activation fault; found again in the next round); driver "
    "raising UnsupportedTargetError for Type A or for everything; reader that "
    "activates the emulated Type 3 Tag at once or after one idle listen, sends "
    "0..%(rd)d polling/request-response commands mixed with silent periods, "
    "then leaves (BrokenLinkError) or stays silent for ever; reader without a "
    "first command and Type A reader (nothing to emulate); NFC-DEP/LLCP peer "
    "as initiator or as 212F passive target, 0..%(rd)d SYMM exchanges then "
    "silence / DSL_REQ / LLCP DISC, wrong LLCP magic, an application that "
    "queues 30 UI datagrams in on-connect against a peer answering SYMM "
    "throughout (sustained outbound traffic), connect() without terminate "
    "function in every mode (only the loss of the peer ends it), peer link timeout "
    "SYMBOLIC 10..2550 ms (MonoFloat deadlines) in two partitions; one "
    "host-link fault (IOError once, IOError from then on, KeyboardInterrupt) "
    "at any of the first %(fb)d driver calls.  sense(): 0..3 targets out of "
    "10 kinds (A, B, F, DEP; driver-unsupported A/F; unknown technology "
    "'999X'; 5 byte sel_req; 15 byte atr_req; driver CommunicationError)"
    "%(s3)s, iterations %(its)s with interval 0.5 s on the virtual clock, the "
    "answering (round, target) slot any or none; Type A discovery response "
    "SYMBOLIC (SENS_RES 1..3 bytes, RID_RES absent/5/6 bytes); listen(): "
    "DEP/A/B/F/unknown brty x activated/not/UnsupportedTargetError/"
    "ValueError, ATR_REQ of 15/16/64/65 bytes; exchange() after each with "
    "SYMBOLIC answer; 6 first x 12 failing second operations (stale target); "
    "open (found / not found), close/__exit__/with/re-open with and without "
    "driver close() failing, all 8 operations on a frontend without device.  "
    "Apart from the data marked SYMBOLIC everything is control-flow "
    "enumeration (sx.pick): the claim is about call histories, not data.")
BOUNDS = {
    "quick": _B % dict(prod="", K=3, it=3, rd=2, fb=30, its="absent/0/1/2",
                       s3=" (7 kinds for 3 targets)"),
    "thorough": _B % dict(prod=" and the full 8x8x8 product with on-discover "
                          "for rdwr and card", K=4, it=4, rd=3, fb=45,
                          its="absent/-1/0/1/2/3", s3=""),
}
_LATER = ("; added later: the state of the frontend lock at every callback; on-startup results that are lists with foreign members; "
          "connect(llcp) with a Type 1 / Type 2 / Type 4A tag staying in the field")
BOUNDS = dict((k, v + _LATER) for k, v in BOUNDS.items())
OUTSIDE = [
    "tags other than a generic (non-NXP) Type 2 Tag: Type 1/3/4 and NXP activation sequences belong to C08; tag I/O inside callbacks beyond one presence check",
    "LLCP traffic other than SYMM/DISC, DID/NAD, 106A framing and active communication mode of the peer, bit rates other than the default PSL, LLCP data protection (OpenSSL not loadable here)",
    "callbacks that raise or re-enter the frontend; terminate() that is not monotone or raises",
    "on-startup results that are true but not lists/llc/LocalTarget beyond the listed ones (e.g. 1: TypeError is neither documented nor excluded)",
    "positional arguments of sense() that are not RemoteTarget objects; non-dictionary option values",
    "the default rdwr on-discover's peer-to-peer filter (needs a Type 4A+DEP target)",
    "options that are only passed through (card 'timeout'; llcp brs/acm/rwt/lri/lrt/miu/lto/agf/sec)",
    "real time and real threads (virtual clock; one thread)",
    "more than 3 targets, more than 3 sense rounds, more exchanges/polls than the stated bounds",
]
ASSUMPTIONS = [
    "the contract is the docstring of connect()/sense()/listen()/exchange(); a true on-connect means connect() returns True after on-release for all three modes (stated for rdwr, asserted by the repository's tests for llcp and card)",
    "env.recdevice: RecDevice and its scripts behave as nfc.clf.device.Device documents a driver (target invalid after mute/sense/listen, UnsupportedTargetError for unsupported discovery, TimeoutError when nothing answers, TransmissionError for a garbled answer, BrokenLinkError when the reader leaves)",
    "Type A response oracle: SENS_RES has 2 bytes; SDD bits 0 => byte 2 low nibble 1100b and a 6 byte RID_RES with HR0 high nibble 0001b (NFC Forum Digital; the same rules sense_tta names in its messages)",
    "an ATR_REQ outside 16..64 bytes reported by the driver is not an activation (NFC-DEP frame limits)",
    "clf.lock is replaced by env.recdevice.GuardLock (same semantics, raises instead of blocking when acquired while held in the single harness thread)",
    "the host-link fault model: IOError(ENODEV) or KeyboardInterrupt raised at the entry of one driver method",
]
