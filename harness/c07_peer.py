"""C07 - bytes from the remote peer cannot crash or hang the stack.

One partition family per entry point where the peer speaks.  The input is a
symbolic byte string of every length 0..N and, for the longer formats, a valid
header followed by a symbolic tail.  Oracle: the set of exception types each
entry point documents; anything else that leaves the entry point is a
violation labelled `uncaught:<Type>@<module>:<function>[<entry point>]`; a call
that reaches Condition.wait() without time-out inside the link thread is
`blocks-link-thread:<entry point>`; an environment call bound exceeded is
`endless-loop:<entry point>`.
"""
import nfc.clf
import nfc.dep
import nfc.llcp.pdu as pdu
from symx.runner import exc_label
from env import peer as envp

PROPERTY = "C07"


def reset(sx):
    pass


def guarded(sx, entry, allowed, fn, *args, **kw):
    """-> ('ok', result) | ('exc', name of an allowed exception type).  Every
    other Exception is a violation whose label names type, raising function
    and entry point (the same oracle as the runner's automatic one, with the
    entry point appended so that equally named decode() methods differ)."""
    try:
        return 'ok', fn(*args, **kw)
    except allowed as e:
        return 'exc', type(e).__name__
    except RecursionError:
        sx.check(False, "unbounded-recursion:" + entry)
    except Exception as e:
        label = exc_label(e)
        if label.endswith("@?"):
            raise                   # raised by harness / environment code
        sx.check(False, "%s[%s]" % (label, entry))


# ----------------------------------------------------------------------------
# (1) nfc.llcp.pdu.decode
# ----------------------------------------------------------------------------
NAMES = ["SYMM", "PAX", "AGF", "UI", "CONNECT", "DISC", "CC", "DM", "FRMR",
         "SNL", "DPS", "1011", "I", "RR", "RNR", "1111"]


def fix_ptype(sx, data, ptype):
    if len(data) >= 2 and ptype is not None:
        sx.assume(sx.all([(data[0] & 3) == (ptype >> 2),
                          (data[1] >> 6) == (ptype & 3)]),
                  "ptype nibble fixed per partition")


def decode_and_show(sx, data, entry):
    st, q = guarded(sx, entry, (pdu.DecodeError,), pdu.decode, data)
    if st == 'exc':
        sx.reach("pdu:decode-error")
        return "DecodeError"
    sx.reach("pdu:decoded")
    # what the run loop does with every PDU at debug level (and always for the
    # PDUs inside an aggregate): text form and length
    guarded(sx, entry + ".str", (), str, q)
    guarded(sx, entry + ".len", (), len, q)
    return type(q).__name__


def pdu_decode(sx, n, ptype):
    data = sx.bytes("d", n)
    fix_ptype(sx, data, ptype)
    return decode_and_show(sx, data, "pdu.decode")


def pdu_agf(sx, sizes):
    """aggregate of sub-PDUs with symbolic bytes; a length field may also be
    symbolic (last entry 'L': two symbolic length bytes + the rest)"""
    body = []
    for i, n in enumerate(sizes):
        if n == "L":
            body += list(sx.bytes("len%d" % i, 2))
            continue
        body += [n >> 8, n & 255] + list(sx.bytes("s%d" % i, n))
    frame = sx.mkbytes([0x00, 0x80] + body, False)
    return decode_and_show(sx, frame, "pdu.decode:agf")


def nested_agf(depth, inner):
    p = list(inner)
    for i in range(depth):
        p = [0x00, 0x80, len(p) >> 8, len(p) & 255] + p
    return p


def pdu_agf_nested(sx, depth, inner_len):
    """AGF inside AGF inside ... (concrete nesting; the innermost PDU symbolic
    for shallow nesting, SYMM for deep nesting).  depth 543 around a 2 byte
    PDU is a frame of 2174 octets, within the largest information field an
    LLC can announce (MIU 2175)."""
    if depth <= 3:
        frame = sx.mkbytes(nested_agf(depth, sx.bytes("inner", inner_len)), False)
    else:
        frame = bytes(bytearray(nested_agf(depth, [0] * inner_len)))
    r = decode_and_show(sx, frame, "pdu.decode:nested-agf")
    sx.reach("pdu:nested-agf-decoded" if r != "DecodeError" else "pdu:nested-agf-rejected")
    return [r, len(frame)]


# ----------------------------------------------------------------------------
# (2) nfc.dep - frame and PDU decoding
# ----------------------------------------------------------------------------
COMM = (nfc.clf.CommunicationError,)
DEP_PDU = {"ATR_REQ": nfc.dep.ATR_REQ, "ATR_RES": nfc.dep.ATR_RES,
           "PSL_REQ": nfc.dep.PSL_REQ, "PSL_RES": nfc.dep.PSL_RES,
           "DEP_REQ": nfc.dep.DEP_REQ, "DEP_RES": nfc.dep.DEP_RES,
           "DSL_REQ": nfc.dep.DSL_REQ, "DSL_RES": nfc.dep.DSL_RES,
           "RLS_REQ": nfc.dep.RLS_REQ, "RLS_RES": nfc.dep.RLS_RES}


def describe_dep(sx, entry, p):
    if p is None:
        return None
    guarded(sx, entry + ".str", (), str, p)
    return type(p).__name__


def dep_pdu_decode(sx, cls, n, header):
    """<cls>.decode(data): data = the class' two code bytes (header) or not,
    then symbolic bytes"""
    k = DEP_PDU[cls]
    if header:
        data = sx.mkbytes(list(k.PDU_CODE) + list(sx.bytes("d", n)), True)
    else:
        data = sx.bytes("d", n, mutable=True)
    entry = "dep.%s.decode" % cls
    st, p = guarded(sx, entry, COMM, k.decode, data)
    if st == 'exc':
        sx.reach("dep:pdu-protocol-error")
        return p
    sx.reach("dep:pdu-decoded" if p is not None else "dep:pdu-not-mine")
    return describe_dep(sx, entry, p)


def dep_role(role, brty):
    d = nfc.dep.Initiator(clf=None) if role == "Initiator" else nfc.dep.Target(clf=None)
    d.target = nfc.clf.RemoteTarget(brty) if role == "Initiator" \
        else nfc.clf.LocalTarget(brty)
    return d


def dep_frame(sx, role, brty, shape, n):
    """decode_frame(frame); shape 'raw': n symbolic bytes; otherwise the name
    of a PDU: correct start byte, length byte and code bytes, n symbolic
    bytes behind them"""
    d = dep_role(role, brty)
    if shape == "raw":
        frame = sx.bytes("f", n, mutable=True)
    else:
        body = list(DEP_PDU[shape].PDU_CODE) + list(sx.bytes("f", n))
        frame = sx.mkbytes(([0xF0] if brty == "106A" else []) +
                           [len(body) + 1] + body, True)
    entry = "dep.%s.decode_frame" % role
    st, p = guarded(sx, entry, COMM, d.decode_frame, frame)
    if st == 'exc':
        sx.reach("dep:frame-error")
        return p
    sx.reach("dep:frame-decoded")
    return describe_dep(sx, entry, p)


# ----------------------------------------------------------------------------
# (4) Type 3 Tag emulation
# ----------------------------------------------------------------------------
IDM = [0x02, 0xFE, 0x01, 0x02, 0x03, 0x04, 0x05, 0x06]
PMM = [0xFF] * 8


def tt3_emulation(sx, clf=None):
    from env import tags
    mem = [0x10, 0x04, 0x04, 0x00, 0x05, 0, 0, 0, 0, 0, 0x01, 0, 0, 0, 0, 0x1E] + \
        [(7 * i) & 255 for i in range(16 * 5)]
    sim = tags.Tt3EmuSim(mem, IDM, PMM)
    emu = sim.emu
    emu.clf = clf
    emu.services = envp.SymKeyDict(sx, emu.services)
    return sim, emu


def tt3_result(sx, entry, rsp):
    """bytes (with a correct length byte) or None"""
    if rsp is None:
        sx.reach("tt3:ignored")
        return None
    sx.reach("tt3:answered")
    sx.check(envp.is_bytes(rsp), "not-bytes:" + entry)
    sx.check(len(rsp) >= 2 and rsp[0] == len(rsp), "response-length-byte-wrong:" + entry)
    return len(rsp)


def tt3_command(sx, shape, n):
    """process_command(cmd); shape 'raw': n symbolic bytes; otherwise the
    command code: correct length byte, code, the emulation's IDm, n symbolic
    bytes"""
    sim, emu = tt3_emulation(sx)
    if shape == "raw":
        cmd = sx.bytes("c", n, mutable=True)
    else:
        body = [int(shape, 16)] + IDM + list(sx.bytes("c", n))
        cmd = sx.mkbytes([len(body) + 1] + body, True)
    entry = "tt3.process_command"
    st, rsp = guarded(sx, entry, (), emu.process_command, cmd)
    return tt3_result(sx, entry, rsp)


def tt3_rw(sx, code, nserv, nblk, tail):
    """read/write without encryption with a well-formed service list of nserv
    symbolic service codes, a block count byte, nblk symbolic block list
    bytes and `tail` symbolic bytes of data"""
    sim, emu = tt3_emulation(sx)
    # the block count and the first byte of a block list element become list
    # extents / list indices in the emulation: boundary sets; all else symbolic
    nblocks = sx.pick("nblocks", [0, 1, 2, 3, 15, 16, 255])
    bl = list(sx.bytes("bl", nblk))
    pos, i = 0, 0
    while pos < nblk:
        bl[pos] = sx.pick("bl0.%d" % i, [0x80, 0x00, 0x81, 0x01, 0x8F])
        pos += 2 if bl[pos] >= 128 else 3
        i += 1
    body = [code] + IDM + [nserv] + list(sx.bytes("sc", 2 * nserv)) + \
        [nblocks] + bl + list(sx.bytes("data", tail))
    cmd = sx.mkbytes([len(body) + 1] + body, True)
    entry = "tt3.process_command"
    st, rsp = guarded(sx, entry, (), emu.process_command, cmd)
    return tt3_result(sx, entry, rsp)


def tt3_dialog(sx, lens):
    """the command loop of connect(card=...): first command as delivered by
    listen() (tag.cmd), then send_response() returns the next command"""
    clf = envp.ScriptClf(sx)
    sim, emu = tt3_emulation(sx, clf)
    cmds = [sx.bytes("c%d" % i, n, mutable=True) for i, n in enumerate(lens)]
    clf.script = list(cmds[1:])
    cmd = cmds[0]
    out = []
    while True:
        st, rsp = guarded(sx, "tt3.process_command", (), emu.process_command, cmd)
        out.append(tt3_result(sx, "tt3.process_command", rsp))
        st, cmd = guarded(sx, "tt3.send_response", COMM, emu.send_response, rsp, 0.1)
        if st == 'exc':
            break
    sx.reach("tt3:dialog-ended")
    return out


# ----------------------------------------------------------------------------
def partitions(tier):
    P = []
    quick = tier == "quick"
    add = lambda name, fn, **kw: P.append(dict(name=name, fn=fn, params=kw))
    # (1) pdu.decode
    nmax = 6 if quick else 9
    for n in range(0, nmax + 1):
        if n < 2:
            add("pdu:%d" % n, "pdu_decode", n=n, ptype=None)
            continue
        for t in range(16):
            add("pdu:%d:%s" % (n, NAMES[t]), "pdu_decode", n=n, ptype=t)
    sizes = [[2, 2], [3, 2], [4, 3], [2, 2, 2], [5, 2], [2, "L"], ["L"], [3, "L"]]
    if not quick:
        sizes += [[4, 4], [6, 3], [3, 3, 3], [2, 4, 3], [7, 2], [4, "L"], [2, 2, "L"]]
    for s in sizes:
        add("agf:" + "+".join(map(str, s)), "pdu_agf", sizes=s)
    for depth, inner in ((1, 2), (2, 2), (2, 3), (3, 2), (50, 2), (200, 2), (543, 2)):
        add("agf-nested:%d:%d" % (depth, inner), "pdu_agf_nested", depth=depth,
            inner_len=inner)
    # (2) dep decode
    for cls in sorted(DEP_PDU):
        top = 19 if cls.startswith("ATR") else (5 if quick else 7)
        for n in range(0, top + 1):
            add("dep-pdu:%s:%d" % (cls, n), "dep_pdu_decode", cls=cls, n=n, header=True)
        for n in range(0, 4):
            add("dep-pdu:%s:raw%d" % (cls, n), "dep_pdu_decode", cls=cls, n=n, header=False)
    for role in ("Initiator", "Target"):
        for brty in ("106A", "212F"):
            for n in range(0, (6 if quick else 8) + 1):
                add("dep-frame:%s:%s:raw:%d" % (role, brty, n), "dep_frame",
                    role=role, brty=brty, shape="raw", n=n)
            sfx = "_RES" if role == "Initiator" else "_REQ"
            for name in ("ATR", "PSL", "DEP", "DSL", "RLS"):
                ns = list(range(0, 5 if quick else 7))
                if name == "ATR":
                    ns = [0, 1, 9, 13, 14, 15, 16, 17] if quick else list(range(0, 20))
                for n in ns:
                    add("dep-frame:%s:%s:%s:%d" % (role, brty, name, n), "dep_frame",
                        role=role, brty=brty, shape=name + sfx, n=n)
    # (4) type 3 tag emulation
    for n in range(0, (6 if quick else 8) + 1):
        add("tt3:raw:%d" % n, "tt3_command", shape="raw", n=n)
    for code in ("04", "06", "08", "0C", "0A"):
        for n in range(0, (4 if quick else 6) + 1):
            add("tt3:%s:%d" % (code, n), "tt3_command", shape=code, n=n)
    for code in (6, 8):
        for nserv, nblk, tail in ((1, 0, 0), (1, 1, 0), (1, 2, 0), (1, 3, 0), (2, 2, 0),
                                  (1, 2, 16), (1, 3, 16), (1, 4, 17), (2, 5, 32)):
            if code == 6 and tail:
                continue
            add("tt3-rw:%02x:%d:%d:%d" % (code, nserv, nblk, tail), "tt3_rw",
                code=code, nserv=nserv, nblk=nblk, tail=tail)
    for lens in ([6, 6], [6, 0], [6, 1], [10, 10], [6, 12, 3]):
        add("tt3-dialog:" + "+".join(map(str, lens)), "tt3_dialog", lens=lens)
    return P


MUST_REACH = ["pdu:decode-error", "pdu:decoded", "pdu:nested-agf-decoded",
              "dep:pdu-protocol-error", "dep:pdu-decoded", "dep:pdu-not-mine",
              "dep:frame-error", "dep:frame-decoded",
              "tt3:ignored", "tt3:answered", "tt3:dialog-ended"]
BOUNDS = {"quick": "", "thorough": ""}
OUTSIDE = []
ASSUMPTIONS = []
