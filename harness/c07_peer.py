"""C07 - bytes from the remote peer cannot crash or hang the stack.

One partition family per entry point where the peer speaks.  The input is a
symbolic byte string of every length 0..N and, for the longer formats, a valid
header followed by a symbolic tail.  Oracle: the set of exception types each
entry point documents; anything else that leaves the entry point is a
violation labelled `uncaught:<Type>@<module>:<function>[<entry point>]`; a call
that reaches Condition.wait() without time-out inside the link thread is
`blocks-for-ever@<module>:<function>[<entry point>]`; an environment call bound exceeded is
`endless-loop:<entry point>`.
"""
import nfc.clf
import nfc.dep
import nfc.llcp.pdu as pdu
from symx.runner import exc_label
from symx import envpatch
from env import peer as envp
from env import llcp as envl

PROPERTY = "C07"


def reset(sx):
    """every path starts with this harness' default environment: env.llcp's
    Condition for the LLCP modules (the blocked-application family switches to
    env.coop for its own paths), the real threading for the server modules"""
    import threading
    import nfc.snep.server
    import nfc.handover.server
    envl.install()
    nfc.snep.server.threading = threading
    nfc.handover.server.threading = threading


def choose(sx, name, v):
    """a parameter given as a list is drawn per path"""
    return sx.pick(name, v) if isinstance(v, list) else v


def guarded(sx, entry, allowed, fn, *args, **kw):
    """-> ('ok', result) | ('exc', name of an allowed exception type).  Every
    other Exception is a violation whose label names type, raising function
    and entry point (the same oracle as the runner's automatic one, with the
    entry point appended so that equally named decode() methods differ)."""
    try:
        return 'ok', fn(*args, **kw)
    except allowed as e:
        return 'exc', type(e).__name__
    except RecursionError:
        sx.check(False, "unbounded-recursion:" + entry)
    except envl.WouldBlock as e:
        # Condition.wait() without time-out in the calling (link) thread
        sx.check(False, exc_label(e).replace("uncaught:WouldBlock", "blocks-for-ever")
                 + "[%s]" % entry)
    except Exception as e:
        label = exc_label(e)
        if label.endswith("@?"):
            raise                   # raised by harness / environment code
        sx.check(False, "%s[%s]" % (label, entry))


# ----------------------------------------------------------------------------
# (1) nfc.llcp.pdu.decode
# ----------------------------------------------------------------------------
NAMES = ["SYMM", "PAX", "AGF", "UI", "CONNECT", "DISC", "CC", "DM", "FRMR",
         "SNL", "DPS", "1011", "I", "RR", "RNR", "1111"]


def fix_ptype(sx, data, ptype):
    if len(data) >= 2 and ptype is not None:
        sx.assume(sx.all([(data[0] & 3) == (ptype >> 2),
                          (data[1] >> 6) == (ptype & 3)]),
                  "ptype nibble fixed per partition")


def decode_and_show(sx, data, entry):
    st, q = guarded(sx, entry, (pdu.DecodeError,), pdu.decode, data)
    if st == 'exc':
        sx.reach("pdu:decode-error")
        return "DecodeError"
    sx.reach("pdu:decoded")
    # what the run loop does with every PDU at debug level (and always for the
    # PDUs inside an aggregate): text form and length
    guarded(sx, entry + ".str", (), str, q)
    guarded(sx, entry + ".len", (), len, q)
    return type(q).__name__


def pdu_decode(sx, n, ptype):
    n = choose(sx, "n", n)
    data = sx.bytes("d", n)
    fix_ptype(sx, data, ptype)
    return decode_and_show(sx, data, "pdu.decode")


def pdu_agf(sx, sizes):
    """aggregate of sub-PDUs with symbolic bytes; a length field may also be
    symbolic (last entry 'L': two symbolic length bytes + the rest)"""
    body = []
    for i, n in enumerate(sizes):
        if n == "L":
            body += list(sx.bytes("len%d" % i, 2))
            continue
        body += [n >> 8, n & 255] + list(sx.bytes("s%d" % i, n))
    frame = sx.mkbytes([0x00, 0x80] + body, False)
    return decode_and_show(sx, frame, "pdu.decode:agf")


def nested_agf(depth, inner):
    p = list(inner)
    for i in range(depth):
        p = [0x00, 0x80, len(p) >> 8, len(p) & 255] + p
    return p


def pdu_agf_nested(sx, depth, inner_len):
    """AGF inside AGF inside ... (concrete nesting; the innermost PDU symbolic
    for shallow nesting, SYMM for deep nesting).  depth 543 around a 2 byte
    PDU is a frame of 2174 octets, within the largest information field an
    LLC can announce (MIU 2175)."""
    if depth <= 3:
        frame = sx.mkbytes(nested_agf(depth, sx.bytes("inner", inner_len)), False)
    else:
        frame = bytes(bytearray(nested_agf(depth, [0] * inner_len)))
    r = decode_and_show(sx, frame, "pdu.decode:nested-agf")
    sx.reach("pdu:nested-agf-done")
    return [r, len(frame)]


# ----------------------------------------------------------------------------
# (2) nfc.dep - frame and PDU decoding
# ----------------------------------------------------------------------------
COMM = (nfc.clf.CommunicationError,)
DEP_PDU = {"ATR_REQ": nfc.dep.ATR_REQ, "ATR_RES": nfc.dep.ATR_RES,
           "PSL_REQ": nfc.dep.PSL_REQ, "PSL_RES": nfc.dep.PSL_RES,
           "DEP_REQ": nfc.dep.DEP_REQ, "DEP_RES": nfc.dep.DEP_RES,
           "DSL_REQ": nfc.dep.DSL_REQ, "DSL_RES": nfc.dep.DSL_RES,
           "RLS_REQ": nfc.dep.RLS_REQ, "RLS_RES": nfc.dep.RLS_RES}


def describe_dep(sx, entry, p):
    if p is None:
        return None
    guarded(sx, entry + ".str", (), str, p)
    return type(p).__name__


def dep_pdu_decode(sx, cls, n, header):
    """<cls>.decode(data): data = the class' two code bytes (header) or not,
    then symbolic bytes"""
    k = DEP_PDU[cls]
    n = choose(sx, "n", n)
    if header:
        data = sx.mkbytes(list(k.PDU_CODE) + list(sx.bytes("d", n)), True)
    else:
        data = sx.bytes("d", n, mutable=True)
    entry = "dep.%s.decode" % cls
    st, p = guarded(sx, entry, COMM, k.decode, data)
    if st == 'exc':
        sx.reach("dep:pdu-protocol-error")
        return p
    sx.reach("dep:pdu-decoded" if p is not None else "dep:pdu-not-mine")
    return describe_dep(sx, entry, p)


def dep_role(role, brty):
    d = nfc.dep.Initiator(clf=None) if role == "Initiator" else nfc.dep.Target(clf=None)
    d.target = nfc.clf.RemoteTarget(brty) if role == "Initiator" \
        else nfc.clf.LocalTarget(brty)
    return d


def dep_frame(sx, role, brty, shape, n):
    """decode_frame(frame); shape 'raw': n symbolic bytes; otherwise the name
    of a PDU: correct start byte, length byte and code bytes, n symbolic
    bytes behind them"""
    d = dep_role(role, brty)
    n = choose(sx, "n", n)
    if shape == "raw":
        frame = sx.bytes("f", n, mutable=True)
    else:
        body = list(DEP_PDU[shape].PDU_CODE) + list(sx.bytes("f", n))
        frame = sx.mkbytes(([0xF0] if brty == "106A" else []) +
                           [len(body) + 1] + body, True)
    entry = "dep.%s.decode_frame" % role
    st, p = guarded(sx, entry, COMM, d.decode_frame, frame)
    if st == 'exc':
        sx.reach("dep:frame-error")
        return p
    sx.reach("dep:frame-decoded")
    return describe_dep(sx, entry, p)


# ----------------------------------------------------------------------------
# (4) Type 3 Tag emulation
# ----------------------------------------------------------------------------
IDM = [0x02, 0xFE, 0x01, 0x02, 0x03, 0x04, 0x05, 0x06]
PMM = [0xFF] * 8


def tt3_emulation(sx, clf=None):
    from env import tags
    mem = [0x10, 0x04, 0x04, 0x00, 0x05, 0, 0, 0, 0, 0, 0x01, 0, 0, 0, 0, 0x1E] + \
        [(7 * i) & 255 for i in range(16 * 5)]
    sim = tags.Tt3EmuSim(mem, IDM, PMM)
    emu = sim.emu
    emu.clf = clf
    emu.services = envp.SymKeyDict(sx, emu.services)
    return sim, emu


def tt3_result(sx, entry, rsp):
    """bytes (with a correct length byte) or None"""
    if rsp is None:
        sx.reach("tt3:ignored")
        return None
    sx.reach("tt3:answered")
    sx.check(envp.is_bytes(rsp), "not-bytes:" + entry)
    sx.check(len(rsp) >= 2 and rsp[0] == len(rsp), "response-length-byte-wrong:" + entry)
    return len(rsp)


def tt3_command(sx, shape, n):
    """process_command(cmd); shape 'raw': n symbolic bytes; otherwise the
    command code: correct length byte, code, the emulation's IDm, n symbolic
    bytes"""
    sim, emu = tt3_emulation(sx)
    n = choose(sx, "n", n)
    if shape == "raw":
        cmd = sx.bytes("c", n, mutable=True)
    else:
        body = [int(shape, 16)] + IDM + list(sx.bytes("c", n))
        cmd = sx.mkbytes([len(body) + 1] + body, True)
    entry = "tt3.process_command"
    wrong_len = True if len(cmd) == 0 else cmd[0] != len(cmd)
    st, rsp = guarded(sx, entry, (), emu.process_command, cmd)
    # a frame whose length byte does not match is not a command
    sx.check(sx.implies(wrong_len, rsp is None), "wrong-length-command-answered:" + entry)
    return tt3_result(sx, entry, rsp)


def tt3_rw(sx, code, nserv, nblk, tail):
    """read/write without encryption with a well-formed service list of nserv
    symbolic service codes, a block count byte, nblk symbolic block list
    bytes and `tail` symbolic bytes of data"""
    sim, emu = tt3_emulation(sx)
    # the block count and the first byte of a block list element become list
    # extents / list indices in the emulation: boundary sets; all else symbolic
    nblocks = sx.pick("nblocks", [0, 1, 2, 3, 15, 16, 255])
    bl = list(sx.bytes("bl", nblk))
    pos, i = 0, 0
    while pos < nblk:
        bl[pos] = sx.pick("bl0.%d" % i, [0x80, 0x00, 0x81, 0x01, 0x8F])
        pos += 2 if bl[pos] >= 128 else 3
        i += 1
    body = [code] + IDM + [nserv] + list(sx.bytes("sc", 2 * nserv)) + \
        [nblocks] + bl + list(sx.bytes("data", min(tail, 2))) + \
        [(0x55 + 7 * j) & 255 for j in range(2, tail)]
    cmd = sx.mkbytes([len(body) + 1] + body, True)
    entry = "tt3.process_command"
    st, rsp = guarded(sx, entry, (), emu.process_command, cmd)
    return tt3_result(sx, entry, rsp)


SERVICE_LISTS = [[0x0009], [0x000B], [0x0009, 0x000B], [0x000B, 0x1234]]


def tt3_blocks(sx, code, n, forms, data):
    """well-formed READ (06h) / WRITE (08h) WITHOUT ENCRYPTION for the
    emulation's IDm: service list drawn from registered / unregistered codes,
    block list of n elements in 2 byte or 3 byte form (pattern `forms`), every
    block number symbolically inside or outside the tag memory (the service
    handlers accept the former and reject the latter), the service list order nibble symbolic at
    the first, ninth and last element; writes carry n*16 data octets ('full'),
    one octet less ('odd'), one block less ('short') or none"""
    sim, emu = tt3_emulation(sx)
    services = sx.pick("services", SERVICE_LISTS)
    form = sx.pick("forms", forms)
    body = [code] + IDM + [len(services)]
    for sc in services:
        body += [sc & 255, sc >> 8]
    body.append(n)
    for i in range(n):
        two = form == "2" or (form == "mixed" and i % 3 != 2)
        order = sx.int("e%d.order" % i, 0, 15) if i in (0, 8, n - 1) else i % len(services)
        head = (0x80 if two else 0x00) | order
        # block number: symbolically inside (block i mod 6) or outside the
        # tag memory (the handlers turn an accepted number into slice bounds)
        low = sx.ite(sx.flag("e%d.inside" % i), i % 6, 0xC8)
        if two:
            body += [head, low]
        else:
            body += [head, low, sx.ite(sx.flag("e%d.high" % i), 1, 0)]
    if code == 8:
        kind = sx.pick("data", data)
        size = dict(full=16 * n, odd=16 * n - 1, short=16 * (n - 1), none=0)[kind]
        if len(body) + 1 + size > 255:
            size = 16 * ((254 - len(body)) // 16)   # as much as a frame can carry
        body += [(0xA0 + 3 * j) & 255 for j in range(size)]
    cmd = sx.mkbytes([len(body) + 1] + body, True)
    entry = "tt3.process_command"
    st, rsp = guarded(sx, entry, (), emu.process_command, cmd)
    sx.reach("tt3:block-list-%s" % ("answered" if rsp is not None else "ignored"))
    return tt3_result(sx, entry, rsp)


def tt3_dialog(sx, lens):
    """the command loop of connect(card=...): first command as delivered by
    listen() (tag.cmd), then send_response() returns the next command"""
    clf = envp.ScriptClf(sx)
    sim, emu = tt3_emulation(sx, clf)
    lens = choose(sx, "lens", lens) if lens and isinstance(lens[0], list) else lens
    cmds = [sx.bytes("c%d" % i, n, mutable=True) for i, n in enumerate(lens)]
    clf.script = list(cmds[1:])
    cmd = cmds[0]
    out = []
    while True:
        st, rsp = guarded(sx, "tt3.process_command", (), emu.process_command, cmd)
        out.append(tt3_result(sx, "tt3.process_command", rsp))
        st, cmd = guarded(sx, "tt3.send_response", COMM, emu.send_response, rsp, 0.1)
        if st == 'exc':
            break
    sx.reach("tt3:dialog-ended")
    return out


# ----------------------------------------------------------------------------
# (2b) nfc.dep - activation and data exchange against a scripted frontend
# ----------------------------------------------------------------------------
NFCID3 = [0x01, 0xFE, 0x11, 0x22, 0x33, 0x44, 0x55, 0x66, 0x53, 0x54]
CODES = {"ATR": 0, "PSL": 4, "DEP": 6, "DSL": 8, "RLS": 10}


def framed(sx, brty, body):
    return sx.mkbytes(([0xF0] if brty == "106A" else []) + [len(body) + 1] + list(body), True)


def peer_item(sx, name, shape, brty, response):
    """one thing the frontend hands to nfc.dep for a transmission of the peer:
    'timeout' / 'crc': the driver's exceptions; 'raw:n': n symbolic bytes;
    '<PDU>:n': start byte, length byte and the two code bytes correct, then n
    symbolic bytes"""
    if shape == "timeout":
        return nfc.clf.TimeoutError("silent")
    if shape == "crc":
        return nfc.clf.TransmissionError("crc")
    kind, n = shape.split(":")
    n = int(n)
    if kind == "raw":
        return sx.bytes(name, n, mutable=True)
    body = [0xD5 if response else 0xD4, CODES[kind] + (1 if response else 0)] + \
        list(sx.bytes(name, n))
    return framed(sx, brty, body)


def lazy_items(sx, prefix, shapes_per_step, brty_of, response):
    """script entries that draw their shape when the code under test asks"""
    def make(i, shapes):
        def item(data):
            shape = sx.pick("%s%d.shape" % (prefix, i), shapes)
            return peer_item(sx, "%s%d" % (prefix, i), shape, brty_of(), response)
        return item
    return [make(i, shapes) for i, shapes in enumerate(shapes_per_step)]


def dep_call(sx, entry, fn, *args, **kw):
    try:
        return guarded(sx, entry, COMM, fn, *args, **kw)
    except envp.TooManyCalls:
        sx.check(False, "endless-loop:" + entry)


def dep_initiator_exchange(sx, brty, did, send_len, miu, steps):
    """Initiator.exchange() then deactivate(); every answer of the target is
    arbitrary (shape drawn per answer from steps[i])"""
    clf = envp.ScriptClf(sx)
    d = nfc.dep.Initiator(clf)
    d.target = nfc.clf.RemoteTarget(brty)
    d.miu, d.did, d.nad, d.rwt = miu, did, None, 0.0003
    d.pni = sx.pick("pni", [0, 3])
    clf.script = lazy_items(sx, "r", steps, lambda: d.target.brty, True)
    data = bytes(bytearray([(i * 3 + 1) & 255 for i in range(send_len)]))
    st, r = dep_call(sx, "dep.Initiator.exchange", d.exchange, data, 1.0)
    if st == 'ok':
        sx.reach("dep:initiator-exchanged")
        sx.check(envp.is_bytes(r), "not-bytes:dep.Initiator.exchange")
    else:
        sx.reach("dep:initiator-exchange-error")
    st2, r2 = dep_call(sx, "dep.Initiator.deactivate", d.deactivate,
                       sx.pick("release", [True, False]))
    return [st, len(r) if st == 'ok' else r, st2]


def atr_bytes(sx, name, shape, response):
    """ATR_REQ / ATR_RES as the driver reports it (no length byte)"""
    kind, n = shape.split(":")
    n = int(n)
    code = [0xD5, 0x01] if response else [0xD4, 0x00]
    if kind == "any":
        return sx.bytes(name, n, mutable=True)
    if kind == "fixed":
        return sx.mkbytes(code + NFCID3 + [0, 0, 0] + ([8] if response else []) +
                          [0x32, 0x46, 0x66, 0x6D, 0x01, 0x01, 0x13], True)
    if kind == "hdr":
        return sx.mkbytes(code + list(sx.bytes(name, n)), True)
    # valid: nfcid3, then did bs br (to) symbolic, pp symbolic, n general bytes
    k = 5 if response else 4
    return sx.mkbytes(code + NFCID3 + list(sx.bytes(name + ".par", k)) +
                      list(sx.bytes(name + ".gb", n)), True)


def dep_initiator_activate(sx, mode, atr, psl, brs):
    """Initiator.activate(): mode 'acm' - the driver's sense_dep result carries
    the target's ATR_RES; 'A' / 'F' - passive target, ATR_REQ and PSL_REQ go
    through exchange() and the answers are arbitrary frames"""
    clf = envp.ScriptClf(sx)
    d = nfc.dep.Initiator(clf)
    if mode == "acm":
        t = nfc.clf.RemoteTarget("106A", atr_res=atr_bytes(sx, "atr", atr, True))
        clf.sense_script = [t]
        steps = [[psl]]
    else:
        if mode == "A":
            t = nfc.clf.RemoteTarget("106A", sens_res=sx.mkbytes([0x01, 0x01]),
                                     sdd_res=sx.mkbytes([8, 1, 2, 3]),
                                     sel_res=sx.mkbytes([0x40]))
            clf.sense_script = [None, t]
        else:
            t = nfc.clf.RemoteTarget("212F", sensf_res=sx.mkbytes(
                [0x01] + NFCID3[0:8] + [0] * 8 + [0xFF, 0xFF]))
            clf.sense_script = [None, None, t]
        steps = [[atr], [psl]]
    clf.script = lazy_items(sx, "r", steps, lambda: d.target.brty, True)
    st, gb = dep_call(sx, "dep.Initiator.activate", d.activate, None, brs=brs,
                      gbi=b"Ffm\x01\x01\x13")
    if st == 'exc':
        sx.reach("dep:initiator-activate-error")
        return gb
    if gb is None:
        sx.reach("dep:initiator-not-activated")
        return None
    sx.reach("dep:initiator-activated")
    sx.check(envp.is_bytes(gb), "not-bytes:dep.Initiator.activate")
    guarded(sx, "dep.Initiator.str", (), str, d)
    # the link is used once and released
    clf.script = []
    st2, r2 = dep_call(sx, "dep.Initiator.exchange", d.exchange, b"\x00\x00", 0.5)
    st3, r3 = dep_call(sx, "dep.Initiator.deactivate", d.deactivate)
    return [len(gb), st2, st3]


def dep_target_session(sx, brty, atr, first, steps, send_len):
    """Target.activate() with the ATR_REQ and first DEP_REQ the frontend's
    listen() reports (ATR_REQ of 16..64 bytes: what ContactlessFrontend.listen
    lets through), exchange(None), exchange(data), deactivate(); every further
    request of the initiator is arbitrary"""
    clf = envp.ScriptClf(sx)
    t = nfc.dep.Target(clf)
    atr_req = atr_bytes(sx, "atr", atr, False)
    assert 16 <= len(atr_req) <= 64
    kind, n = first.split(":")
    if kind == "raw":
        dep_req = sx.bytes("first", int(n), mutable=True)
    elif kind == "symm":
        dep_req = sx.mkbytes([0xD4, 0x06, 0x00, 0x00, 0x00], True)
    else:
        dep_req = sx.mkbytes([0xD4, CODES[kind]] + list(sx.bytes("first", int(n))), True)

    def listen(target):
        lt = nfc.clf.LocalTarget(brty, atr_req=atr_req, dep_req=dep_req,
                                 atr_res=target.atr_res)
        if brty == "106A":
            lt.sens_res, lt.sdd_res, lt.sel_res = \
                target.sens_res, target.sdd_res, target.sel_res
        else:
            lt.sensf_res = target.sensf_res
        return lt
    clf.listen_result = listen
    st, gb = dep_call(sx, "dep.Target.activate", t.activate, 1.0, gbt=b"Ffm\x01\x01\x13")
    if st == 'exc':
        sx.reach("dep:target-activate-error")
        return gb
    if gb is None:
        sx.reach("dep:target-not-activated")
        return None
    sx.reach("dep:target-activated")
    guarded(sx, "dep.Target.str", (), str, t)
    clf.script = lazy_items(sx, "q", steps, lambda: brty, False)
    out = []
    st, r = dep_call(sx, "dep.Target.exchange:first", t.exchange, None, 1.0)
    out.append(st if r is not None or st == 'exc' else 'none')
    if st == 'ok' and r is not None:
        sx.reach("dep:target-first-request")
        data = bytearray([(i * 5 + 2) & 255 for i in range(send_len)])
        st, r = dep_call(sx, "dep.Target.exchange", t.exchange, data, 1.0)
        out.append(st if r is not None or st == 'exc' else 'none')
        if st == 'ok' and r is not None:
            sx.reach("dep:target-exchanged")
    st, r = dep_call(sx, "dep.Target.deactivate", t.deactivate)
    out.append(st)
    return out


class ChainPeer(object):
    """the frontend under nfc.dep with a peer that never ends a chained
    transfer: every frame it sends is a well-formed INF PDU with the More
    Information bit and the packet number the protocol expects; it takes
    `delay` seconds (virtual) to answer.  As the drivers do, exchange() with a
    time-out of 0 only transmits and returns None.  More than `limit` frames
    is TooManyCalls."""

    def __init__(self, sx, brty, response, delay, limit):
        self.sx, self.brty, self.response = sx, brty, response
        self.delay, self.limit, self.n, self.pni = delay, limit, 0, 0
        self.t0 = envpatch.CLOCK.t

    def exchange(self, data, timeout):
        if timeout is not None and timeout <= 0:
            return None
        self.n += 1
        if self.n > self.limit:
            raise envp.TooManyCalls("chain of %d frames" % self.n)
        envpatch.CLOCK.sleep(self.delay)
        if self.response:
            # answer to our DEP_REQ (INF or ACK) with the same packet number
            off = 3 if self.brty == "106A" else 2
            pni = data[off + 1] & 3
            body = [0xD5, 0x07, 0x10 | pni, self.sx.byte("c%d" % self.n)]
        else:
            self.pni = (self.pni + 1) & 3
            body = [0xD4, 0x06, 0x10 | self.pni, self.sx.byte("c%d" % self.n)]
        return framed(self.sx, self.brty, body)


def dep_endless_chain(sx, role, brty, delay):
    """exchange(data, timeout=1.0) against a peer that chains for ever: the
    call must end (CommunicationError or data) within a few time-outs of
    virtual time; `limit` frames span more than 5 s"""
    timeout = 1.0
    limit = int(5.0 / delay) + 2
    clf = ChainPeer(sx, brty, role == "Initiator", delay, limit)
    if role == "Initiator":
        d = nfc.dep.Initiator(clf)
        d.target = nfc.clf.RemoteTarget(brty)
        d.miu, d.did, d.nad, d.rwt, d.pni = 61, None, None, 0.08, 0
        entry = "dep.Initiator.exchange:endless-chain"
        call = lambda: d.exchange(b"\x00\x00", timeout)
    else:
        d = nfc.dep.Target(clf)
        d.target = nfc.clf.LocalTarget(brty)
        d.miu, d.did, d.nad, d.rwt, d.pni, d.cmd = 61, None, None, 0.08, 0, None
        entry = "dep.Target.exchange:endless-chain"
        call = lambda: d.exchange(b"\x00\x00", timeout)
    t0 = envpatch.CLOCK.t
    try:
        st, r = guarded(sx, entry, COMM, call)
    except envp.TooManyCalls:
        sx.check(False, "unbounded-chaining:%s" % entry)
    elapsed = envpatch.CLOCK.t - t0
    sx.check(elapsed <= 3 * timeout, "exchange-exceeds-timeout:%s" % entry)
    sx.reach("dep:endless-chain-ended")
    return [st, clf.n]


def dep_target_tox(sx, brty, shape):
    """Target.send_timeout_extension(): the initiator's answer is arbitrary"""
    clf = envp.ScriptClf(sx)
    t = nfc.dep.Target(clf)
    t.target = nfc.clf.LocalTarget(brty)
    t.miu, t.did, t.nad, t.rwt, t.pni, t.cmd = 61, None, None, 0.0003, 1, None
    shapes = shape if isinstance(shape, list) else [shape]
    clf.script = lazy_items(sx, "q", [shapes, ["timeout"]], lambda: brty, False)
    st, r = dep_call(sx, "dep.Target.send_timeout_extension", t.send_timeout_extension, 5)
    sx.reach("dep:target-tox-" + st)
    return [st, r]


# ----------------------------------------------------------------------------
# (3) nfc.llcp.llc - activation parameters and the run loop
# ----------------------------------------------------------------------------
import nfc.llcp
import nfc.llcp.llc as llcmod

envl.install()

GB_OK = [0x46, 0x66, 0x6D, 0x01, 0x01, 0x13, 0x02, 0x02, 0x00, 0x78,
         0x03, 0x02, 0x00, 0x13, 0x04, 0x01, 0x32, 0x07, 0x01, 0x03]
SYMM = b"\x00\x00"
RAW, LDL, DLC = llcmod.RAW_ACCESS_POINT, llcmod.LOGICAL_DATA_LINK, llcmod.DATA_LINK_CONNECTION


def new_llc(sx):
    llc = llcmod.LogicalLinkController(sec=False)
    # tables of the local device that are looked up with bytes of the peer
    llc.snl = envp.SymKeyDict(sx, llc.snl)
    llc.sap[1].sent = envp.SymKeyDict(sx, llc.sap[1].sent)
    return llc


def make_mac(sx, role, gb, frames):
    cls = envp.ScriptInitiator if role == "Initiator" else envp.ScriptTarget
    return cls(sx, sx.mkbytes(list(gb), True) if gb is not None else None, frames)


def link_call(sx, entry, fn, *args, **kw):
    """a call made by the thread that runs the link: returns, or the label of
    what went wrong (blocking for ever included)"""
    try:
        return guarded(sx, entry, (), fn, *args, **kw)
    except envp.TooManyCalls:
        sx.check(False, "endless-loop:" + entry)


def no_wks_tlv(sx, b, start):
    """the 16 bits of a WKS TLV are turned into text bit by bit at activation
    (65536 paths): the pair 03 02 is kept out of the symbolic region; WKS
    values are covered by the structured partitions"""
    conds = [sx.neg(sx.all([b[i] == 3, b[i + 1] == 2]))
             for i in range(start, len(b) - 1)]
    if conds:
        sx.assume(sx.all(conds), "no WKS TLV head (03 02) inside the fully symbolic general bytes")


def general_bytes(sx, shape):
    """general bytes of the peer: 'none'; 'raw:n' n symbolic bytes; 'ffm:n'
    magic + n symbolic bytes; 'tlv:<t1>,<t2>..': magic + TLVs with type ti, a
    length drawn around the correct one and symbolic value"""
    kind, _, arg = shape.partition(":")
    if kind == "none":
        return None
    if kind == "raw":
        b = list(sx.bytes("gb", int(arg)))
        no_wks_tlv(sx, b, 3)
        return b
    if kind == "ffm":
        b = list(sx.bytes("gb", int(arg)))
        no_wks_tlv(sx, b, 0)
        return [0x46, 0x66, 0x6D] + b
    out = [0x46, 0x66, 0x6D]
    correct = {1: 1, 2: 2, 3: 2, 4: 1, 7: 1}
    types = [int(x) for x in arg.split(",")]
    intended = set()
    for i, t in enumerate(types):
        if t == 255:            # a lone type byte at the end
            out.append(sx.byte("t%d.lone" % i))
            continue
        c = correct.get(t, 1)
        last = i == len(types) - 1 or types[i + 1] == 255
        if last:
            L = sx.pick("t%d.len" % i, sorted(set([c, max(c - 1, 0), c + 1, 0, 255])))
            n = sx.pick("t%d.have" % i, sorted(set([min(L, 3), max(min(L, 3) - 1, 0)])))
        else:                   # TLVs before the last one are well-formed
            L = n = c
        if t == 3:
            intended.add(len(out))
            v = [sx.pick("t%d.hi" % i, [0x00, 0x13, 0xFF]),
                 sx.pick("t%d.lo" % i, [0x00, 0x01, 0x13, 0xFF])][:n]
        else:
            v = list(sx.bytes("t%d.v" % i, n))
        out += [t, L] + v
    conds = []
    for i in range(3, len(out) - 1):
        if i not in intended and any(sx.is_sym(x) for x in out[i + 2:i + 4]):
            conds.append(sx.neg(sx.all([out[i] == 3, out[i + 1] == 2])))
    if conds:
        sx.assume(sx.all(conds), "no WKS TLV head (03 02) in front of symbolic value bytes")
    return out


def llc_activate(sx, role, shape, then_run):
    llc = new_llc(sx)
    gb = general_bytes(sx, shape)
    mac = make_mac(sx, role, gb, [SYMM])
    entry = "llc.activate"
    st, ok = link_call(sx, entry, llc.activate, mac)
    sx.check(ok is True or ok is False, "not-bool:" + entry)
    if not ok:
        sx.reach("llc:not-activated")
        return False
    sx.reach("llc:activated")
    guarded(sx, "llc.str", (), str, llc)
    if then_run:
        link_call(sx, "llc.run:after-activate", llc.run, terminate=lambda: False)
        sx.check(llc.link.SHUTDOWN, "link-not-shut-down:llc.run:after-activate")
        sx.reach("llc:ran-with-peer-parameters")
    return True


ADDR = dict(raw=2, ldl=32, listen=4, connect=33, closed=34, est=35, est_listen=36,
            close_wait=37, disconnect=38, free=40)
PEER = dict(est=20, est_listen=21, close_wait=22, disconnect=23)


def sap_table(sx, llc):
    """one socket of each kind / state, made with the socket API and PDUs
    dispatched the way the link thread does"""
    socks = {}
    socks['raw'] = llc.socket(RAW)
    llc.bind(socks['raw'], ADDR['raw'])
    socks['ldl'] = llc.socket(LDL)
    llc.bind(socks['ldl'], ADDR['ldl'])
    socks['listen'] = llc.socket(DLC)
    llc.bind(socks['listen'], b"urn:nfc:sn:snep")
    llc.listen(socks['listen'], 1)
    assert socks['listen'].addr == ADDR['listen']
    socks['connect'] = llc.socket(DLC)
    llc.bind(socks['connect'], ADDR['connect'])
    st, _ = envl.blocks(llc.connect, socks['connect'], 20)
    assert st == 'block' and socks['connect'].state.CONNECT
    socks['closed'] = llc.socket(DLC)
    llc.bind(socks['closed'], ADDR['closed'])
    for name in ("est", "est_listen", "close_wait", "disconnect"):
        lst = llc.socket(DLC)
        llc.bind(lst, ADDR[name])
        llc.listen(lst, 1)
        llc.dispatch(pdu.Connect(ADDR[name], PEER[name], 128, 1))
        socks[name] = llc.accept(lst)
        assert socks[name].state.ESTABLISHED and socks[name].peer == PEER[name]
        if name == "est_listen":
            socks["est_listen.l"] = lst
        else:
            llc.close(lst)
    llc.dispatch(pdu.Disconnect(ADDR['close_wait'], PEER['close_wait']))
    assert socks['close_wait'].state.CLOSE_WAIT
    st, _ = envl.blocks(llc.close, socks['disconnect'])
    assert st == 'block' and socks['disconnect'].state.DISCONNECT
    return socks


def fix_dsap(sx, data, dsap):
    if dsap is not None and len(data) >= 1:
        sx.assume((data[0] >> 2) == dsap, "dsap fixed per partition")


def llc_run(sx, role, where, n, ptype, drained):
    """one frame of n symbolic bytes addressed to SAP `where` arrives in the
    run loop of an activated link that has the SAP table above; then the peer
    sends SYMM twice and falls silent"""
    llc = new_llc(sx)
    n = choose(sx, "n", n)
    frame = sx.bytes("f", n)
    fix_dsap(sx, frame, ADDR[where] if where in ADDR else int(where))
    fix_ptype(sx, frame, ptype)
    mac = make_mac(sx, role, GB_OK, [frame, SYMM, SYMM])
    assert llc.activate(mac) is True
    socks = sap_table(sx, llc)
    if drained:
        # everything the set-up queued for sending has left before
        for i in range(12):
            if llc.collect() is None:
                break
    entry = "llc.run"
    link_call(sx, entry, llc.run, terminate=lambda: False)
    sx.check(llc.link.SHUTDOWN, "link-not-shut-down:" + entry)
    sx.reach("llc:run-returned")
    return [str(s.state) for k, s in sorted(socks.items())]


def llc_run_agf(sx, role, subs):
    """an aggregate whose sub-PDUs (symbolic bytes, fixed destination) go to
    the sockets of the SAP table"""
    llc = new_llc(sx)
    body = []
    for i, (where, n, ptype) in enumerate(subs):
        b = sx.bytes("s%d" % i, n)
        fix_dsap(sx, b, ADDR[where])
        fix_ptype(sx, b, ptype)
        body += [n >> 8, n & 255] + list(b)
    frame = sx.mkbytes([0x00, 0x80] + body, False)
    mac = make_mac(sx, role, GB_OK, [frame, SYMM, SYMM])
    assert llc.activate(mac) is True
    socks = sap_table(sx, llc)
    entry = "llc.run:agf"
    link_call(sx, entry, llc.run, terminate=lambda: False)
    sx.check(llc.link.SHUTDOWN, "link-not-shut-down:" + entry)
    sx.reach("llc:run-returned")
    return [str(s.state) for k, s in sorted(socks.items())]


def llc_run_nested(sx, role, depth):
    """the deeply nested aggregate in the run loop (decode + dispatch)"""
    llc = new_llc(sx)
    frame = bytes(bytearray(nested_agf(depth, [0x00, 0x00])))
    mac = make_mac(sx, role, GB_OK, [frame, SYMM])
    assert llc.activate(mac) is True
    link_call(sx, "llc.run:nested-agf", llc.run, terminate=lambda: False)
    sx.reach("llc:run-returned")
    return len(frame)


# ----------------------------------------------------------------------------
# (5) SNEP server / client, handover server over the socket model
# ----------------------------------------------------------------------------
import ndef as real_ndef
import nfc.snep
import nfc.snep.client
import nfc.snep.server
import nfc.handover.server
from env.sockpair import Link, FakeLLC, Deadlock

SNEP_STRERR = dict(nfc.snep.client.SnepError.strerr)


class Rec(object):
    def __init__(self, type):
        self.type = type


class NdefChoice(object):
    """module attribute `ndef` of the server modules: whether octets of the
    peer decode is the environment's choice (drawn per call); encoding of
    what the local application answers is ndeflib's"""
    DecodeError = real_ndef.DecodeError
    EncodeError = real_ndef.EncodeError
    HandoverSelectRecord = real_ndef.HandoverSelectRecord

    def __init__(self, sx, outcomes):
        self.sx, self.outcomes, self.k = sx, outcomes, 0
        self.memo = {}

    def message_decoder(self, octets, errors='strict', *args, **kwargs):
        """no octets: no records and no error (as ndeflib); otherwise the
        outcome is drawn once per (length, mode); what decodes in strict mode
        decodes to the same records in relax mode"""
        n = len(octets)
        if n == 0:
            return []
        if (n, 'strict') in self.memo and self.memo[(n, 'strict')] != "DecodeError":
            what = self.memo[(n, 'strict')]
        elif (n, errors) in self.memo:
            what = self.memo[(n, errors)]
        else:
            self.k += 1
            what = self.sx.pick("ndef.decode#%d" % self.k, self.outcomes)
            self.memo[(n, errors)] = what
        if what == "DecodeError":
            raise real_ndef.DecodeError("malformed")
        return [Rec(what)]

    def message_encoder(self, records, *args, **kwargs):
        recs = [r for r in records if not isinstance(r, Rec)]
        out = [b"\xd0\x00\x00" for r in records if isinstance(r, Rec)]
        return out + list(real_ndef.message_encoder(recs))


class GetServer(nfc.snep.server.SnepServer):
    def process_get_request(self, ndef_message):
        return ndef_message


def socket_world(sx, miu_c2s, miu_s2c):
    link = Link(miu_c2s, miu_s2c)
    listen = nfc.llcp.Socket(FakeLLC(link, 's'), nfc.llcp.DATA_LINK_CONNECTION)
    listen.bind("urn:nfc:sn:snep")
    conn = listen.accept()
    cs = nfc.llcp.Socket(FakeLLC(link, 'c'), nfc.llcp.DATA_LINK_CONNECTION)
    return link, conn, cs


def drive(sx, entry, link, body):
    """run the client-stack function body(); exceptions of the server stack
    surface here too"""
    try:
        try:
            st, r = guarded(sx, entry, (), body)
        except Deadlock:
            sx.check(False, "deadlock:" + entry)
    finally:
        link.abort()
    return r


def snep_serve(sx, lens, miu_s2c, max_len):
    """SnepServer._serve with the peer sending arbitrary fragments and then
    closing the connection"""
    nfc.snep.server.ndef = NdefChoice(sx, ["rec", "DecodeError"])
    link, conn, cs = socket_world(sx, 2175, miu_s2c)
    ml = sx.int("srv.max", 0, 0x20) if max_len == "sym" else 0x100000
    server = GetServer(FakeLLC(link, 's'), max_acceptable_length=ml)
    link.start_server(lambda: server._serve(conn))
    lens = choose(sx, "lens", lens) if lens and isinstance(lens[0], list) else lens
    frags = [sx.bytes("m%d" % i, n) for i, n in enumerate(lens)]

    def body():
        cs.connect("urn:nfc:sn:snep")
        for f in frags:
            cs.send(f)
        while cs.poll("recv", 0.1):     # let the server work; read its answers
            cs.recv()
        cs.close()
        link.finish()
    drive(sx, "snep.server._serve", link, body)
    sx.check(link.nclose['s'] == 1, "socket-not-closed:snep.server._serve")
    sx.reach("snep:server-returned")
    return [len(m) for m in link.sent['s']]


def snep_client(sx, op, lens, end, accept, reqlen=3):
    """SnepClient.put_octets / get_octets (send_request, recv_response) with a
    server that answers with arbitrary fragments"""
    nfc.snep.client.SnepError.strerr = envp.SymKeyDict(sx, SNEP_STRERR)
    link, conn, cs = socket_world(sx, 128, 128)
    lens = choose(sx, "lens", lens) if lens and isinstance(lens[0], list) else lens
    frags = [sx.bytes("m%d" % i, n) for i, n in enumerate(lens)]

    def peer():
        conn.recv()
        for f in frags:
            conn.send(f)
        if end == "silent":
            while conn.recv() is not None:
                pass
        conn.close()
    link.start_server(peer)
    client = nfc.snep.client.SnepClient(FakeLLC(link, 'c'))
    if accept == "sym":
        client.acceptable_length = sx.int("cli.accept", 0, 16)
    allowed = (nfc.snep.client.SnepError, nfc.llcp.Error)
    res = []

    def body():
        # reqlen above the send MIU (128): the request is fragmented and the
        # client waits for the server's answer to the first fragment
        request = b"\xd0\x00\x00" if reqlen == 3 else bytes(bytearray(
            (0xC0 + 7 * i) & 0xFF for i in range(reqlen)))
        if reqlen > 128:
            sx.reach("snep:client-request-fragmented")
        if op == "put":
            res.append(guarded(sx, "snep.client.put_octets", allowed,
                               client.put_octets, request, 0.5))
        else:
            res.append(guarded(sx, "snep.client.get_octets", allowed,
                               client.get_octets, request, 0.5))
        link.finish()
    drive(sx, "snep.client", link, body)
    st, r = res[0]
    sx.reach("snep:client-" + ("returned" if st == 'ok' else "error"))
    sx.check(client.socket is None, "socket-not-closed:snep.client")
    return [st, r if st == 'exc' else (None if r is None else (r if isinstance(r, bool) else len(r)))]


def handover_serve(sx, lens, miu_s2c):
    nfc.handover.server.ndef = NdefChoice(sx, ["urn:nfc:wkt:Hr", "other", "DecodeError"])
    link, conn, cs = socket_world(sx, 2175, miu_s2c)
    server = nfc.handover.server.HandoverServer(FakeLLC(link, 's'))
    link.start_server(lambda: server.serve(conn))
    lens = choose(sx, "lens", lens) if lens and isinstance(lens[0], list) else lens
    frags = [sx.bytes("m%d" % i, n) for i, n in enumerate(lens)]

    def body():
        cs.connect("urn:nfc:sn:handover")
        for f in frags:
            cs.send(f)
        while cs.poll("recv", 0.1):     # let the server work; read its answers
            cs.recv()
        cs.close()
        link.finish()
    drive(sx, "handover.server.serve", link, body)
    sx.check(link.nclose['s'] == 1, "socket-not-closed:handover.server.serve")
    sx.reach("handover:server-returned")
    return [len(m) for m in link.sent['s']]


def handover_client(sx, op, lens, end):
    """HandoverClient.recv_octets / recv_records with a server that answers
    with arbitrary fragments (zero-length ones included)"""
    import nfc.handover.client
    nfc.handover.client.ndef = NdefChoice(sx, ["urn:nfc:wkt:Hs", "other", "DecodeError"])
    link, conn, cs = socket_world(sx, 128, 128)
    lens = choose(sx, "lens", lens) if lens and isinstance(lens[0], list) else lens
    frags = [sx.bytes("m%d" % i, n) for i, n in enumerate(lens)]

    def peer():
        conn.recv()
        for f in frags:
            conn.send(f)
        if end == "silent":
            while conn.recv() is not None:
                pass
        conn.close()
    link.start_server(peer)
    client = nfc.handover.client.HandoverClient(FakeLLC(link, 'c'))
    allowed = (nfc.llcp.Error,)
    res = []

    def body():
        client.connect()
        client.send_octets(b"\xd0\x00\x00")
        fn = client.recv_octets if op == "octets" else client.recv_records
        res.append(guarded(sx, "handover.client.recv_" + op, allowed, fn, 0.5))
        client.close()
        link.finish()
    drive(sx, "handover.client", link, body)
    st, r = res[0]
    sx.reach("handover:client-" + ("returned" if st == 'ok' else "error"))
    return [st, r if st == 'exc' else (None if r is None else len(r))]


# ----------------------------------------------------------------------------
# (7) application calls parked by peer-controlled state: the PDU of the peer
#     that ends the condition must wake the call (env.coop, read-only use)
# ----------------------------------------------------------------------------
from env import coop

APP_PEER, APP_ADDR = 21, 36


class NoPreemption(object):
    """what env.coop's scheduler asks at its optional preemption points: never
    preempt.  Link steps then run exactly where the application call sleeps
    in a wait() without time-out (env.coop forces them there), in script
    order: the schedules in which the peer's PDU arrives while the call is
    asleep.  (PDUs that arrive before the call starts are C05 / C09.)"""

    def flag(self, name):
        return False


def coop_world(sx, rw):
    """a link controller whose locks / conditions are env.coop's, an
    ESTABLISHED data link connection (accepted from APP_PEER, remote receive
    window rw), a listening socket and an unconnected one"""
    coop.install()
    S = coop.new_sched(NoPreemption())
    llc = llcmod.LogicalLinkController(sec=False)
    llc.cfg['send-miu'], llc.cfg['recv-lto'] = 128, 100
    llc.cfg['llcp-dpc'], llc.cfg['send-wks'] = 0, 1
    llc.link.ESTABLISHED = True
    lst = llc.socket(DLC)
    llc.bind(lst, APP_ADDR)
    llc.listen(lst, 1)
    llc.dispatch(pdu.Connect(APP_ADDR, APP_PEER, 128, rw))
    dlc = llc.accept(lst)
    assert dlc.state.ESTABLISHED and dlc.send_win == rw
    out = llc.socket(DLC)
    llc.bind(out, APP_ADDR + 1)
    for i in range(4):
        llc.collect()           # the CC has left
    return S, llc, lst, dlc, out


def link_step(sx, llc, name, sock_addr, peer):
    """one iteration of the link thread's loop: the peer's PDU (SYMM: none;
    'A+B': both in one AGF PDU) is dispatched, then what is to be sent is
    collected (twice: aggregation may need a second turn)"""
    def make(n):
        if n == "DISC":
            return pdu.Disconnect(sock_addr, peer)
        if n == "DM":
            return pdu.DisconnectedMode(sock_addr, peer, sx.byte("dm.reason"))
        if n == "FRMR":
            return pdu.FrameReject(sock_addr, peer, flags=1, ptype=12)
        if n == "CC":
            return pdu.ConnectionComplete(sock_addr, peer, 128, 1)
        if n.startswith("RR:"):
            return pdu.ReceiveReady(sock_addr, peer, int(n[3:]))
        if n.startswith("I:"):
            return pdu.Information(sock_addr, peer, int(n[2:]), 0, b"hi")
        # connection-mode PDUs from a source address that has no connection
        # with this service access point (a stray or forged PDU)
        if n.startswith("Ix:"):
            return pdu.Information(sock_addr, peer + 7, int(n[3:]), 0, b"hi")
        if n.startswith("RRx:"):
            return pdu.ReceiveReady(sock_addr, peer + 7, int(n[4:]))
        if n == "DISCx":
            return pdu.Disconnect(sock_addr, peer + 7)
        if n == "CCx":
            return pdu.ConnectionComplete(sock_addr, peer + 7, 128, 1)
        raise ValueError(n)

    def step():
        if name != "SYMM":
            ps = [make(n) for n in name.split("+")]
            p = ps[0] if len(ps) == 1 else pdu.AggregatedFrame(0, 0, ps)
            llc.dispatch(pdu.decode(pdu.encode(p)))
        llc.collect()
        llc.collect()
    return (name, step)


# what the sleeping call does after the peer's PDUs ('back': it returns or
# raises nfc.llcp.Error; 'asleep': nothing it waits for has happened)
APP_CASES = {
    # send() waiting for the remote receive window
    "send": {"DISC": "back", "DM": "back", "FRMR": "back", "RR:1": "back",
             "SYMM": "asleep", "CC": "asleep"},
    # send() waiting until its I PDU has left the send queue
    "sendq": {"DISC": "back", "DM": "back", "FRMR": "back", "I:5": "back", "SYMM": "back"},
    "recv": {"DISC": "back", "DM": "back", "FRMR": "back", "I:0": "back",
             "SYMM": "asleep", "CC": "asleep"},
    "accept": {"SYMM": "asleep", "CC": "asleep", "DM": "asleep",
               # only a CONNECT belongs into the backlog of a listening socket
               "Ix:0": "asleep", "RRx:0": "asleep", "DISCx": "asleep", "CCx": "asleep",
               "Ix:0+RRx:1": "asleep"},
    "connect": {"DM": "back", "CC": "back", "SYMM": "asleep", "DISC": "asleep"},
    # connect() and then recv() on the connection
    "connect+recv": {"CC,I:0": "back", "CC+CC,I:0": "back", "CC+DM,I:0": "back",
                     "CC,CC,DISC": "back", "CC,DM": "back"},
}


def app_blocked(sx, call, enders):
    """`call` sleeps because of state the peer controls; then the peer sends
    the PDUs of `ender` ('X,Y': in successive link iterations, 'X+Y': in one
    AGF PDU) and keeps the link up with SYMM.  The call must come back (value
    or nfc.llcp.Error) when the condition it waits for has ended, and stay
    asleep otherwise (table APP_CASES)."""
    ender = choose(sx, "ender", enders)
    rw = sx.pick("rw", [1, 2]) if call == "send" else 1
    S, llc, lst, dlc, out = coop_world(sx, rw)
    entry = "app.%s:after-%s" % (call, ender)
    sock, peer = APP_ADDR, APP_PEER
    if call == "send":
        for i in range(rw):     # the remote receive window is used up
            assert llc.send(dlc, b"m%d" % i, nfc.llcp.MSG_DONTWAIT) is True
        for i in range(rw + 1):
            llc.collect()
        assert dlc.send_window_slots == 0
        fn = lambda: llc.send(dlc, b"next", 0)
    elif call == "sendq":
        assert dlc.send_window_slots > 0 and len(dlc.send_queue) == 0
        fn = lambda: llc.send(dlc, b"next", 0)
    elif call == "recv":
        fn = lambda: llc.recv(dlc)
    elif call == "accept":
        fn = lambda: llc.accept(lst)
    elif call == "connect":
        fn = lambda: llc.connect(out, 17)
        sock, peer = APP_ADDR + 1, 17
    else:
        def fn():
            llc.connect(out, 17)
            return llc.recv(out)
        sock, peer = APP_ADDR + 1, 17
    S.steps = [link_step(sx, llc, n, sock, peer)
               for n in ender.split(",") + ["SYMM", "SYMM", "SYMM"]]
    left = None
    try:
        st, r = guarded(sx, entry, (nfc.llcp.Error,), S.app_call, fn)
    except coop.LeftWaiting as e:
        left = e.site
    except coop.LinkBlocked as e:
        sx.check(False, "link-thread-blocked@%s[%s]" % (e.site, entry))
    except coop.CoopDeadlock as e:
        sx.check(False, "deadlock@%s[%s]" % (e.site, entry))
    except coop.Livelock as e:
        sx.check(False, "endless-wait@%s[%s]" % (e.site, entry))
    except coop.Unrepresentable:
        sx.assume(False, "a link step that would wait for a lock of the application "
                  "thread is not a schedule of env.coop (link steps are atomic)")
    ends_wait = APP_CASES[call][ender] == "back"
    if left is not None:
        # the script is exhausted and nothing notified the condition the call
        # sleeps on: with a peer that keeps sending SYMM it sleeps for ever
        if ends_wait:
            sx.check(False, "left-waiting@%s[%s]" % (left, entry))
        sx.reach("app:still-asleep-as-expected")
        return "asleep"
    if not ends_wait:
        sx.check(False, "came-back-without-cause[%s]" % entry)
    sx.reach("app:came-back")
    return [st, r if st == 'exc' or r is None or isinstance(r, bool) else "value"]


def window_flood(sx, rw, count, how):
    """a peer that does not care about the receive window: `count` in-sequence
    I PDUs (more than the window announced with the CC) arrive on an
    established connection before the application reads - one per link
    iteration or all in one AGF PDU - then the application reads until
    nothing is left.  Every recv()/poll() returns data, None/False or raises
    nfc.llcp.Error; the link thread's calls return; nothing else escapes."""
    llc = llcmod.LogicalLinkController(sec=False)
    llc.cfg['send-miu'], llc.cfg['recv-lto'] = 128, 100
    llc.cfg['llcp-dpc'], llc.cfg['send-wks'] = 0, 1
    llc.link.ESTABLISHED = True
    lst = llc.socket(DLC)
    llc.setsockopt(lst, nfc.llcp.SO_RCVBUF, rw)
    llc.bind(lst, APP_ADDR)
    llc.listen(lst, 1)
    llc.dispatch(pdu.Connect(APP_ADDR, APP_PEER, 128, 1))
    dlc = llc.accept(lst)
    for i in range(3):
        llc.collect()
    entry = "window-flood:rw=%d:%s" % (rw, how)
    ipdus = [pdu.Information(APP_ADDR, APP_PEER, i % 16, 0, sx.mkbytes([i, sx.byte("d%d" % i)], False))
             for i in range(count)]
    if how == "agf":
        frames = [pdu.AggregatedFrame(0, 0, ipdus)]
    else:
        frames = ipdus
    for f in frames:
        guarded(sx, entry + ":dispatch", (), llc.dispatch, pdu.decode(pdu.encode(f)))
        guarded(sx, entry + ":collect", (), llc.collect)
    sx.reach("window-flood:flooded")
    got = 0
    for k in range(count + 2):
        st, ready = guarded(sx, entry + ":poll", (nfc.llcp.Error,), llc.poll, dlc, "recv", 0.0)
        if st == 'exc' or not ready:
            break
        st, r = guarded(sx, entry + ":recv", (nfc.llcp.Error,), llc.recv, dlc)
        if st == 'exc' or r is None:
            break
        got += 1
        guarded(sx, entry + ":collect", (), llc.collect)
    if got:
        sx.reach("window-flood:application-read")
    return [got]


# ----------------------------------------------------------------------------
# (6) ContactlessFrontend.connect() around it, with a scripted driver
# ----------------------------------------------------------------------------
from env.recdevice import (RecDevice, Trace, PeerEnv, ReaderEnv, HarnessLimit,
                           make_frontend, new_frontend)


class FuzzPeer(PeerEnv):
    """PeerEnv whose LLCP parameters (general bytes) and LLC frames are given
    by the harness: the frames are carried in well-formed NFC-DEP INF PDUs;
    afterwards the peer is silent"""

    def __init__(self, sx, trace, role, gb, frames):
        PeerEnv.__init__(self, sx, trace, role, max_symm=0, ends=("timeout",))
        self.gb = list(gb)
        self.frames = list(frames)
        self.acm_atr_res = None     # ATR_RES reported by the driver's sense_dep

    def sense(self, kind, target):
        if kind == "dep" and self.acm_atr_res is not None and not self.left:
            t = nfc.clf.RemoteTarget("106A", atr_res=self.acm_atr_res,
                                     atr_req=target.atr_req)
            self.active = t
            return t
        return PeerEnv.sense(self, kind, target)

    def listen(self, kind, target, timeout):
        t = PeerEnv.listen(self, kind, target, timeout)
        if t is not None:
            if not self.frames:
                return None
            t.dep_req = self.sx.mkbytes([0xD4, 0x06, 0x00] + list(self.frames.pop(0)))
        return t

    def rsp(self, target, data, timeout):
        if self.active is None or target is not self.active or data is None \
                or not self.frames:
            self.left = True
            raise nfc.clf.TimeoutError("peer silent")
        self.pni = (self.pni + 1) & 3
        f = list(self.frames.pop(0))
        return self.sx.mkbytes([len(f) + 4, 0xD4, 0x06, self.pni] + f)

    def cmd(self, target, data, timeout):
        if target.brty == "106A" and len(data) > 0 and data[0] == 0xF0:
            r = self.cmd212(target, data[1:], timeout)
            return self.sx.mkbytes([0xF0] + list(r))
        return self.cmd212(target, data, timeout)

    def cmd212(self, target, data, timeout):
        if self.active is not None and target is self.active and not self.left \
                and len(data) > 3 and data[1] == 0xD4 and data[2] == 0x06 \
                and data[3] & 0xE0 == 0x00:
            if not self.frames:
                self.left = True
                raise nfc.clf.TimeoutError("peer silent")
            f = list(self.frames.pop(0))
            return self.sx.mkbytes([len(f) + 4, 0xD5, 0x07, data[3] & 3] + f)
        return PeerEnv.cmd(self, target, data, timeout)


def connect_llcp_acm(sx, atr):
    """clf.connect(llcp=...) as initiator with a driver that supports active
    communication mode: sense_dep reports the target's ATR_RES (arbitrary)"""
    tr = Trace()
    env = FuzzPeer(sx, tr, "target", GB_OK, [SYMM, SYMM])
    env.acm_atr_res = atr_bytes(sx, "atr", atr, True)
    dev = RecDevice(sx, env, tr)
    clf = make_frontend(dev)
    seen = []

    def on_connect(llc):
        seen.append(llc)
        return True
    entry = "clf.connect:llcp-acm"
    try:
        st, r = guarded(sx, entry, (), clf.connect, terminate=poller(40), llcp={
            'role': 'initiator', 'sec': False, 'brs': 0, 'on-connect': on_connect})
    except HarnessLimit:
        sx.check(False, "endless-loop:" + entry)
    sx.reach("connect:llcp-acm-" + ("link-ran" if seen else "no-link"))
    sx.check(r is (True if seen else None), "connect-result-wrong:" + entry)
    return bool(seen)


def poller(K):
    n = [0]

    def terminate():
        n[0] += 1
        return n[0] > K
    return terminate


def connect_llcp(sx, role, shape, where, n):
    """clf.connect(llcp=...) with a peer whose general bytes (shape) or whose
    first LLC frame (n symbolic bytes to SAP `where`) are arbitrary"""
    tr = Trace()
    if shape == "ok":
        gb = GB_OK
        frame = sx.bytes("f", choose(sx, "n", n))
        fix_dsap(sx, frame, ADDR[where])
        frames = [frame, SYMM, SYMM]
    else:
        gb = general_bytes(sx, shape) or []
        frames = [SYMM, SYMM]
    env = FuzzPeer(sx, tr, "target" if role == "initiator" else "initiator", gb, frames)
    dev = RecDevice(sx, env, tr)
    clf = make_frontend(dev)
    seen = []

    def on_startup(llc):
        llc.snl = envp.SymKeyDict(sx, llc.snl)
        llc.sap[1].sent = envp.SymKeyDict(sx, llc.sap[1].sent)
        return llc

    def on_connect(llc):
        seen.append(llc)
        sap_table(sx, llc)
        return True
    entry = "clf.connect:llcp"
    try:
        st, r = guarded(sx, entry, (), clf.connect, terminate=poller(40), llcp={
            'role': role, 'sec': False, 'on-startup': on_startup, 'on-connect': on_connect})
    except HarnessLimit:
        sx.check(False, "endless-loop:" + entry)
    if seen:
        sx.reach("connect:llcp-link-ran")
        sx.check(r is True, "connect-result-not-true:" + entry)
        sx.check(seen[0].link.SHUTDOWN, "link-not-shut-down:" + entry)
    else:
        sx.reach("connect:llcp-no-link")
        sx.check(r is None, "connect-result-not-none:" + entry)
    return [bool(seen), dev.ncalls > 0]


# ---- the udp driver as NFC-DEP target: the peer's datagrams after ATR_REQ
import nfc.clf.udp


class HexToken(object):
    """second token of a datagram "<brty> <hex>": stands for the hex text of
    `octets` (nfc.clf.udp.unhexlify is replaced by `unhex` below, so that the
    octets may be symbolic; the text form itself is C13's subject)"""

    def __init__(self, octets):
        self.octets = octets


class Dgram(object):
    def __init__(self, brty, octets):
        self.brty, self.octets = brty, octets

    def startswith(self, prefix):
        return False                # not "RFOFF"

    def split(self):
        return [self.brty.encode("ascii"), HexToken(self.octets)]

    def __len__(self):
        return len(self.brty) + 1 + 2 * len(self.octets)


def unhex(data):
    import binascii
    if isinstance(data, HexToken):
        return data.octets
    return binascii.unhexlify(data)


class UdpSocketModule(object):
    AF_INET, SOCK_DGRAM, NI_NUMERICHOST = 2, 2, 1
    error = OSError

    def __init__(self, net):
        self.net = net

    def gethostbyname(self, host):
        return "127.0.0.1"

    def getnameinfo(self, addr, flags):
        return (addr[0], str(addr[1]))

    def socket(self, *a):
        return UdpSocket(self.net)


class UdpSocket(object):
    def __init__(self, net):
        self.net = net

    def getsockname(self):
        return ("127.0.0.1", 54321)

    def close(self):
        pass

    def bind(self, addr):
        pass

    def sendto(self, data, addr):
        self.net['sent'] += 1
        return len(data)

    def recvfrom(self, n):
        self.net['calls'] += 1
        if self.net['calls'] > 200:
            raise envp.TooManyCalls("udp recvfrom")
        return self.net['dgrams'].pop(0), ("127.0.0.1", 40001)


class UdpSelect(object):
    """a datagram is there while the peer's script lasts, then silence"""

    def __init__(self, net):
        self.net = net

    def select(self, r, w, x, timeout=None):
        self.net['calls'] += 1
        if self.net['calls'] > 200:
            raise envp.TooManyCalls("udp select")
        if self.net['dgrams']:
            return (list(r), [], [])
        nfc.clf.udp.time.sleep(timeout if timeout else 1.0)
        return ([], [], [])


UDP_ATR_REQ = [0xD4, 0x00] + [0x01, 0xFE, 0x11, 0x22, 0x33, 0x44, 0x55, 0x66, 0x53, 0x54] + \
    [0x00, 0x00, 0x00, 0x32] + GB_OK[:6]


def connect_udp_target(sx, brty, shapes):
    """clf.connect(llcp={'role': 'target'}) on the real udp driver (socket and
    select replaced by a scripted peer): well-formed ATR_REQ datagram, then
    the datagrams of `shapes` ('raw:n' n symbolic octets; 'PSL:n' / 'DEP:n' /
    'DSL:n': start byte, length byte, code bytes, n symbolic octets; 'symm':
    DEP_REQ INF carrying an LLCP SYMM PDU), then silence"""
    shapes = choose(sx, "shapes", shapes) if shapes and isinstance(shapes[0], list) else shapes
    net = dict(sent=0, calls=0, dgrams=[])
    atr = ([0xF0] if brty == "106A" else []) + [len(UDP_ATR_REQ) + 1] + UDP_ATR_REQ
    net['dgrams'].append(Dgram(brty, sx.mkbytes(atr, True)))
    cur = brty
    for i, shape in enumerate(shapes):
        kind, n = shape.split(":")
        if kind == "raw":
            octets = sx.bytes("u%d" % i, int(n), mutable=True)
        else:
            body = [0xD4, 0x06, (i - 1) & 3, 0x00, 0x00] if kind == "symm" else \
                [0xD4, CODES[kind]] + list(sx.bytes("u%d" % i, int(n)))
            octets = sx.mkbytes(([0xF0] if cur == "106A" else []) + [len(body) + 1] + body, True)
        net['dgrams'].append(Dgram(cur, octets))
    udp = nfc.clf.udp
    saved = udp.socket, udp.select, udp.unhexlify
    udp.socket, udp.select, udp.unhexlify = UdpSocketModule(net), UdpSelect(net), unhex
    seen = []

    def on_connect(llc):
        seen.append(llc)
        return True
    entry = "clf.connect:llcp-target-udp"
    try:
        dev = udp.Device("localhost", 54321)
        clf = new_frontend()
        clf.device = dev            # what ContactlessFrontend.open() does
        try:
            st, r = guarded(sx, entry, (), clf.connect, terminate=poller(6), llcp={
                'role': 'target', 'sec': False, 'on-connect': on_connect})
        except envp.TooManyCalls:
            sx.check(False, "endless-loop:" + entry)
    finally:
        udp.socket, udp.select, udp.unhexlify = saved
    sx.reach("connect:udp-target-" + ("link-ran" if seen else "no-link"))
    sx.check(r is (True if seen else None), "connect-result-wrong:" + entry)
    return [bool(seen), net['sent']]


class FuzzReader(ReaderEnv):
    """a remote reader that sends arbitrary Type 3 Tag commands and leaves"""

    def __init__(self, sx, trace, cmds):
        ReaderEnv.__init__(self, sx, trace)
        self.cmds = list(cmds)

    def listen(self, kind, target, timeout):
        if kind != "ttf" or self.left or not self.cmds:
            return None
        t = nfc.clf.LocalTarget(
            "212F", sensf_req=self.sx.mkbytes([0x00, 0xFF, 0xFF, 0x01, 0x00]),
            sensf_res=self.sx.mkbytes(list(target.sensf_res)))
        t.tt3_cmd = self.sx.mkbytes(list(self.cmds.pop(0)))
        self.active = t
        return t

    def rsp(self, target, data, timeout):
        if self.active is None or target is not self.active or not self.cmds:
            self.left = True
            self.active = None
            raise nfc.clf.BrokenLinkError("reader left")
        return self.sx.mkbytes(list(self.cmds.pop(0)))


def connect_card(sx, lens):
    """clf.connect(card=...) as in examples/tagtool.py emulate; first command
    as listen() reports it (no length byte), then full command frames"""
    tr = Trace()
    lens = choose(sx, "lens", lens) if isinstance(lens[0], list) else lens
    cmds = [sx.bytes("c%d" % i, n) for i, n in enumerate(lens)]
    env = FuzzReader(sx, tr, cmds)
    dev = RecDevice(sx, env, tr)
    clf = make_frontend(dev)
    seen = []

    def on_startup(target):
        target.brty = "212F"
        target.sensf_res = bytearray([0x01] + IDM + PMM + [0x12, 0xFC])
        return target

    def on_connect(tag):
        seen.append(tag)
        sim, emu = tt3_emulation(sx)
        tag.services = emu.services
        return True
    entry = "clf.connect:card"
    try:
        st, r = guarded(sx, entry, (), clf.connect, terminate=poller(12), card={
            'on-startup': on_startup, 'on-connect': on_connect})
    except HarnessLimit:
        sx.check(False, "endless-loop:" + entry)
    sx.reach("connect:card-returned")
    sx.check(r is True, "connect-result-not-true:" + entry)
    return [bool(seen), dev.ncalls]


# ----------------------------------------------------------------------------
def chunks(xs, n):
    xs = list(xs)
    return [xs[i:i + n] for i in range(0, len(xs), n)]


def partitions(tier):
    P = []
    quick = tier == "quick"
    add = lambda name, fn, **kw: P.append(dict(name=name, fn=fn, params=kw))
    lname = lambda lens: "+".join(map(str, lens)) or "-"
    # (1) pdu.decode
    nmax = 6 if quick else 9
    add("pdu:0-3", "pdu_decode", n=[0, 1, 2, 3], ptype=None)
    for n in range(4, nmax + 1):
        for t in range(16):
            add("pdu:%d:%s" % (n, NAMES[t]), "pdu_decode", n=n, ptype=t)
    sizes = [[2, 2], [3, 2], [4, 3], [2, "L"], ["L"], [3, "L"]]
    if not quick:
        sizes += [[2, 2, 2], [5, 2], [4, 4], [6, 3], [3, 3, 3], [2, 4, 3], [7, 2], [4, "L"],
                  [2, 2, "L"]]
    for sz in sizes:
        add("agf:" + "+".join(map(str, sz)), "pdu_agf", sizes=sz)
    for depth, inner in ((1, 2), (2, 2), (2, 3), (3, 2), (50, 2), (200, 2), (543, 2)):
        add("agf-nested:%d:%d" % (depth, inner), "pdu_agf_nested", depth=depth,
            inner_len=inner)
    # (2) dep decode
    for cls in sorted(DEP_PDU):
        top = 19 if cls.startswith("ATR") else (5 if quick else 7)
        add("dep-pdu:%s" % cls, "dep_pdu_decode", cls=cls, n=list(range(0, top + 1)),
            header=True)
        add("dep-pdu:%s:raw" % cls, "dep_pdu_decode", cls=cls, n=[0, 1, 2, 3], header=False)
    for role in ("Initiator", "Target"):
        for brty in ("106A", "212F"):
            add("dep-frame:%s:%s:raw" % (role, brty), "dep_frame", role=role, brty=brty,
                shape="raw", n=list(range(0, (6 if quick else 8) + 1)))
            sfx = "_RES" if role == "Initiator" else "_REQ"
            for name in ("ATR", "PSL", "DEP", "DSL", "RLS"):
                ns = list(range(0, 5 if quick else 7))
                if name == "ATR":
                    ns = [0, 1, 9, 13, 14, 15, 16, 17] if quick else list(range(0, 20))
                add("dep-frame:%s:%s:%s" % (role, brty, name), "dep_frame",
                    role=role, brty=brty, shape=name + sfx, n=ns)
    # (2b) dep activation / exchange
    RES = ["timeout", "crc", "raw:0", "raw:3", "DEP:0", "DEP:1", "DEP:2", "DEP:3",
           "ATR:1", "PSL:1", "DSL:0", "RLS:1"]
    RES2 = ["timeout", "crc", "DEP:1", "DEP:2", "DSL:0"]
    CHEAP = ["timeout", "crc", "raw:0", "raw:3", "ATR:1", "PSL:1", "DSL:0", "RLS:1"]
    for brty in ("106A", "212F"):
        for did, send_len, miu in ((None, 3, 61), (7, 5, 3)):
            if quick:
                add("dep-ix:%s:cheap:%s" % (brty, did), "dep_initiator_exchange", brty=brty,
                    did=did, send_len=send_len, miu=miu, steps=[CHEAP, ["timeout", "DEP:1"]])
            for first in (RES if not quick else [x for x in RES if x not in CHEAP]):
                if did is not None and (first not in ("DEP:1", "DEP:2", "crc", "timeout")
                                        or (quick and brty == "106A")
                                        or (quick and first == "DEP:2")):
                    continue
                steps = [[first], ["timeout", "DEP:1"]] if quick or did is not None else \
                    [[first], RES2, ["timeout", "DEP:1"]]
                add("dep-ix:%s:%s:%s" % (brty, first, did), "dep_initiator_exchange",
                    brty=brty, did=did, send_len=send_len, miu=miu, steps=steps)
    ATR_RES_SHAPES = ["any:0", "any:1", "any:2", "any:3", "hdr:0", "hdr:1", "hdr:9", "hdr:13",
                      "hdr:14", "valid:0", "valid:1", "valid:4"]
    for atr in ATR_RES_SHAPES:
        for psl in ("PSL:1", "PSL:0", "PSL:2", "raw:4", "DEP:1", "timeout"):
            if quick and psl not in ("PSL:1", "raw:4") and atr != "valid:1":
                continue
            add("dep-ia:acm:%s:%s" % (atr, psl), "dep_initiator_activate", mode="acm",
                atr=atr, psl=psl, brs=2)
    for mode in ("A", "F"):
        for atr in ("ATR:0", "ATR:1", "ATR:13", "ATR:14", "ATR:15", "ATR:16", "ATR:19",
                    "raw:0", "raw:1", "raw:4", "PSL:1", "DEP:1", "timeout", "crc"):
            for psl, brs in (("PSL:1", 2), ("PSL:0", 1), ("raw:4", 2), ("DEP:1", 2), ("timeout", 0)):
                if quick and (psl, brs) != ("PSL:1", 2) and atr != "ATR:16":
                    continue
                add("dep-ia:%s:%s:%s:%d" % (mode, atr, psl, brs), "dep_initiator_activate",
                    mode=mode, atr=atr, psl=psl, brs=brs)
    REQ = ["timeout", "crc", "raw:0", "raw:3", "DEP:0", "DEP:1", "DEP:2", "DEP:3",
           "ATR:1", "ATR:14", "PSL:3", "PSL:1", "DSL:0", "DSL:1", "RLS:0"]
    REQ2 = ["timeout", "DEP:1", "DEP:2", "DSL:0", "RLS:1", "raw:0"]
    for brty in ("106A", "424F"):
        for atr in ("valid:0", "valid:3", "any:16", "any:17", "hdr:14", "hdr:20"):
            add("dep-ta:%s:%s" % (brty, atr), "dep_target_session", brty=brty, atr=atr,
                first="symm:0", steps=[], send_len=2)
        for first in ("DEP:1", "DEP:0", "DEP:2", "DEP:3", "DSL:0", "DSL:1", "RLS:0",
                      "ATR:14", "PSL:3", "raw:1", "raw:2", "raw:3"):
            add("dep-ts:%s:%s" % (brty, first), "dep_target_session", brty=brty,
                atr="fixed:0", first=first,
                steps=[["timeout", "DEP:1", "DSL:0", "raw:0"]], send_len=2)
        add("dep-ta:%s:no-dep-req" % brty, "dep_target_session", brty=brty, atr="fixed:0",
            first="raw:0", steps=[], send_len=2)
        add("dep-tox:%s" % brty, "dep_target_tox", brty=brty,
            shape=["DEP:0", "DEP:1", "DEP:2", "raw:0", "raw:1", "raw:3", "DSL:0", "timeout", "crc"])
        for q in REQ:
            if quick:
                steps = [[q], ["timeout", "DEP:1", "DSL:0", "raw:0"] if q[:3] != "DEP" or
                         brty == "106A" and q in ("DEP:0", "DEP:1") else ["timeout", "DEP:1"]]
                if q == "DEP:3":
                    continue
            elif q[:3] == "DEP":
                steps = [[q], ["timeout", "DEP:1", "DSL:0", "raw:0"], ["timeout"]]
            else:
                steps = [[q], REQ2, ["timeout", "DEP:1"]]
            add("dep-tx:%s:%s" % (brty, q), "dep_target_session", brty=brty,
                atr="fixed:0", first="symm:0", steps=steps, send_len=5)
    for role in ("Initiator", "Target"):
        for brty, delay in (("106A", 0.05), ("424F", 0.01)):
            add("dep-chain:%s:%s" % (role, brty), "dep_endless_chain", role=role, brty=brty,
                delay=delay)
    # (3) llc activation
    shapes = ["none", "raw:0", "raw:3", "raw:5", "raw:6", "raw:7"] + \
        ["ffm:%d" % n for n in range(0, (5 if quick else 8) + 1)] + \
        ["tlv:1", "tlv:2", "tlv:3", "tlv:4", "tlv:7", "tlv:5", "tlv:0", "tlv:1,255",
         "tlv:1,2", "tlv:2,3", "tlv:3,4", "tlv:4,7", "tlv:1,2,3"]
    if not quick:
        shapes += ["raw:8", "raw:9", "tlv:1,2,3,4", "tlv:7,1,255", "tlv:2,2", "tlv:6,4", "tlv:3,3"]
    for shape in shapes:
        for role in ("Initiator", "Target"):
            if role == "Target" and quick and not shape.startswith("tlv"):
                continue
            add("llc-act:%s:%s" % (role, shape), "llc_activate", role=role, shape=shape,
                then_run=shape.startswith("tlv") or shape in ("ffm:3", "ffm:4"))
    # (3) llc run loop
    nmax = 6 if quick else 9
    for where in sorted(ADDR) + ["0", "1"]:
        add("llc-run:%s:2-4" % where, "llc_run", role="Target", where=where, n=[2, 3, 4],
            ptype=None, drained=False)
        for n in range(5, nmax + 1):
            role = "Initiator" if n % 2 else "Target"
            if where in ("0", "1") and n >= 6:
                for t in range(16):
                    add("llc-run:%s:%d:%s" % (where, n, NAMES[t]), "llc_run", role=role,
                        where=where, n=n, ptype=t, drained=bool(n % 2))
            else:
                add("llc-run:%s:%d" % (where, n), "llc_run", role=role,
                    where=where, n=n, ptype=None, drained=bool(n % 2))
    add("llc-run:short", "llc_run", role="Target", where="0", n=[0, 1], ptype=None,
        drained=False)
    add("llc-run:short-1", "llc_run", role="Initiator", where="1", n=[0, 1], ptype=None,
        drained=True)
    AG = [[["est", 2, 3], ["est", 3, 12]], [["listen", 4, 4], ["listen", 2, 4]],
          [["est_listen", 3, 12], ["est_listen", 2, 5], ["est_listen", 3, 13]],
          [["ldl", 3, 3], ["ldl", 2, 3], ["raw", 2, 8]], [["connect", 2, 6], ["connect", 3, 7]],
          [["est", 3, 12], ["disconnect", 3, 7], ["close_wait", 3, 12]]]
    for i, subs in enumerate(AG):
        add("llc-agf:%d" % i, "llc_run_agf", role="Initiator" if i % 2 else "Target", subs=subs)
    for depth in (2, 60, 543):
        add("llc-nested:%d" % depth, "llc_run_nested", role="Target", depth=depth)
    # (5) snep / handover
    SL = [[0], [1], [5], [6], [7], [9], [10], [11], [6, 0], [6, 1], [6, 3], [10, 2], [6, 2, 2],
          [0, 6], [6, 0, 2], [10, 0], [10, 0, 6]]
    if not quick:
        SL += [[12], [14], [6, 6], [8, 1, 1], [6, 0, 2], [10, 4, 1]]
    for i, group in enumerate(chunks(SL, 4)):
        for miu, ml in ((128, "big"), (6, "sym")):
            add("snep-srv:%d:%d" % (i, miu), "snep_serve", lens=group, miu_s2c=miu, max_len=ml)
    CL = [[], [0], [1], [5], [6], [7], [6, 1], [6, 0], [8, 2], [6, 2, 2], [0, 6], [8, 0, 2],
          [6, 2, 0]]
    if not quick:
        CL += [[9], [12], [6, 6], [7, 1, 1]]
    for op in ("put", "get"):
        for lens in CL:
            for end in ("close", "silent"):
                if quick and end == "silent" and len(lens) != 1:
                    continue
                add("snep-cli:%s:%s:%s" % (op, lname(lens), end),
                    "snep_client", op=op, lens=lens, end=end,
                    accept="sym" if op == "get" else "default")
    # a request of several fragments: what the server says (or does not say)
    # after the first one
    for op in ("put", "get"):
        for lens in ([], [0], [5], [6], [6, 6], [7]):
            for end in ("close", "silent"):
                add("snep-cli-frag:%s:%s:%s" % (op, lname(lens), end),
                    "snep_client", op=op, lens=lens, end=end, reqlen=300,
                    accept="sym" if op == "get" else "default")
    HL = [[0], [1], [3], [2, 2], [0, 1, 0], [1, 1, 1], [0, 0], [0, 2], [2, 0], [1, 0, 2]] + \
        ([] if quick else [[4, 4], [1, 1, 1, 1], [2, 0, 0, 1]])
    for i, group in enumerate(chunks(HL, 3)):
        for miu in (128, 4):
            add("ho-srv:%d:%d" % (i, miu), "handover_serve", lens=group, miu_s2c=miu)
    HC = [[], [0], [1], [3], [0, 2], [2, 0], [1, 0, 2], [0, 0], [2, 2]]
    for op in ("octets", "records"):
        for i, group in enumerate(chunks(HC, 3)):
            for end in ("close", "silent"):
                add("ho-cli:%s:%d:%s" % (op, i, end), "handover_client", op=op, lens=group,
                    end=end)
    # (7) application calls parked by the peer
    for call in sorted(APP_CASES):
        add("app-blocked:%s" % call, "app_blocked", call=call, enders=sorted(APP_CASES[call]))
    # (7b) a peer that ignores the receive window
    for rw in (1, 2, 15):
        for how in ("single", "agf"):
            add("window-flood:%d:%s" % (rw, how), "window_flood", rw=rw,
                count=min(rw + 4, 18) if rw < 15 else 18, how=how)
    # (6) connect()
    for role in ("initiator", "target"):
        for shape in ("none", "raw:6", "ffm:0", "ffm:3", "ffm:4", "tlv:1", "tlv:2", "tlv:3",
                      "tlv:4", "tlv:7", "tlv:1,2,3,4"):
            add("connect-llcp:%s:%s" % (role, shape), "connect_llcp", role=role, shape=shape,
                where="free", n=0)
        for where in sorted(ADDR):
            add("connect-llcp:%s:%s" % (role, where), "connect_llcp", role=role,
                shape="ok", where=where, n=[2, 3] if quick else [2, 3, 4, 5])
    for atr in ("any:0", "any:2", "hdr:0", "hdr:14", "valid:0", "valid:3", "fixed:0"):
        add("connect-acm:" + atr, "connect_llcp_acm", atr=atr)
    US = [[], ["raw:0"], ["raw:1"], ["raw:2"], ["raw:3"], ["PSL:0"], ["PSL:1"], ["PSL:2"],
          ["PSL:3"], ["PSL:3", "raw:2"], ["PSL:3", "symm:0"], ["DEP:1"], ["symm:0"], ["DSL:0"],
          ["DSL:1"], ["symm:0", "symm:0"]]
    for brty in ("106A", "212F"):
        for i, group in enumerate(chunks(US, 4)):
            add("connect-udp:%s:%d" % (brty, i), "connect_udp_target", brty=brty, shapes=group)
    CC = [[1], [5], [9], [5, 0], [5, 1], [5, 6], [9, 10], [5, 2, 6]] + \
        ([] if quick else [[11], [5, 11], [5, 3]])
    for i, group in enumerate(chunks(CC, 3)):
        add("connect-card:%d" % i, "connect_card", lens=group)
    # (4) type 3 tag emulation
    add("tt3:raw:0-4", "tt3_command", shape="raw", n=[0, 1, 2, 3, 4])
    for n in range(5, (6 if quick else 8) + 1):
        add("tt3:raw:%d" % n, "tt3_command", shape="raw", n=n)
    for code in ("04", "06", "08", "0C", "0A"):
        add("tt3:%s:0-2" % code, "tt3_command", shape=code, n=[0, 1, 2])
        for n in range(3, (4 if quick else 6) + 1):
            add("tt3:%s:%d" % (code, n), "tt3_command", shape=code, n=n)
    for code in (6, 8):
        for nserv, nblk, tail in ((1, 0, 0), (1, 1, 0), (1, 2, 0), (1, 3, 0), (2, 2, 0),
                                  (1, 2, 16), (1, 3, 16), (1, 4, 17), (2, 5, 32)):
            if code == 6 and tail or quick and nserv == 2 and tail:
                continue
            add("tt3-rw:%02x:%d:%d:%d" % (code, nserv, nblk, tail), "tt3_rw",
                code=code, nserv=nserv, nblk=nblk, tail=tail)
    for code in (6, 8):
        for n in (1, 8, 9, 12, 15, 16):
            for forms in (["2"], ["3", "mixed"]):
                if code == 8 and (16 + 3 * n if forms != ["2"] else 16 + 2 * n) > 254:
                    continue
                add("tt3-blocks:%02x:%d:%s" % (code, n, forms[0]), "tt3_blocks", code=code, n=n,
                    forms=forms, data=["full", "odd", "short", "none"] if n > 1 else
                    ["full", "odd", "none"])
    add("tt3-dialog", "tt3_dialog", lens=[[6, 6], [6, 0], [6, 1], [10, 10], [6, 3, 6]])
    return P


MUST_REACH = ["snep:client-request-fragmented", "window-flood:flooded", "window-flood:application-read", "pdu:decode-error", "pdu:decoded", "pdu:nested-agf-done",
              "dep:pdu-protocol-error", "dep:pdu-decoded", "dep:pdu-not-mine",
              "dep:frame-error", "dep:frame-decoded",
              "dep:initiator-exchanged", "dep:initiator-exchange-error",
              "dep:initiator-not-activated", "dep:target-tox-ok", "dep:target-tox-exc", "dep:endless-chain-ended",
              "dep:initiator-activated", "dep:target-not-activated",
              "dep:target-activated", "dep:target-first-request", "dep:target-exchanged",
              "llc:not-activated", "llc:activated", "llc:ran-with-peer-parameters",
              "llc:run-returned",
              "snep:server-returned", "snep:client-returned", "snep:client-error",
              "handover:server-returned", "connect:llcp-link-ran", "connect:llcp-no-link",
              "connect:llcp-acm-link-ran", "connect:llcp-acm-no-link",
              "connect:udp-target-link-ran", "connect:udp-target-no-link",
              "connect:card-returned",
              "handover:client-returned", "app:came-back", "app:still-asleep-as-expected",
              "tt3:ignored", "tt3:answered", "tt3:dialog-ended",
              "tt3:block-list-answered", "tt3:block-list-ignored"]
LIMITS = {"quick": dict(witness_cap=30), "thorough": dict(witness_cap=120)}
BOUNDS = {
    "quick": "pdu.decode (+str/len of the result): every byte string of 0..6 octets; aggregates "
    "of 2 sub-PDUs of 2..4 symbolic octets and symbolic length fields; AGF-in-AGF nesting "
    "1..3 (symbolic innermost PDU) and 50, 200, 543 levels (2174 octets). dep: every PDU "
    "class' decode() with code bytes + 0..5 (ATR: 0..19) symbolic octets and 0..3 raw octets; "
    "decode_frame of both roles at 106A/212F with 0..6 raw octets and framed PDUs with 0..4 "
    "(ATR: 0,1,9,13..17) symbolic octets; Initiator.exchange+deactivate with 2 arbitrary "
    "answers (12 shapes: silence, CRC error, raw 0/3 octets, framed DEP/ATR/PSL/DSL/RLS with "
    "0..3 symbolic octets), also chained with DID; Initiator.activate in active (ATR_RES "
    "from sense_dep: 12 shapes) and passive A/F mode (ATR_RES and PSL_RES frames arbitrary); "
    "Target.activate with ATR_REQ of 16..22 octets (symbolic parameters / general bytes / "
    "fully symbolic) and arbitrary first DEP_REQ, Target.exchange x2 + deactivate with 2 "
    "arbitrary requests (15 shapes), send_timeout_extension. llc.activate in both roles "
    "with general bytes: none, 0..7 fully symbolic, magic + 0..5 symbolic, 13 TLV "
    "structures (symbolic values, lengths around the correct one, truncated), then one run "
    "loop; llc.run with a SAP table holding raw, logical data link, data link connection "
    "in LISTEN / CONNECT / CLOSED / ESTABLISHED (with and without listener) / CLOSE_WAIT / "
    "DISCONNECT and a free SAP, SAP 0 and SAP 1: one received frame of 0..6 symbolic octets "
    "per destination (ssap, type, payload symbolic), aggregates to these sockets, nested "
    "aggregate of 2/60/543 levels, then two SYMM and silence. Type 3 Tag emulation: every "
    "command of 0..6 octets, every command code 04/06/08/0C/0A with the emulation's IDm + "
    "0..4 symbolic octets, read/write with 1-2 symbolic service codes, block count from "
    "{0,1,2,3,15,16,255}, 0..5 block list octets, up to 32 data octets; well-formed read/"
    "write commands with 4 service lists (registered / unregistered codes) and block lists "
    "of 1, 8, 9, 12, 15, 16 elements in 2 byte / 3 byte / mixed form, every block number "
    "symbolically inside / outside the tag memory, service list order nibble symbolic at the first, ninth and last element, "
    "write data complete / one octet short / one block short / absent (at most what a 255 "
    "octet frame carries); command dialogs via "
    "send_response. SNEP server _serve: 13 fragment sequences (0..11 octets, up to 3 "
    "fragments, all octets symbolic), MIU 128 / 6, NDEF decoding outcome drawn per call; "
    "SNEP client put/get with 10 response fragment sequences, server closing or silent; "
    "handover server serve with 10 fragment sequences, handover client recv_octets / "
    "recv_records with 9 (zero-length fragments first, in the middle and after a complete "
    "message in all four; the NDEF stub yields no records for no octets like ndeflib). "
    "Application calls asleep because of peer-controlled state (send() on an exhausted "
    "remote receive window RW 1/2, recv(), accept(), connect()) while the peer sends DISC / "
    "DM (any reason) / FRMR / RR / CC / only SYMM: the call must be notified on the condition "
    "it sleeps on and come back, or (controls) stay asleep; also send() waiting for its "
    "I PDU to leave the send queue (DISC / DM / FRMR / out-of-sequence I / SYMM) and "
    "connect() followed by recv() with one or two answers to CONNECT (CC, CC+CC and CC+DM "
    "in one AGF, CC then CC, CC then DM). NFC-DEP exchange() of both roles against a peer "
    "that chains More Information PDUs for ever (5 s of virtual time, time-out 1 s). "
    "connect(llcp target) on the real udp driver: ATR_REQ datagram, then 16 sequences of "
    "datagrams (raw 0..3 symbolic octets, PSL_REQ with 0..3 symbolic octets, DEP_REQ, "
    "DSL_REQ, SYMM), then silence. connect(llcp=) in both roles with 11 "
    "general byte shapes and a first LLC frame of 2..3 symbolic octets per SAP; connect as "
    "initiator with an ATR_RES from sense_dep (7 shapes); connect(card=) with 8 command "
    "sequences; added later: a peer that ignores the receive window (RW 1, 2, 15; singly or in one AGF); SNEP client requests of 300 octets whose first fragment the server answers with anything, nothing or a close; I/RR/DISC/CC PDUs from a source address without connection at a listening socket while a thread sits in accept()",
    "thorough": "as quick with: pdu.decode 0..9 octets, aggregates up to 3 sub-PDUs / 9 "
    "octets; dep PDU tails 0..7, raw frames 0..8, ATR tails 0..19; Initiator.exchange with 3 "
    "arbitrary answers; all PSL shapes in activation; Target with 3 arbitrary requests (2 + silence after a first DEP_REQ); llc "
    "general bytes up to 9 raw / magic + 8 octets and 20 TLV structures in both roles; llc.run "
    "frames of 0..9 octets; Type 3 commands 0..8 raw and code + 0..6; SNEP 19 / 14 sequences; "
    "connect first frame 2..5 octets",
}
OUTSIDE = [
    "byte strings longer than the stated bounds other than the constructed ones (nested "
    "AGF, structured TLV sequences, framed PDUs with symbolic tails)",
    "LLCP encryption (nfc/llcp/sec.py: OpenSSL through ctypes) - links run with sec=False; "
    "the DPS PDU exchange of run_as_initiator/run_as_target is not executed",
    "NDEF decoding of SNEP / handover octets (ndeflib): replaced by a choice of outcomes",
    "real thread scheduling: the link thread's calls run in the calling thread; application "
    "threads that sleep in a socket call are modelled by the state they leave behind",
    "NFC-DEP chaining of received frames longer than one DEP PDU (received LLC frames are "
    "carried in one INF PDU) and LLC frames that arrive while data is still being sent",
    "WKS parameter values other than {0000,0001,0013,00FF,1300,1301,1313,13FF,FF00..FFFF "
    "combinations of 00/13/FF and 00/01/13/FF}: the 16 WKS bits are turned into text bit by "
    "bit at activation",
    "drivers: the frontend / device driver is a script that returns the given bytes or "
    "raises the driver's documented exceptions (C13/C14 cover the drivers)",
    "Type 4 / Type 2 tag emulation (nfc.tag.emulate only emulates Type 3)",
    "peer behaviour over many frames (more than 3 arbitrary frames per conversation)",
]
ASSUMPTIONS = [
    "udp driver: socket / select of nfc.clf.udp replaced by a scripted peer; a datagram is "
    "an object whose second token stands for the hex text of the octets and "
    "nfc.clf.udp.unhexlify maps it back (datagram text syntax itself: C13)",
    "ChainPeer: the endless chain arrives with 10 / 50 ms per frame; exchange() with "
    "time-out 0 transmits only (as the drivers do)",
    "env.coop (cooperative locks / conditions, used read-only) for the family of sleeping "
    "application calls: one application call, link steps (dispatch of the peer's PDU + two "
    "collect() turns) run where the call sleeps in wait() without time-out, never earlier "
    "(NoPreemption); the peer goes on with SYMM (3 further link steps)",
    "env.peer.ScriptClf / ScriptInitiator / ScriptTarget: the frontend under nfc.dep and the "
    "MAC under the LLC answer from a script; silence (TimeoutError) when it is exhausted; "
    "an ATR_REQ handed to Target.activate has 16..64 octets (ContactlessFrontend.listen "
    "guarantees it)",
    "env.peer.SymKeyDict in place of the plain dicts llc.snl, ServiceDiscovery.sent, "
    "Type3TagEmulation.services and SnepError.strerr: same contents, look-up by comparison",
    "env.llcp: Condition.wait() without time-out raises WouldBlock (a thread that would "
    "sleep until notified); inside the thread that runs the link nobody else can notify",
    "env.sockpair: reliable boundary preserving connection, client and server stacks "
    "alternate strictly; NdefChoice: ndef.message_decoder raises DecodeError or returns one "
    "record, drawn per call",
    "env.recdevice RecDevice + FuzzPeer / FuzzReader: a driver that frames the given LLC "
    "frames / tag commands correctly (NFC-DEP INF PDUs, length bytes)",
    "Type 3 emulation services as registered by examples/tagtool.py (env.tags.Tt3EmuSim)",
    "the virtual clock of symx.envpatch (time-outs expire by computation, not by waiting)",
]
