"""C04 - NFC-DEP delivers each payload exactly once, intact, or reports failure.

Real code executed: nfc.dep.Initiator.activate/exchange/
send_dep_req_recv_dep_res (request_attention, request_retransmission)/
send_req_recv_res/encode_frame/decode_frame/deactivate, nfc.dep.Target.
activate/exchange/send_dep_res_recv_dep_req/send_res_recv_req/encode_frame/
decode_frame, the ATR/PSL/DEP/RLS PDU classes.  Both sides are the real
classes, activated through their real activate() against env.air (IniClf.sense
and ListenStub), then coupled through Air with one symbolic fault decision per
frame.  Initiator stack and target stack alternate strictly (env.air).
"""
import struct
import nfc.clf
import nfc.dep
from env.air import Air, IniClf, TgtClf, FAULT_NAMES, FrameStorm

PROPERTY = "C04"

LR = (64, 128, 192, 254)
EX_TIMEOUT = 2.0        # initiator exchange() time-out, never binding
TG_TIMEOUT = 30.0       # target exchange() time-out, never binding


class _FixedOs(object):
    """module attribute `os` of nfc.dep: urandom() is a fixed pattern (NFCID3
    values take no part in the property)"""

    @staticmethod
    def urandom(n):
        return bytes(bytearray((7 * i + 1) & 255 for i in range(n)))


class Ini(nfc.dep.Initiator):
    """the real Initiator; the only addition tells Air where one protocol
    step (one request PDU with everything done to get its response) starts"""

    def send_dep_req_recv_dep_res(self, req, rwt, timeout):
        air = self.clf.air
        air.nsteps = getattr(air, 'nsteps', 0) + 1
        air.step = air.nsteps
        return nfc.dep.Initiator.send_dep_req_recv_dep_res(
            self, req, rwt, timeout)


def nominal_miu(lr, did, nad):
    """payload bytes per frame that keep the transport data field (CMD0 CMD1
    PFB [DID] [NAD] payload) within the receiver's LR"""
    return LR[lr] - 3 - (did is not None) - (nad is not None)


def describe(frame):
    if frame is None:
        return "nofault"
    return "%s-%s:%s" % ("req" if frame.sender == 'I' else "rsp",
                         frame.kind or frame.pdu, FAULT_NAMES[frame.fault])


def classify(frames):
    """-> ('clean'|'single'|'multi', last faulty frame)"""
    per, last = {}, None
    for f in frames:
        if f.fault:
            per[f.step] = per.get(f.step, 0) + 1
            last = f
    if not per:
        return 'clean', None
    if None in per or max(per.values()) > 1:
        return 'multi', last
    return 'single', last


def announced_lr(air):
    """(LRi, LRt) as announced on the air: PPi of the ATR_REQ, PPt of the
    ATR_RES actually transmitted (receiver's announcement; independent of
    what either stack derived from it)"""
    lri = lrt = None
    for f in air.frames:
        if f.pdu == 'ATR' and f.sender == 'I' and f.td_len >= 16:
            lri = LR[(f.body[15] >> 4) & 3]
        if f.pdu == 'ATR' and f.sender == 'T' and f.td_len >= 17:
            lrt = LR[(f.body[16] >> 4) & 3]
    return lri, lrt


def check_frames(sx, air, lri, lrt, tag=""):
    """every frame on the air: start byte iff 106A, length byte, and the
    transport data field within what the receiver announced in its ATR"""
    seen_lri, seen_lrt = announced_lr(air)
    if seen_lri is None or seen_lrt is None:
        sx.check(False, "air:no-attribute-exchange" + tag)
    sx.check(seen_lri == LR[lri], "announced-lri-not-the-option" + tag)
    sx.check(seen_lrt == LR[lrt], "announced-lrt-not-the-option" + tag)
    for f in air.frames:
        if f.sender == 'X':
            continue            # not sent by either side
        who = "I>T" if f.sender == 'I' else "T>I"
        name = f.kind or f.pdu or "?"
        sx.check(f.start_byte_ok, "frame-format:%s:%s:start-byte" % (who, name))
        sx.check(f.length_byte_ok, "frame-format:%s:%s:length-byte" % (who, name))
        if f.pdu == 'ATR':
            continue            # sent before the limits are known (<= 64)
        limit = seen_lrt if f.sender == 'I' else seen_lri
        sx.check(f.td_len <= limit, "frame-exceeds-lr:%s:%s%s" % (who, name, tag))


def conversation(sx, tech, brs, lri, lrt, did, nad, shapes, faults,
                 rwt=8, window=40, ex_timeout=EX_TIMEOUT, release=True,
                 foreign=None, rtox=False):
    """one conversation: activate both sides, n application exchanges in
    each direction under a fault script, release.

    shapes: options; one option = [[ka, da, kb, db(, oa, ob)], ...]: the
    initiator's payload k has length ka*miu_i + da, the target's reply
    kb*miu_t + db (oa/ob = 1: in units of the other direction's MIU).
    foreign: None or dict(kinds, frame_did, budget): frames addressed to
    another device appear while the target waits (env.air arm_foreign)."""
    nfc.dep.os = _FixedOs
    shape = sx.pick("shape", shapes)
    n = len(shape)
    miu_i = nominal_miu(lrt, did, nad)      # initiator -> target
    miu_t = nominal_miu(lri, did, None)     # target -> initiator
    # optional s[4], s[5] = 1: the length is counted in units of the MIU of
    # the opposite direction (lengths around multiples of both MIUs)
    A = [sx.bytes("a%d" % k, s[0] * (miu_t if len(s) > 4 and s[4] else miu_i) + s[1])
         for k, s in enumerate(shape)]
    B = [sx.bytes("b%d" % k, s[2] * (miu_i if len(s) > 5 and s[5] else miu_t) + s[3])
         for k, s in enumerate(shape)]

    air = Air(sx, tech=tech, max_faults=faults, window=window)
    ini = Ini(IniClf(air))
    tgt = nfc.dep.Target(TgtClf(air))
    T = dict(recv=[], sent=0, end=None, gb=None)
    I = dict(recv=[], end=None, gb=None)

    def target_stack():
        T['gb'] = tgt.activate(timeout=1.0, lrt=lrt, rwt=rwt, gbt=b"Ffm\x01\x01\x11")
        if T['gb'] is None:
            T['end'] = "not-activated"
            return
        send = None
        while True:
            try:
                data = tgt.exchange(send, TG_TIMEOUT)
            except nfc.clf.CommunicationError as e:
                T['end'] = type(e).__name__
                return
            except struct.error:
                T['end'] = "frame-length-overflow"
                return
            if data is None:
                T['end'] = "None"
                return
            T['recv'].append(data)
            k = T['sent']
            send = B[k] if k < n else b"\xEE"
            T['sent'] = k + 1
            if rtox and k < n and sx.pick("rtox_before_reply_%d" % k, [0, 1]):
                # the target application needs more time for this reply: a
                # response timeout extension request (any value 1..59) that
                # the initiator has to confirm before the reply follows
                tox = sx.int("rtox%d" % k, 1, 12)    # (12 x RWT stays well inside the exchange time-out)
                try:
                    got = tgt.send_timeout_extension(tox)
                except nfc.clf.CommunicationError as e:
                    T['end'] = "rtox:" + type(e).__name__
                    return
                if got is None:
                    # released / deselected while the extension was requested
                    T['end'] = "None"
                    return
                T.setdefault('rtox', []).append((tox, got))
                sx.reach("rtox-requested")

    air.start_target(target_stack)
    try:
        opts = dict(brs=brs, lri=lri, acm=False, gbi=b"Ffm\x01\x01\x11")
        if did is not None:
            opts['did'] = did
        if nad is not None:
            opts['nad'] = nad
        I['gb'] = ini.activate(None, **opts)
        if I['gb'] is None:
            sx.check(False, "activation-failed:initiator")
        air.arm_faults(skip=1)      # the DEP_REQ that ends the target's listen()
        if foreign:
            air.arm_foreign(foreign['kinds'], did, foreign['frame_did'],
                            foreign.get('budget', 1))
        for k in range(n):
            try:
                I['recv'].append(ini.exchange(A[k], ex_timeout))
            except nfc.clf.CommunicationError as e:
                I['end'] = type(e).__name__
                break
            except struct.error:
                I['end'] = "frame-length-overflow"
                break
            except FrameStorm:
                sx.check(False, "endless-exchange:initiator")
            finally:
                air.step = None
        air.faults_on = False
        if release:
            ini.deactivate(release=True)
        air.field_off()
    finally:
        air.abort()

    sx.check(air.late == 0, "conversation-outlasts-target-timeout")
    if T['gb'] is None:
        sx.check(False, "activation-failed:target")
    sx.check(sx.all([same_bytes(sx, T['gb'], b"Ffm\x01\x01\x11"),
                     same_bytes(sx, I['gb'], b"Ffm\x01\x01\x11")]),
             "activation:general-bytes-not-exchanged")
    cls, last = classify(air.frames)
    t_end_ok = "None" if release else "BrokenLinkError"
    why = describe(last) + (":did" if did is not None else "") + \
        (":nad" if nad is not None else "")
    sx.reach("script:" + cls)
    for f in air.frames:
        if f.fault:
            sx.reach("fault:%s:%s" % (describe(f).split(":")[0], FAULT_NAMES[f.fault]))

    # ---- frames addressed to another device leave no trace
    bad = "wrong-data"
    if air.foreign_frames:
        fcfg = "tgt-nodid:frame-did" if did is None else \
            "tgt-did:frame-otherdid" if foreign['frame_did'] else "tgt-did:frame-nodid"
        x = air.foreign_frames[-1]
        bad = "foreign-frame-accepted:%s:%s" % (x.kind, fcfg)
        for x in air.foreign_frames:
            sx.reach("foreign:%s:%s" % (x.kind, fcfg))

    # ---- the air interface
    tag = (":did" if did is not None else "") + (":nad" if nad is not None else "")
    if T['end'] == "frame-length-overflow":
        sx.check(False, "frame-length-overflow:target" + tag)
    if I['end'] == "frame-length-overflow":
        sx.check(False, "frame-length-overflow:initiator" + tag)
    check_frames(sx, air, lri, lrt, (":did" if did is not None else "") +
                 (":nad" if nad is not None else ""))
    sx.check(air.unsolicited == 0, "target-transmits-without-request:" + cls)
    want = ('106A', '212F', '424F')[max(brs, ('106A', '212F', '424F').index(tech))]
    sx.check(ini.target.brty == want and tgt.target.brty == want,
             "bitrate-not-as-selected")

    # ---- what was delivered: never truncated, duplicated, reordered, foreign
    started = len(I['recv']) + (1 if I['end'] else 0)
    for j, data in enumerate(T['recv']):
        if j >= started:
            sx.check(False, bad + ":target-received-extra-payload:%s:%s" % (cls, why))
        if len(data) != len(A[j]):
            sx.check(False, bad + ":target-received-wrong-length:%s:%s" % (cls, why))
        sx.check(sx.eq(data, A[j]), bad + ":target-received-wrong-content:%s:%s" % (cls, why))
    for j, data in enumerate(I['recv']):
        if j >= T['sent']:
            sx.check(False, bad + ":initiator-received-unsent-payload:%s:%s" % (cls, why))
        if len(data) != len(B[j]):
            sx.check(False, bad + ":initiator-received-wrong-length:%s:%s" % (cls, why))
        sx.check(sx.eq(data, B[j]), bad + ":initiator-received-wrong-content:%s:%s" % (cls, why))
    if len(T['recv']) < len(I['recv']):
        sx.check(False, bad + ":exchange-completed-without-delivery:%s:%s" % (cls, why))

    for x in air.foreign_frames:
        if x.answer is not None:
            sx.check(False, "foreign-frame-answered:%s:%s" % (x.kind, fcfg))

    for tox, got in T.get('rtox', []):
        sx.check(sx.eq(got, tox), "rtox:value-confirmed-by-initiator-differs")
    # ---- completion
    if air.foreign_frames and cls in ('clean', 'single') and ex_timeout >= EX_TIMEOUT:
        if I['end'] is not None:
            sx.check(False, bad + ":initiator-failed:" + cls)
        if T['end'] != t_end_ok or len(T['recv']) != n:
            sx.check(False, bad + ":target-stopped:" + cls)
    if cls == 'clean':
        if I['end'] is not None:
            sx.check(False, "fault-free-exchange-failed:initiator:" + I['end'])
        if T['end'] != t_end_ok or len(T['recv']) != n:
            sx.check(False, "fault-free-exchange-failed:target:" + str(T['end']))
    elif cls == 'single' and ex_timeout < EX_TIMEOUT:
        # short deadline: one lost frame may legitimately exhaust it
        if I['end'] not in (None, "TimeoutError"):
            sx.check(False, "single-fault-not-recovered:initiator:" + why)
        if I['end'] == "TimeoutError":
            sx.reach("deadline-expired")
    elif cls == 'single' and last.kind == "RTOX":
        # a lost or corrupted timeout extension PDU: the initiator asks again
        # with ATN / NAK and gets the RTOX request once more, which nfc.dep
        # (following the NFC Forum rule for RTOX in response to ATN or NACK)
        # treats as a protocol error - reported as such, nothing more demanded
        sx.reach("fault-on-timeout-extension-pdu")
        if I['end'] not in (None, "ProtocolError", "TimeoutError"):
            sx.check(False, "fault-on-rtox-pdu:initiator-ends-with-" + str(I['end']))
    elif cls == 'single':
        if I['end'] is not None:
            sx.check(False, "single-fault-not-recovered:initiator:" + why)
        if T['end'] != t_end_ok or len(T['recv']) != n:
            sx.check(False, "single-fault-not-recovered:target:" + why)
    elif cls == 'multi':
        # two faults in one step: the attention request that follows a lost
        # frame is itself a request/response pair; when its response arrives
        # corrupted the initiator repeats the attention request (the target
        # is alive) and the exchange goes on
        faulty = [f for f in air.frames if f.fault]
        if len(faulty) == 2 and faulty[0].step == faulty[1].step and \
                faulty[0].step is not None and ex_timeout >= EX_TIMEOUT and \
                FAULT_NAMES[faulty[0].fault] == "lose" and \
                faulty[1].sender == 'T' and faulty[1].kind == "ATN" and \
                FAULT_NAMES[faulty[1].fault] == "corrupt":
            sx.reach("lost-frame-then-corrupted-attention-response")
            if I['end'] is not None:
                sx.check(False, "corrupted-attention-response-not-recovered:initiator:" + why)
            if T['end'] != t_end_ok or len(T['recv']) != n:
                sx.check(False, "corrupted-attention-response-not-recovered:target:" + why)
    if I['end'] is None:
        sx.reach("completed:" + cls)
    else:
        sx.reach("failed:" + cls)
    if any(len(a) > miu_i for a in A):
        sx.reach("chaining:initiator")
    if any(len(b) > miu_t for b in B):
        sx.reach("chaining:target")
    if sum(1 for f in air.frames if f.sender == 'I' and f.kind in ("INF", "INF+", "ACK")
           and not f.fault) > 4 and I['end'] is None:
        sx.reach("pni-wrap")
    sx.reach("framing:" + want)
    more = {'I': False, 'T': False}
    for f in air.frames:
        if f.sender in more and f.kind in ("INF", "INF+") and not f.fault:
            sx.reach("chunk:%s:%s:pni%d" % ("I>T" if f.sender == 'I' else "T>I",
                                            "cont" if more[f.sender] else "first", f.pni))
            more[f.sender] = f.kind == "INF+"
    sx.reach("target-ends:" + str(T['end']))
    if did is not None:
        sx.reach("did")
    if nad is not None:
        sx.reach("nad")
    return dict(cls=cls, i=I['end'] or "ok", t=T['end'], ni=len(I['recv']),
                nt=len(T['recv']), air=" ".join(str(f) for f in air.frames))


def same_bytes(sx, a, b):
    if a is None or b is None or len(a) != len(b):
        return False
    return sx.eq(a, b)


# ----------------------------------------------------------------------------
# partitions
# ----------------------------------------------------------------------------
ONE = [0, 1]            # 1 byte
M_1 = [1, -1]
M = [1, 0]
M1 = [1, 1]
M2 = [1, 2]
MM = [2, 0]
MM1 = [2, 1]


def rtox_in_response_chain(sx, phase):
    """the nfc.dep Initiator against a scripted target (built from nfc.dep's
    own DEP_RES class) that asks for a response timeout extension (RTOX,
    symbolic 1..59) either before its reply (phase 'reply') or in the middle
    of a chained reply, as the answer to the initiator's ACK (phase 'chain';
    the library's own Target never does that, other devices may).  No frame is
    lost or damaged.  The initiator confirms the value and then waits for it:
    the time it gives the driver for the next answer is RTOX x RWT (bounded
    by what is left of the exchange time-out), and the payload arrives."""
    R = nfc.dep.DEP_RES
    tox = sx.int("rtox", 1, 59)
    rwt = 0.01
    chunks = [b"\x01\x02\x03", b"\x04\x05"] if phase == "chain" else [b"\x0A\x0B\x0C"]
    calls = []

    def res(fmt, pni, data=None):
        x = R(R.PFB(fmt, False, False, pni), None, None, data).encode()
        return bytearray([len(x) + 1]) + bytearray(x)

    class Clf(object):
        def exchange(self, data, timeout):
            n = len(calls)
            calls.append((bytearray(data), timeout))
            if phase == "chain":
                script = [lambda: res(R.MoreInformation, 0, bytearray(chunks[0])),
                          lambda: res(R.TimeoutExtension, 0, sx.mkbytes([tox], True)),
                          lambda: res(R.LastInformation, 1, bytearray(chunks[1]))]
            else:
                script = [lambda: res(R.TimeoutExtension, 0, sx.mkbytes([tox], True)),
                          lambda: res(R.LastInformation, 0, bytearray(chunks[0]))]
            if n >= len(script):
                raise nfc.clf.TimeoutError("script over")
            return script[n]()

    d = nfc.dep.Initiator(Clf())
    d.target = nfc.clf.RemoteTarget("212F")
    d.miu, d.did, d.nad, d.rwt, d.pni = 64, None, None, rwt, 0
    try:
        got = d.exchange(b"\x55", 5.0)
    except nfc.clf.CommunicationError as e:
        sx.check(False, "rtox-in-%s:fault-free-exchange-failed:%s" % (phase, type(e).__name__))
    sx.check(bytes(got) == b"".join(chunks), "rtox-in-%s:payload-not-delivered" % phase)
    k = 1 if phase == "chain" else 0        # index of the RTOX request in the script
    sx.check(len(calls) == k + 2, "rtox-in-%s:number-of-requests" % phase)
    cmd, timeout = calls[k + 1]
    # the confirmation: supervisory PDU with the timeout bit and the value
    sx.check(sx.all([cmd[3] & 0xE0 == 0x80, cmd[3] & 0x10 == 0x10, sx.eq(cmd[-1], tox)]),
             "rtox-in-%s:value-not-confirmed" % phase)
    sx.check(timeout >= tox * rwt - 1e-9, "rtox-in-%s:initiator-waits-less-than-rtox-times-rwt" % phase)
    sx.reach("rtox-scripted-target:" + phase)
    return [phase, len(calls)]


def partitions(tier):
    quick = tier == "quick"
    parts = []
    for phase in ("reply", "chain"):
        parts.append(dict(name="rtox-scripted-target:" + phase, fn="rtox_in_response_chain",
                          params=dict(phase=phase)))

    def conv(name, shapes, faults, tech='106A', brs=0, lri=0, lrt=0, did=None,
             nad=None, **kw):
        if tech == '212F' and brs == 0:
            brs = 1         # the initiator polls 212F only when brs > 0
        params = dict(tech=tech, brs=brs, lri=lri, lrt=lrt, did=did, nad=nad,
                      shapes=shapes, faults=faults)
        params.update(kw)
        parts.append(dict(name=name, fn="conversation", params=params))

    # ---- one exchange, every length pair, LR 64 both ways, both framings
    lens = [ONE, M_1, M, M1, MM, MM1]
    k = 2 if quick else 3
    for tech in ('106A', '212F'):
        for ia, a in enumerate(lens):
            for ib, b in enumerate(lens):
                if quick and (a in (M_1, MM) or b in (M_1, MM)):
                    continue
                conv("one:%s:%d.%d:f%d" % (tech, ia, ib, k), [[a + b]], k, tech=tech)
    if quick:
        conv("one:106A:0.0:f3", [[ONE + ONE]], 3)
        conv("one:212F:3.3:f3", [[M1 + M1]], 3, tech='212F')
    # ---- the target application asks for response timeout extensions
    # (Target.send_timeout_extension) before some of its replies
    for tech in ('106A', '212F'):
        conv("rtox:%s:f1" % tech, [[ONE + M1, M1 + ONE], [MM1 + ONE, ONE + MM1]], 1, tech=tech, rtox=True)
    conv("rtox:did:f1", [[ONE + M1, M1 + ONE]], 1, did=1, rtox=True)
    # ---- conversations beyond the PNI wrap
    two = [[M1 + M1, ONE + M1], [ONE + ONE, M1 + ONE], [MM1 + ONE, ONE + MM1],
           [M + M, M + M]]
    for i, s in enumerate(two):
        conv("two:106A:%d:f2" % i, [s], 2)
        if not quick:
            conv("two:212F:%d:f2" % i, [s], 2, tech='212F')
    if quick:
        conv("three:106A:f1", [[ONE + M1, M1 + ONE, M + M]], 1)
    else:
        for i, s in enumerate(two):
            conv("two:%s:%d:f3" % (('106A', '212F')[i & 1], i), [s], 3,
                 tech=('106A', '212F')[i & 1])
        conv("one:106A:0.0:f4", [[ONE + ONE]], 4)
        conv("one:212F:3.3:f4", [[M1 + M1]], 4, tech='212F')
        conv("three:106A:f2", [[ONE + M1, M1 + ONE, M + M]], 2)
        conv("three:212F:f2", [[M1 + ONE, ONE + ONE, ONE + M1]], 2, tech='212F')
        conv("four:106A:f2", [[ONE + ONE, M1 + ONE, ONE + M1, M + M]], 2)
        conv("four:212F:f1", [[M1 + M1, M1 + M1, MM1 + ONE, ONE + MM1]], 1, tech='212F')
        conv("four:106A:f3", [[ONE + ONE, ONE + ONE, ONE + ONE, ONE + ONE]], 3)
    # ---- other LR values (longer frames)
    for lri in range(4):
        for lrt in range(4):
            if (lri, lrt) == (0, 0):
                continue
            if quick and (lri + lrt) % 3 != 0:
                continue
            shapes = [[M + M], [M1 + M1]] if quick else \
                [[M + M], [M1 + M1], [M_1 + MM1], [MM + ONE]]
            conv("lr:%d.%d:f%d" % (lri, lrt, 1 if quick else 2), shapes,
                 1 if quick else 2, lri=lri, lrt=lrt,
                 tech='106A' if (lri + lrt) & 1 else '212F')
    # ---- bit rate change by PSL (424F framing = 212F framing)
    for tech, brs in (('106A', 1), ('106A', 2), ('212F', 2), ('212F', 1)):
        conv("psl:%s:brs%d:f%d" % (tech, brs, 1 if quick else 2), [[M1 + M1]],
             1 if quick else 2, tech=tech, brs=brs)
    # ---- PSL with different length reduction values on the two sides:
    # lengths around multiples of both MIUs
    def both(k, d):
        return [[k, d, k, d], [k, d, k, d, 1, 1]]
    pslcfg = (('106A', 1), ('106A', 2), ('212F', 2))
    pairs = [(a, b) for a in range(4) for b in range(4) if a != b]
    if quick:
        pairs = [(3, 0), (0, 3), (2, 1), (1, 3), (3, 2), (0, 1)]
    for i, (a, b) in enumerate(pairs):
        for j, (tech, brs) in enumerate(pslcfg):
            if quick and j != i % 3:
                continue
            for did in ((None, 6)[(i + j) & 1],) if quick else (None, 6):
                shapes = [[x] for x in both(1, 0) + both(1, 1)]
                if not quick:
                    shapes += [[x] for x in both(2, 1)]
                conv("psl-lr:%s:brs%d:%d.%d:%s:f1" % (
                    tech, brs, a, b, "did" if did else "nodid"), shapes, 1,
                    tech=tech, brs=brs, lri=a, lrt=b, did=did)
    # ---- DID and NAD in use
    conv("did:106A:f1", [[ONE + ONE], [M + M], [M1 + M2]], 1, did=1)
    conv("nad:106A:f1", [[ONE + ONE], [M + M], [M1 + M1]], 1, nad=2)
    conv("did:lr254:106A:f1", [[M + M2], [M1 + M1]], 1, did=1, lri=3, lrt=3)
    if not quick:
        conv("did:212F:f2", [[ONE + ONE], [M + M], [M1 + M2]], 2, did=7, tech='212F')
        conv("nad:212F:f2", [[M + M], [M1 + M1], [MM1 + ONE]], 2, nad=9, tech='212F')
        conv("did+nad:106A:f1", [[M + M], [M1 + M2]], 1, did=3, nad=5, lri=1, lrt=2)
    # ---- a deadline that one lost frame exhausts (RWT 77.33 ms, 77.5 ms)
    conv("deadline:106A:f1", [[ONE + ONE], [M1 + M1]], 1 if quick else 2,
         ex_timeout=0.0775)
    # ---- no release: the initiator just switches its field off
    conv("field-off:212F:f1", [[M1 + M1, ONE + ONE]], 1 if quick else 2,
         tech='212F', release=False)
    # ---- chained payloads starting at every PNI: p single-PDU exchanges, then
    # 2 or 3 chunks initiator->target, target->initiator, and both, then one
    # more single exchange; a payload of 5 chunks each way
    def at_pni(p):
        pre = [ONE + ONE] * p
        return [pre + [a + b, ONE + ONE] for a, b in
                ((M1, ONE), (MM1, ONE), (ONE, M1), (ONE, MM1), (M1, M1), (MM1, MM1))]
    conv("pni:106A:f0", at_pni(0) + at_pni(1) + at_pni(2) + at_pni(3) +
         [[[4, 1, 0, 1]], [[0, 1, 4, 1]], [ONE + ONE, [4, 1, 4, 1]]], 0)
    for p in range(4):
        tech = ('106A', '212F')[p & 1]
        if quick:
            conv("pni:%s:p%d:f1" % (tech, p), at_pni(p)[1::2], 1, tech=tech)
        else:
            conv("pni:%s:p%d:f0" % (('212F', '106A')[p & 1], p), at_pni(p), 0,
                 tech=('212F', '106A')[p & 1])
            conv("pni:%s:p%d:f1" % (tech, p), at_pni(p), 1, tech=tech)
            conv("pni:%s:p%d:f2" % (tech, p), at_pni(p)[1::2], 2, tech=tech)
    # ---- frames addressed to another device while the target waits
    allk = ["INF", "ATN", "DSL", "RLS"]
    talk = [[ONE + ONE, M1 + M1, ONE + ONE]]
    conv("foreign:nodid:106A:f0", talk, 0, foreign=dict(kinds=allk, frame_did=True))
    conv("foreign:nodid:212F:f1", talk, 1, tech='212F',
         foreign=dict(kinds=allk, frame_did=True))
    conv("foreign:did:otherdid:106A:f0", talk, 0, did=5,
         foreign=dict(kinds=allk, frame_did=True))
    conv("foreign:did:nodid:212F:f0", talk, 0, did=1, tech='212F',
         foreign=dict(kinds=allk, frame_did=False))
    if not quick:
        conv("foreign:nodid:106A:f1:x2", talk, 1,
             foreign=dict(kinds=allk, frame_did=True, budget=2))
        conv("foreign:did:otherdid:212F:f1", talk, 1, did=255, tech='212F',
             foreign=dict(kinds=allk, frame_did=True))
        conv("foreign:did:nodid:106A:f1", talk, 1, did=9,
             foreign=dict(kinds=allk, frame_did=False))
        conv("foreign:nodid:106A:f2", [[M1 + M1]], 2,
             foreign=dict(kinds=["INF", "RLS"], frame_did=True))
    # ---- response waiting times other than the default
    conv("rwt0:106A:f1", [[M1 + ONE]], 1, rwt=0)
    if not quick:
        conv("rwt14:212F:f2", [[ONE + M1]], 2, rwt=14, tech='212F', ex_timeout=30.0)
    return parts


MUST_REACH = ["rtox-scripted-target:reply", "rtox-scripted-target:chain", "rtox-requested", "lost-frame-then-corrupted-attention-response", "script:clean", "script:single", "script:multi", "completed:clean",
              "completed:single", "completed:multi", "failed:multi",
              "chaining:initiator", "chaining:target", "pni-wrap",
              "framing:106A", "framing:212F", "framing:424F", "did", "nad",
              "deadline-expired", "target-ends:None", "target-ends:BrokenLinkError",
              ] + ["chunk:%s:%s:pni%d" % (d, c, p) for d in ("I>T", "T>I")
                   for c in ("first", "cont") for p in range(4)] + [
              "foreign:%s:%s" % (k, c) for k in ("INF", "ATN", "DSL", "RLS")
              for c in ("tgt-nodid:frame-did", "tgt-did:frame-otherdid",
                        "tgt-did:frame-nodid")] + [
              "fault:req-INF:lose", "fault:req-INF:corrupt",
              "fault:req-INF+:lose", "fault:req-INF+:corrupt",
              "fault:rsp-INF:lose", "fault:rsp-INF:corrupt",
              "fault:rsp-INF+:lose", "fault:rsp-INF+:corrupt",
              "fault:req-ACK:lose", "fault:req-ACK:corrupt",
              "fault:rsp-ACK:lose", "fault:rsp-ACK:corrupt",
              "fault:req-ATN:lose", "fault:rsp-ATN:corrupt",
              "fault:req-NAK:corrupt", "fault:req-NAK:lose"]
BOUNDS = {
    "quick": "real Initiator and real Target, both brought up by their real "
    "activate() (ATR_REQ/ATR_RES, PSL where the bit rate changes, first "
    "DEP_REQ through ListenStub), all payload bytes symbolic; every fault "
    "script over {deliver, lose, corrupt} per request and per response frame "
    "with <= 2 faults among the first 40 frames (<= 3 for two short "
    "conversations), decided lazily per frame actually sent (recovery frames "
    "ATN/NAK/retransmissions included); one exchange with payload lengths "
    "{1, miu, miu+1, 2miu+1}^2 at LR 64 both ways, 106A (start byte) and 212F "
    "framing; conversations of 2 and 3 exchanges (PNI wraps) with <= 2 / 1 "
    "faults; LR pairs (0,3) (1,2) (2,1) (3,0) (3,3) with lengths miu, miu+1 "
    "and 1 fault; PSL to 212F/424F; DID=1 and NAD=2 with 1 fault; RWT code "
"0 and 8; PSL (106A->212F, 106A->424F, 212F->424F) with 6 pairs lri != lrt, "
    "DID on/off alternating, payload lengths miu, miu+1 counted in both "
    "sides' MIU, 1 fault; chained payloads of 2 and 3 frames starting at every PNI 0..3 "
    "(p single-frame exchanges first) initiator->target, target->initiator "
    "and both in one exchange, fault free (24 conversations, plus 5-frame "
    "payloads each way) and half of them with 1 fault: every (direction, "
    "first/continuation frame, PNI) combination is a must-reach label; "
    "frames addressed to another device (DEP_REQ INF with symbolic payload, "
    "symbolic DID byte and symbolic PNI, ATN, DSL_REQ, RLS_REQ) seen by the "
    "waiting target before any one of the initiator's requests of a 3-exchange "
    "conversation: target without DID / frame with DID, target with DID / "
    "other DID, target with DID / frame without DID, 0 faults (1 fault for "
    "the first configuration); one conversation ended by field-off instead of release; one variant with a 77.5 ms deadline (RWT 77.33 ms); added later: a lost frame followed by a corrupted attention response; the target application calls send_timeout_extension() (RTOX 1..12, symbolic) before replies, with one fault; a scripted target that requests RTOX (1..59, symbolic) before its reply or inside a two-chunk chained reply (212F, RWT 10 ms, no fault)",
    "thorough": "as quick with <= 3 faults for all 36 length pairs "
    "{1, miu-1, miu, miu+1, 2miu, 2miu+1}^2 of one exchange in both framings, "
    "2..4 exchanges with <= 2 faults (<= 3 for five of them, <= 4 for two "
    "single exchanges), all 15 other "
    "LR pairs with 4 length shapes and <= 2 faults, PSL with <= 2 faults, "
    "DID/NAD/DID+NAD also at 212F with <= 2 faults, RWT code 14, all 12 "
    "pairs lri != lrt x 3 PSL transitions x DID on/off with lengths miu, "
    "miu+1, 2miu+1 in both sides' MIU and 1 fault, all PNI "
    "position conversations with 0 and 1 fault (half with 2), foreign "
    "frames in all three DID configurations with 1 fault, two foreign frames "
    "per conversation, and with 2 faults on a single chained exchange",
}
OUTSIDE = [
    "faults on the activation frames (ATR, PSL) and on the first DEP_REQ, "
    "which the driver consumes inside listen() before Target.activate() "
    "returns; faults on the final RLS_REQ/RLS_RES",
    "more than 3 faults per conversation, faults after the 40th frame "
    "(property: 'sampled beyond' - not sampled here)",
    "timeout extension (RTOX) - Target.exchange never requests one; active "
    "communication mode; 424F as polling technology (424F is reached by PSL)",
    "payloads longer than 2*miu+1 (three frames) and conversations longer "
    "than 4 exchanges; LR other than 64 with more than 2 faults",
    "a corrupted frame that the receiver's CRC check does not detect",
    "foreign frames other than the four kinds above (e.g. chained foreign "
    "payloads, foreign responses), more than two per conversation, and foreign "
    "frames before the target's first exchange() has returned",
    "target-side deadline expiry (target exchange() time-out is 30 s and "
    "checked not to bind); the initiator retrying after a reported failure",
]
ASSUMPTIONS = [
    "env.air Air: lose -> the sender-side initiator exchange() raises "
    "nfc.clf.TimeoutError after the virtual clock advanced by the time-out, "
    "the target never sees a lost request; corrupt -> the receiver's "
    "exchange() raises nfc.clf.TransmissionError (driver CRC/parity report), "
    "which Target.send_res_recv_req answers with silence; transmission "
    "itself takes no virtual time; initiator and target stacks alternate "
    "strictly",
    "env.air ListenStub/IniClf.sense written from rcs380.listen_dep and "
    "ContactlessFrontend.sense/listen: ATR_REQ -> the ATR_RES handed in, "
    "PSL_REQ -> PSL_RES and bit rate switch, DID filter, first DEP_REQ "
    "returned in LocalTarget.dep_req; target exchange(frame, timeout=0) "
    "transmits and returns None; field off -> BrokenLinkError",
    "a protocol step is one call of Initiator.send_dep_req_recv_dep_res "
    "(observed through a subclass that only counts calls); 'single fault per "
    "step' = at most one faulty frame among all frames of that step, "
    "recovery frames included",
    "the frame length limit is taken from the PPi/PPt bytes of the ATR_REQ/"
    "ATR_RES seen on the air (checked to be the options given), not from "
    "either stack's miu; "
    "LR is the maximum length of the transport data field CMD0 CMD1 PFB "
    "[DID] [NAD] payload (LEN = LR+1 <= 255), so frame length <= LR + 1 "
    "(+1 start byte at 106A)",
    "os.urandom inside nfc.dep returns a fixed pattern (NFCID3)",
    "a frame for another device (env.air arm_foreign) reaches the waiting "
    "target intact and in no virtual time, immediately before a request of "
    "the initiator; anything the target transmits in reply is recorded as a "
    "violation and reaches nobody",
    "the application on the target side answers every received payload with "
    "the next reply and stops when exchange() returns None or raises; the "
    "initiator releases the target (real deactivate()) after its last "
    "exchange or first failure, then switches the field off",
]
