"""C10 - nothing sent on an LLCP link exceeds the peer's announced MIU.

Real code executed: nfc.llcp.llc.LogicalLinkController (collect, dispatch,
socket, bind, listen, accept, sendto, send, recvfrom, resolve, close,
setsockopt), ServiceAccessPoint, ServiceDiscovery, every dequeue()/sendack()
in nfc.llcp.tco, and nfc.llcp.pdu encode/decode/__len__.

Oracle (harness): sizes are computed from the *encoded* frame with the header
sizes of the LLCP frame formats (2 octets, 3 for I/RR/RNR); a ledger of the
PDUs every accepted socket operation must put on the link.
"""
import errno
from harness.util import same
from env import llcp as envl
import nfc.llcp
import nfc.llcp.llc as llcmod
import nfc.llcp.tco as tco
import nfc.llcp.pdu as pdu

envl.install()

PROPERTY = "C10"
DONTWAIT = nfc.llcp.MSG_DONTWAIT
LDL, DLC = nfc.llcp.LOGICAL_DATA_LINK, nfc.llcp.DATA_LINK_CONNECTION
RAW = llcmod.RAW_ACCESS_POINT


# ----------------------------------------------------------------------------
# independent size reading of an encoded PDU
# ----------------------------------------------------------------------------
def ptype_of(enc):
    return ((enc[0] & 3) << 2) | (enc[1] >> 6)


def info_len(enc):
    """octets of the information field of an encoded PDU (LLCP 4.3: header is
    DSAP/PTYPE/SSAP, plus the sequence octet for I, RR, RNR)"""
    return len(enc) - (3 if ptype_of(enc) in (12, 13, 14) else 2)


# origin of acknowledgements: those produced by sendack() (voluntary, asked
# for by collect() only while budget is left) are told apart from those
# dequeue() hands out (necessary acknowledgement / busy-state change)
VOLUNTARY = []
_sendack = llcmod.ServiceAccessPoint.sendack


def _sendack_recording(self):
    p = _sendack(self)
    if p is not None:
        VOLUNTARY.append(p)
    return p


llcmod.ServiceAccessPoint.sendack = _sendack_recording


def reset(sx):
    del VOLUNTARY[:]


def desc(p):
    """label fragment naming kind and origin of a PDU (never the input)"""
    n = p.name
    if n in ("RR", "RNR") and any(p is v for v in VOLUNTARY):
        return n + ".voluntary"
    if n == "DM":
        if p.ssap == 1:
            return "DM.sdp"
        return "DM.saplist" if p.reason == 2 else "DM.socket"
    if n == "SNL":
        k = ("res" if p.sdres else "") + ("+" if p.sdres and p.sdreq else "") \
            + ("req" if p.sdreq else "")
        return "SNL." + (k or "empty")
    return n


def payload(sx, name, n, sym=False):
    """n octets of a concrete pattern that depends on the item (contents are
    C17's subject; here sizes matter); sym: first octet symbolic"""
    if n == 0:
        return b""
    k = sum(bytearray(name.encode()))
    items = [(7 * i + k) & 255 for i in range(n)]
    if sym:
        items[0] = sx.byte(name + ".first")
    return sx.mkbytes(items, False)


# ----------------------------------------------------------------------------
# collect(): a real link controller filled by real socket operations
# ----------------------------------------------------------------------------
class World(object):
    def __init__(self, sx, agf, tag=""):
        self.sx = sx
        self.miu = sx.int(tag + "miu", 128, 2175)
        self.llc = llcmod.LogicalLinkController(sec=False)
        self.llc.cfg['send-miu'] = self.miu
        self.llc.cfg['send-agf'] = agf
        self.expect = []        # (group, record) in queueing order
        self.emitted = []       # (group, record) in emission order
        self.frames = 0
        self.d0 = None          # shared established data link connection
        self.d0_vr = 0          # next N(S) the remote peer uses towards d0
        self.cmiu = {}          # local addr -> MIU the remote end announced
        self.peer = 20          # next remote address to use
        self.raw_pdus = []      # PDU objects sent through raw access points

    # ---- ledger
    def want(self, p):
        self.expect.extend(records(p))

    # ---- building blocks (all real API calls)
    def establish(self, recv_win, name):
        """passive open: listen, CONNECT from the remote peer, accept.
        -> (listening socket, accepted socket); a CC PDU is now queued."""
        sx, llc = self.sx, self.llc
        ls = llc.socket(DLC)
        llc.setsockopt(ls, nfc.llcp.SO_RCVBUF, recv_win)
        llc.bind(ls)
        llc.listen(ls, 1)
        peer, self.peer = self.peer, self.peer + 1
        # connection MIU announced by the remote end: symbolic on the
        # connection that carries I PDUs
        cmiu = sx.int(name + ".cmiu", 128, 2175) if name == "d0" else 128 + 7 * len(self.cmiu)
        llc.dispatch(pdu.Connect(dsap=ls.addr, ssap=peer, miu=cmiu, rw=4))
        dlc = llc.accept(ls)
        self.cmiu[(dlc.addr, dlc.peer)] = cmiu
        self.want(pdu.ConnectionComplete(peer, ls.addr, 128, recv_win))
        return ls, dlc

    def drain(self, phase):
        sx = self.sx
        n = 0
        while True:
            p = self.llc.collect()
            if p is None:
                break
            n += 1
            self.frame(p, phase)
            if n > 60:
                sx.check(False, "collect-does-not-drain:" + phase)
        return n

    def frame(self, p, phase):
        sx, miu = self.sx, self.miu
        self.frames += 1
        enc = pdu.encode(p)
        sx.check(len(p) == len(enc), "len-differs-from-encoding:" + p.name)
        members = [q for q in p] if p.name == "AGF" else [p]
        for m in members:
            # budgeting uses len(pdu): it must be the encoded length for
            # every PDU handed out, not only for the frame as a whole
            if m is not p:
                sx.check(len(m) == len(pdu.encode(m)),
                         "len-differs-from-encoding:" + desc(m))
        excepted = any(any(m is r for r in self.raw_pdus) for m in members)
        if p.name == "AGF":
            sx.reach("frame:AGF")
            if self.llc.cfg['send-agf'] is False:
                sx.check(False, "aggregated-although-disabled")
            if len(members) < 2:
                sx.check(False, "agf-with-less-than-two-pdus")
            used = 0
            for j, m in enumerate(members):
                used += 2 + len(pdu.encode(m))
                # (a first PDU that alone overfills an aggregate shows up at
                # the PDU whose addition made it an aggregate)
                if not excepted and j > 0:
                    sx.check(used <= miu, "agf-exceeds-miu:%s:first=%s,at=%s" % (
                        phase, desc(members[0]), desc(m)))
            sx.check(len(enc) - 2 == used, "agf-size-accounting")
        else:
            sx.reach("frame:single")
            if not excepted:
                sx.check(info_len(enc) <= miu, "single-exceeds-miu:%s:%s"
                         % (phase, desc(p)))
        # receiver side: the link MIU bounds every UI payload, the connection
        # MIU announced in CONNECT/CC bounds every I payload
        for m in members:
            if any(m is r for r in self.raw_pdus):
                continue
            if m.name == "UI":
                sx.check(len(m.data) <= miu, "ui-payload-exceeds-link-miu")
            if m.name == "I":
                cm = self.cmiu[(m.ssap, m.dsap)]
                sx.check(sx.all([len(m.data) <= cm, len(m.data) <= miu]),
                         "i-payload-exceeds-connection-miu")
        # transparency: what the receiver decodes is what was collected
        try:
            q = pdu.decode(enc)
        except pdu.DecodeError:
            sx.check(False, "frame-not-decodable:" + p.name)
        got = [x for x in q] if q.name == "AGF" else [q]
        if len(got) != len(members):
            sx.check(False, "receiver-sees-different-pdu-count")
        for a, b in zip(got, members):
            sx.check(same(sx, pdu.encode(a), pdu.encode(b)),
                     "receiver-sees-different-pdu:" + b.name)
            self.emitted.extend(records(a))

    def settle(self):
        """every PDU an accepted operation queued went out exactly once, in
        queueing order per source, and nothing else did"""
        sx = self.sx
        exp, got = group(self.expect), group(self.emitted)
        for k in sorted(set(exp) | set(got)):
            if k[0] in ("RR", "RNR"):
                continue        # acknowledgements: only their size matters here
            e, g = exp.get(k, []), got.get(k, [])
            if k[0] == "SDREQ":     # requests may be reordered by design
                e, g = sorted(e), sorted(g)
            if len(e) != len(g):
                sx.check(False, "ledger-count:%s:expected=%d,sent=%d"
                         % (k[0], len(e), len(g)))
            sx.check(same(sx, e, g), "ledger-content:" + k[0])
        sx.reach("drained")


def records(p):
    """-> [(group key, comparable record)] for one PDU"""
    if p.name == "SNL":
        out = [(("SDRES",), [t, a]) for t, a in p.sdres]
        out += [(("SDREQ",), [t, bytes(n)]) for t, n in p.sdreq]
        return out
    if p.name == "I":
        return [(("I", p.ssap, p.dsap), [p.ns, p.data])]
    if p.name in ("RR", "RNR"):
        return [((p.name, p.ssap, p.dsap), [p.nr])]
    return [((p.name, p.ssap, p.dsap), pdu.encode(p))]


def group(recs):
    out = {}
    for k, r in recs:
        out.setdefault(k, []).append(r)
    return out


# ---- queue items ------------------------------------------------------------
# each item is (kind, arg); needs_d0 lists the kinds that use the shared DLC
UI_LENS = [1, 60, 125, 131]
I_LENS = [0, 57, 124, 131]
NEEDS_D0 = ("I", "RR", "RNR")


def apply_item(w, i, item):
    sx, llc = w.sx, w.llc
    kind, arg = item
    tag = "it%d" % i
    if kind == "UI":
        s = llc.socket(LDL)
        llc.bind(s)
        data = payload(sx, tag, arg)
        dest = 16 + i
        try:
            llc.sendto(s, data, dest, DONTWAIT)
        except nfc.llcp.Error as e:
            sx.reach("emsgsize")
            sx.check(e.errno == errno.EMSGSIZE, "sendto-unexpected-errno")
            sx.check(arg > w.miu, "sendto-refuses-datagram-within-miu")
            return
        sx.check(arg <= w.miu, "sendto-accepts-datagram-over-miu")
        w.want(pdu.UnnumberedInformation(dest, s.addr, data))
    elif kind == "I":
        d = w.d0
        data = payload(sx, tag, arg)
        cm = w.cmiu[(d.addr, d.peer)]
        try:
            llc.send(d, data, DONTWAIT)
        except nfc.llcp.Error as e:
            sx.reach("emsgsize")
            if e.errno == errno.EWOULDBLOCK:
                sx.reach("window-full")
                return
            sx.check(e.errno == errno.EMSGSIZE, "send-unexpected-errno")
            sx.check(sx.any([arg > w.miu, arg > cm]),
                     "send-refuses-message-within-miu")
            return
        sx.check(sx.all([arg <= w.miu, arg <= cm]),
                 "send-accepts-message-over-miu")
        w.expect.append((("I", d.addr, d.peer), [w.d0_ns, data]))
        w.d0_ns += 1
    elif kind == "RR":
        # the remote peer sends one I PDU, the application reads it
        d = w.d0
        llc.dispatch(pdu.Information(d.addr, d.peer, ns=w.d0_vr, nr=0,
                                     data=b"x"))
        w.d0_vr += 1
        msg, _ = llc.recvfrom(d)
        sx.check(same(sx, msg, b"x"), "setup:recv")
    elif kind == "RNR":
        d = w.d0
        llc.setsockopt(d, nfc.llcp.SO_RCVBSY, True)
    elif kind == "RR1":
        # own connection with RW(L)=1: the acknowledgement is a necessary one
        ls, d = w.establish(1, tag)
        llc.dispatch(pdu.Information(d.addr, d.peer, ns=0, nr=0, data=b"y"))
        llc.recvfrom(d)
    elif kind == "CC":
        w.establish(2, tag)
    elif kind == "DISC":
        ls, d = w.establish(2, tag)
        try:
            llc.close(d)
            sx.check(False, "setup:close-did-not-wait")
        except envl.WouldBlock:
            pass
        w.want(pdu.Disconnect(d.peer, d.addr))
    elif kind == "DMsap":
        s = llc.socket(LDL)
        llc.bind(s)
        peer, w.peer = w.peer, w.peer + 1
        llc.dispatch(pdu.Connect(dsap=s.addr, ssap=peer))
        w.want(pdu.DisconnectedMode(peer, s.addr, 2))
    elif kind == "CONNECT":
        # active open: connect() queues the CONNECT PDU and then sleeps
        rw = int(arg[2])
        s = llc.socket(DLC)
        llc.setsockopt(s, nfc.llcp.SO_RCVBUF, rw)
        if "miu" in arg:
            llc.setsockopt(s, nfc.llcp.SO_RCVMIU, 200)
        dest = b"urn:nfc:sn:svc%d" % i if "sn" in arg else 16 + i
        try:
            llc.connect(s, dest)
            sx.check(False, "setup:connect-did-not-wait")
        except envl.WouldBlock:
            pass
        w.want(pdu.Connect(1 if "sn" in arg else dest, s.addr,
                           200 if "miu" in arg else 128, rw,
                           dest if "sn" in arg else None))
    elif kind == "DMsap0":
        # CONNECT addressed to SAP 0 (no socket can listen there): the DM sits
        # on the send list of the first access point collect() asks
        peer, w.peer = w.peer, w.peer + 1
        llc.dispatch(pdu.Connect(dsap=0, ssap=peer))
        w.want(pdu.DisconnectedMode(peer, 0, 2))
    elif kind == "DMsdp":
        peer, w.peer = w.peer, w.peer + 1
        llc.dispatch(pdu.Connect(dsap=1, ssap=peer, sn=b"urn:nfc:sn:absent"))
        w.want(pdu.DisconnectedMode(peer, 1, 2))
    elif kind == "SDRES":
        base = 100 + 40 * i
        req = [(base + j, b"urn:nfc:sn:q%d" % j) for j in range(arg)]
        llc.dispatch(pdu.ServiceNameLookup(1, 1, sdreq=req))
        w.want(pdu.ServiceNameLookup(1, 1, sdres=[(t, 0) for t, n in req]))
    elif kind == "SDREQ":
        name = (b"urn:nfc:sn:" + b"n" * 300)[:arg - 1] + b"%d" % i
        tid = llc.sap[1].tids[0]
        try:
            llc.resolve(name)
            sx.check(False, "setup:resolve-did-not-wait")
        except envl.WouldBlock:
            pass
        w.want(pdu.ServiceNameLookup(1, 1, sdreq=[(tid, name)]))
    elif kind == "RAWUI":
        s = llc.socket(RAW)
        llc.bind(s)
        p = pdu.UnnumberedInformation(16 + i, s.addr, payload(sx, tag, arg))
        llc.sendto(s, p, 16 + i, DONTWAIT)
        w.raw_pdus.append(p)
        w.want(p)
    else:
        raise ValueError(kind)


ITEMS = [("UI", n) for n in UI_LENS] + [("I", n) for n in I_LENS] + [
    ("RR", 0), ("RNR", 0), ("RR1", 0), ("CC", 0), ("DISC", 0), ("DMsap", 0),
    ("DMsap0", 0), ("DMsdp", 0), ("SDRES", 1), ("SDRES", 2), ("SDRES", 33),
    ("SDREQ", 14), ("SDREQ", 60), ("SDREQ", 125), ("RAWUI", 131),
    ("CONNECT", "rw0"), ("CONNECT", "rw0+sn"), ("CONNECT", "rw1"),
    ("CONNECT", "rw2+miu+sn")]
# positions after the prefix draw from a smaller set
TAILS = {
    "quick": [("UI", 60), ("UI", 125), ("I", 124), ("RR1", 0), ("RNR", 0),
              ("CC", 0), ("DMsap", 0), ("DMsdp", 0), ("SDRES", 1),
              ("SDREQ", 14), ("CONNECT", "rw0")],
    "thorough": [("UI", 60), ("UI", 125), ("I", 124), ("RR", 0), ("RR1", 0),
                 ("RNR", 0), ("CC", 0), ("DISC", 0), ("DMsap", 0),
                 ("DMsdp", 0), ("SDRES", 1), ("SDREQ", 14),
                 ("CONNECT", "rw0"), ("CONNECT", "rw2+miu+sn")],
}


def item_name(it):
    return "%s%s" % (it[0], it[1] if it[1] else "")


def collect_script(sx, agf, prefix, nmax, tail):
    """prefix: fixed first items of the script; the rest (up to nmax items in
    total) is picked from TAILS[tail], None ends the script"""
    script = [tuple(it) for it in prefix]
    for i in range(len(script), nmax):
        it = sx.pick("item%d" % i, [None] + TAILS[tail])
        if it is None:
            break
        script.append(tuple(it))
    w = World(sx, bool(agf))
    if any(k in NEEDS_D0 for k, a in script):
        ls, w.d0 = w.establish(5, "d0")
        w.d0_ns = 0
        w.drain("setup")
    for i, it in enumerate(script):
        apply_item(w, i, it)
    n = w.drain("run")
    w.settle()
    return [item_name(it) for it in script] + [n]


# ----------------------------------------------------------------------------
# unit obligations: dequeue() with arbitrary budget
# ----------------------------------------------------------------------------
def unit_budget(sx, p, miu_size, icv, label):
    """a PDU handed out for budget miu_size has an information field (plus
    integrity check value for UI/I) of at most miu_size octets"""
    if p is None:
        sx.reach("unit:none")
        return "none"
    sx.reach("unit:pdu")
    enc = pdu.encode(p)
    sx.check(len(p) == len(enc), "len-differs-from-encoding:" + desc(p))
    size = info_len(enc) + (icv if p.name in ("UI", "I") else 0)
    # collect() only asks with a budget >= 0, and its aggregation budget keeps
    # one octet in reserve, so a PDU with an information field of one octet
    # (DM) always fits when it is asked for
    sx.check(sx.any([size <= miu_size, size <= 1]),
             "dequeue-over-budget:%s:%s" % (label, desc(p)))
    return desc(p)


def unit_sd(sx, kmax, names):
    """ServiceDiscovery.dequeue(miu_size): k pending answers, pending requests"""
    llc = llcmod.LogicalLinkController(sec=False)
    sd = llc.sap[1]
    k = sx.pick("k", list(range(kmax + 1)))
    for j in range(k):
        sd.sdres.append((j, 16 + (j & 15)))
    for j, n in enumerate(names):
        sd.sdreq.append((200 + j, (b"urn:nfc:sn:" + b"s" * 300)[:n]))
    if sx.pick("dm", [0, 1]):
        sd.dmpdu.append(pdu.DisconnectedMode(20, 1, 2))
    miu_size = sx.int("miu_size", 0, 2175)
    before = (len(sd.sdres), len(sd.sdreq), len(sd.dmpdu))
    p = sd.dequeue(miu_size, 0)
    out = unit_budget(sx, p, miu_size, 0, "ServiceDiscovery")
    if p is not None and p.name == "SNL":
        # conservation: what left the queues is in the PDU
        sx.check(len(p.sdres) == before[0] - len(sd.sdres), "sd-answers-lost")
        sx.check(len(p.sdreq) == before[1] - len(sd.sdreq), "sd-requests-lost")
    return [k, out]


def unit_tco(sx, kind):
    """TransmissionControlObject / ServiceAccessPoint dequeue with a symbolic
    budget and one queued PDU of a picked size"""
    miu_size = sx.int("miu_size", 0, 2175)
    icv = sx.pick("icv", [0, 4])
    llc = llcmod.LogicalLinkController(sec=False)
    n = sx.pick("n", [0, 1, 2, 127, 128, 300])
    if kind == "LDL":
        s = tco.LogicalDataLink(128)
        s.addr = 32
        s.send_queue.append(pdu.UnnumberedInformation(16, 32, payload(sx, "d", n)))
        p = s.dequeue(miu_size, icv)
    elif kind == "DLC-I":
        s = established(sx, "a", 32, 16)
        s.send_queue.append(pdu.Information(16, 32, ns=0, nr=0,
                                            data=payload(sx, "d", n)))
        p = s.dequeue(miu_size, icv)
    elif kind == "DLC-ctl":
        s = established(sx, "a", 32, 16)
        q = sx.pick("q", ["CC", "DM", "DISC", "FRMR"])
        s.send_queue.append(dict(
            CC=pdu.ConnectionComplete(16, 32, 248, 2),
            DM=pdu.DisconnectedMode(16, 32, 1), DISC=pdu.Disconnect(16, 32),
            FRMR=pdu.FrameReject(16, 32, 1, 12))[q])
        p = s.dequeue(miu_size, icv)
    elif kind == "DLC-connect":
        s = tco.DataLinkConnection(128, 1)
        s.addr = 32
        s.setsockopt(nfc.llcp.SO_RCVBUF, sx.pick("rw", [0, 1, 2, 15]))
        if sx.pick("miu", [0, 1]):
            s.setsockopt(nfc.llcp.SO_RCVMIU, 300)
        dest = sx.pick("dest", [16, b"urn:nfc:sn:x"])
        try:
            s.connect(dest)
        except envl.WouldBlock:
            pass
        p = s.dequeue(miu_size, icv)
    elif kind == "DLC-busy":
        s = established(sx, "a", 32, 16)
        s.setsockopt(nfc.llcp.SO_RCVBSY, True)
        p = s.dequeue(miu_size, icv)
    elif kind == "DLC-ack":
        s = established(sx, "a", 32, 16)
        s.recv_win = 1
        s.recv_cnt = (s.recv_cnt + 1) % 16
        s.recv_confs = 1
        p = s.dequeue(miu_size, icv)
    elif kind == "SAP-list":
        sap = llcmod.ServiceAccessPoint(32, llc)
        sap.send(pdu.DisconnectedMode(16, 32, 2))
        p = sap.dequeue(miu_size, icv)
    elif kind == "SAP-sock":
        sap = llcmod.ServiceAccessPoint(32, llc)
        s = tco.LogicalDataLink(128)
        sap.insert_socket(s)
        s.send_queue.append(pdu.UnnumberedInformation(16, 32, payload(sx, "d", n)))
        p = sap.dequeue(miu_size, icv)
    else:
        raise ValueError(kind)
    return unit_budget(sx, p, miu_size, icv, kind)


def established(sx, name, addr, peer):
    """a DataLinkConnection in the state connect()/accept() leave it in"""
    d = tco.DataLinkConnection(128, 2)
    d.addr, d.peer = addr, peer
    d.send_miu, d.send_win = 128, 2
    d.state.ESTABLISHED = True
    return d


# ----------------------------------------------------------------------------
def partitions(tier):
    parts = []

    def add(agf, prefix, nmax):
        parts.append(dict(
            name="collect:agf=%d:%s" % (agf, "+".join(map(item_name, prefix))),
            fn="collect_script",
            params=dict(agf=agf, prefix=[list(it) for it in prefix],
                        nmax=nmax, tail=tier)))
    if tier == "quick":
        for it in ITEMS:
            add(1, [it], 3)
            add(0, [it], 2)
        add(1, [("DMsap0", 0), ("SDRES", 33)], 3)
    else:
        for it in ITEMS:
            add(1, [it], 1)
            for it2 in TAILS[tier]:
                add(1, [it, it2], 4 if it2[0] in ("UI", "I", "RR1", "DMsap") else 3)
            add(0, [it], 3)
        add(1, [("DMsap0", 0), ("SDRES", 33)], 4)
        add(1, [("UI", 125), ("SDRES", 33)], 4)
    kmax = 6 if tier == "quick" else 40
    name_sets = [[], [14], [14, 40], [125, 0, 14]]
    if tier == "thorough":
        name_sets += [[40, 14, 125], [254], [1, 2, 3]]
    for ns in name_sets:
        parts.append(dict(name="unit:sd:" + "+".join(map(str, ns)),
                          fn="unit_sd", params=dict(kmax=kmax, names=ns)))
    for kind in ("LDL", "DLC-I", "DLC-ctl", "DLC-connect", "DLC-busy", "DLC-ack", "SAP-list",
                 "SAP-sock"):
        parts.append(dict(name="unit:tco:" + kind, fn="unit_tco",
                          params=dict(kind=kind)))
    return parts


MUST_REACH = ["frame:AGF", "frame:single", "emsgsize", "drained", "unit:none",
              "unit:pdu"]
BOUNDS = {
    "quick": "collect(): scripts of 1..3 queue items (first from 27 item kinds/sizes: CONNECT queued by connect() with RW 0/1/2, with/without service name and MIU option, UI 1/60/125/131 octets, I 0/57/124/131 octets on an established connection, voluntary RR, necessary RR, RNR, CC, DISC, DM on a SAP send list (also SAP 0), DM in the discovery SAP, 1/2/33 SDRES, SDREQ with a 14/60/125 octet name, raw-socket UI; later items from 11 of them) built through the real socket API; send-miu symbolic over 128..2175, connection MIU of the I-carrying connection symbolic 128..2175, aggregation on (3 items) / off (2 items); every frame until the queues drain.  dequeue() units: budget symbolic over -4..2175, icv 0/4, 0..6 answers, 0..3 requests, every socket class and the SAP send list",
    "thorough": "as quick with scripts of up to 4 items (two fixed from 23 x 12, two picked from 12; 3 items when the second is a control PDU), up to 3 items without aggregation, and 0..40 pending answers / 7 request-name sets in the discovery unit",
}
OUTSIDE = ["encrypted links (llcp-sec, ICV accounting) in collect(); icv_size only in the dequeue() units",
           "scripts longer than the bound; payload lengths other than the anchors (the MIU is symbolic instead)",
           "the blocking halves of connect()/close()/resolve() (a thread sleeping in them is represented by the state they leave when they reach wait())"]
ASSUMPTIONS = ["ServiceAccessPoint.sendack is wrapped by a recorder (labels only: voluntary vs. necessary acknowledgements)",
               "env.llcp: Condition.wait() without time-out raises WouldBlock (the caller would sleep); random.choice returns the first element",
               "established data link connections are produced by the real passive open (listen, CONNECT dispatched, accept)",
               "unit obligations build the socket state directly (fields that connect()/accept() set)"]
