"""C05 (blocking half) - two application threads in blocking send() on one
data link connection, against the link run loop and the peer.

Real code executed: nfc.llcp.tco.DataLinkConnection send (with the wait on the
send window and the wait for transmission), recv, enqueue,
_enqueue_state_established, dequeue, sendack and nfc.llcp.pdu encode/decode
between the two ends.

Environment: env.coop.ThreadSched - the two senders are real call stacks (OS
threads) of which exactly one runs at a time; the harness's main thread is the
scheduler and plays the link run loop of both devices and the peer's
application.  A sender gives up the processor only where it blocks in
Condition.wait(); which woken sender runs first, which sender starts first and
how much the link transfers before the senders run again are enumerated.

Run by the C05 check: harness/c05_dlc.py adds partitions() of this module.
"""
import errno
from harness.util import same
from env import coop
import nfc.llcp
import nfc.llcp.tco as tco
import nfc.llcp.pdu as pdu

DONTWAIT = nfc.llcp.MSG_DONTWAIT
LINK_MIU = 2175


def established(addr, peer, rw_l, rw_r, vs, vr):
    """as harness.c05_dlc.established(): the state connect()/accept() leave a
    socket in, sequence variables advanced by vs / vr completed exchanges"""
    d = tco.DataLinkConnection(recv_miu=128, recv_win=rw_l)
    d.addr, d.peer = addr, peer
    d.send_miu, d.send_win = 128, rw_r
    d.send_cnt = d.send_ack = vs
    d.recv_cnt = d.recv_ack = vr
    d.state.ESTABLISHED = True
    return d


class Run(object):
    def __init__(self, sx, S, A, B, rw, s0):
        self.sx, self.S, self.A, self.B, self.rw, self.s0 = sx, S, A, B, rw, s0
        self.msgs = []          # every message handed to send(), by index
        self.owner = []         # index -> 'fill' | thread name
        self.returned = {}      # index -> result of send()
        self.crossed = []       # indices in the order the I PDUs crossed
        self.ackd = 0           # messages of A acknowledged by B
        self.got = []           # indices in the order B.recv() returned them
        self.nsym = 0
        # reverse direction (B -> A), used by the 'bidir' schedules
        self.rmsgs = []         # messages B's application sent
        self.rcrossed = 0       # I PDUs of B that crossed, in order
        self.rgot = []          # what A's reader thread got from recv()
        self.r0 = None          # initial V(S) of B

    def message(self, who):
        i = len(self.msgs)
        m = self.sx.mkbytes([i, self.sx.byte("m%d" % self.nsym)], False)
        self.nsym += 1
        self.msgs.append(m)
        self.owner.append(who)
        return i, m

    def sender(self, who, count):
        def body():
            for k in range(count):
                i, m = self.message(who)
                self.returned[i] = self.A.send(m, 0)
            return True
        return body

    def reader(self, count):
        """A's application thread that reads `count` messages with blocking
        recv() while the senders of the same connection are blocked"""
        def body():
            for k in range(count):
                r = self.A.recv()
                self.rgot.append(r)
                if r is None:
                    break
            return True
        return body

    # ---- the link (main thread, logical thread 'link')
    def a_to_b(self):
        """one PDU of A crosses to B; -> name or None"""
        sx = self.sx
        p = self.A.dequeue(LINK_MIU, 0)
        if p is None:
            p = self.A.sendack()
        if p is None:
            return None
        q = pdu.decode(pdu.encode(p))
        if q.name == "FRMR":
            sx.check(False, "coop:frame-reject-from-sender")
        if q.name == "I":
            k = len(self.crossed)
            sx.check(q.ns == (self.s0 + k) % 16,
                     "coop:wrong-send-sequence-number")
            i = sx.concrete(q.data[0]) if len(q.data) == 2 else -1
            if not 0 <= i < len(self.msgs):
                sx.check(False, "coop:i-pdu-carries-unknown-message")
            if i in self.crossed:
                sx.check(False, "coop:message-sent-twice")
            sx.check(same(sx, q.data, self.msgs[i]),
                     "coop:i-pdu-carries-altered-message")
            for j in self.crossed:
                if self.owner[j] == self.owner[i] and j > i:
                    sx.check(False, "coop:order-of-one-thread-not-preserved")
            self.crossed.append(i)
            sx.check(len(self.crossed) - self.ackd <= self.rw,
                     "coop:more-i-pdus-outstanding-than-window")
            sx.reach("coop:wire:I")
        elif q.name not in ("RR", "RNR"):
            sx.check(False, "coop:unexpected-pdu-from-sender:" + q.name)
        self.B.enqueue(q)
        return q.name

    def b_recv(self):
        """the peer's application reads what has arrived"""
        sx = self.sx
        n = 0
        while len(self.B.recv_queue) > 0:
            r = self.B.recv()
            k = len(self.got)
            if r is None or k >= len(self.crossed):
                sx.check(False, "coop:recv-returns-message-never-sent")
            sx.check(same(sx, r, self.msgs[self.crossed[k]]),
                     "coop:recv-out-of-order-or-altered")
            self.got.append(self.crossed[k])
            n += 1
        return n

    def b_to_a(self):
        sx = self.sx
        p = self.B.dequeue(LINK_MIU, 0)
        if p is None:
            p = self.B.sendack()
        if p is None:
            return None
        q = pdu.decode(pdu.encode(p))
        if q.name == "FRMR":
            sx.check(False, "coop:frame-reject-from-receiver")
        if q.name == "I" and self.rmsgs:
            k = self.rcrossed
            sx.check(q.ns == (self.r0 + k) % 16, "coop:reverse:wrong-send-sequence-number")
            if k >= len(self.rmsgs):
                sx.check(False, "coop:reverse:i-pdu-never-sent")
            sx.check(same(sx, q.data, self.rmsgs[k]), "coop:reverse:i-pdu-altered-or-reordered")
            self.rcrossed += 1
            sx.reach("coop:wire:reverse-I")
        elif q.name not in ("RR", "RNR"):
            sx.check(False, "coop:unexpected-pdu-from-receiver:" + q.name)
        new = (q.nr - (self.s0 + self.ackd)) % 16
        sx.check(new <= len(self.crossed) - self.ackd,
                 "coop:acknowledges-more-than-received")
        new = sx.concrete(new)
        self.ackd += new
        if new:
            sx.reach("coop:wire:ack")
        self.A.enqueue(q)
        return q.name


def two_senders(sx, count, first, sweep, late=False, bidir=0):
    """count: messages per sender; first: which sender starts; sweep: 'one' =
    the link moves one PDU per direction between scheduling points, 'all' =
    everything that is queued; late: the second sender makes its first call
    at some later scheduling point (e.g. between the acknowledgement that
    wakes the first sender and the moment that sender runs again)"""
    prev = tco.threading
    tco.threading = coop.THREADING
    S = coop.new_threaded(sx)
    try:
        return _two_senders(sx, S, count, first, sweep, late, bidir)
    finally:
        S.current = 'setup'
        S.shutdown()
        tco.threading = prev
        coop.new_sched(sx)


def _two_senders(sx, S, count, first, sweep, late=False, bidir=0):
    rw = sx.int("rw", 1, 3)
    s0 = sx.int("s0", 0, 15)
    r0 = sx.int("r0", 0, 15)
    A = established(32, 16, 1, rw, s0, r0)
    B = established(16, 32, rw, 1, r0, s0)
    run = Run(sx, S, A, B, rw, s0)
    # the window is filled by non-blocking sends
    for k in range(3):
        i, m = run.message('fill')
        try:
            run.returned[i] = A.send(m, DONTWAIT)
        except nfc.llcp.Error as e:
            sx.check(e.errno == errno.EWOULDBLOCK, "coop:fill-error")
            run.msgs.pop()
            run.owner.pop()
            break
    nfill = len(run.msgs)
    sx.check(nfill == rw, "coop:window-not-filled-by-rw-sends")
    if bidir:
        # both directions at once: the peer's application has sent `bidir`
        # messages (its window towards A is 1: they cross one per
        # acknowledgement), a third thread of A reads them with blocking recv()
        run.r0 = r0
        for k in range(bidir):
            m = sx.mkbytes([0x80 + k, sx.byte("rev%d" % k)], False)
            try:
                ok = B.send(m, DONTWAIT)
            except nfc.llcp.Error as e:
                sx.check(e.errno == errno.EWOULDBLOCK, "coop:reverse:fill-error")
                break
            run.rmsgs.append(m)
        S.spawn('R', run.reader(len(run.rmsgs)))
        sx.reach("coop:bidirectional")
    # both senders block on the full window
    S.spawn('T1', run.sender('T1', count))
    S.spawn('T2', run.sender('T2', count))
    S.current = 'link'
    order = ['T1', 'T2'] if first == 'T1' else ['T2', 'T1']
    unstarted = []
    if late:
        unstarted.append(order.pop())
    for name in order:
        if S.run(name) != 'parked':
            sx.check(False, "coop:send-did-not-wait-on-full-window")
    if bidir:
        S.run('R')                      # blocks in recv() (or finds a message)
    if S.waits == ["DataLinkConnection.send", "DataLinkConnection.send"]:
        sx.reach("coop:both-senders-wait-on-full-window")
    sched = []
    for rnd in range(60):
        moved = 0
        # the link and the peer
        for step in range(1 if sweep == 'one' else 40):
            n = 0
            if run.a_to_b():
                n += 1
            if sweep == 'burst':
                # everything A has queued crosses before the peer's
                # application reads and the peer answers
                while run.a_to_b():
                    n += 1
            n += run.b_recv()
            if run.b_to_a():
                n += 1
            moved += n
            if not n:
                break
        # the senders that were notified, in every order
        while True:
            ready = S.runnable()
            if unstarted and (ready or not moved):
                # the late sender may make its first call now
                if ready:
                    sx.reach("coop:late-sender-races-woken-sender")
                ready = ready + unstarted
            if not ready:
                break
            if len(ready) > 1:
                sx.reach("coop:two-senders-runnable")
            name = sx.pick("sched%d" % len(sched), ready)
            sched.append(name)
            if name in unstarted:
                unstarted.remove(name)
            st = S.run(name)
            moved += 1
            rec = S.threads[name]
            if st == 'done' and rec.exc is not None:
                if isinstance(rec.exc, coop.CoopSignal):
                    sx.check(False, "coop:scheduler-signal:%s" %
                             type(rec.exc).__name__)
                raise rec.exc
        if not moved:
            break
    left = S.parked()
    if left:
        sx.check(False, "coop:sender-left-waiting:%s" %
                 "+".join(S.threads[n].site for n in left))
    sx.reach("coop:senders-returned")
    # every message send() accepted was delivered exactly once
    for i in range(len(run.msgs)):
        if run.returned.get(i) is not True:
            sx.check(False, "coop:send-did-not-return-true")
        if run.got.count(i) != 1:
            sx.check(False, "coop:accepted-message-not-delivered-exactly-once")
    sx.check(run.ackd == len(run.msgs), "coop:message-never-acknowledged")
    if bidir:
        sx.check(len(run.rgot) == len(run.rmsgs), "coop:reverse:reader-did-not-get-every-message")
        for k, r in enumerate(run.rgot):
            if r is None or k >= len(run.rmsgs):
                sx.check(False, "coop:reverse:recv-returned-none-or-extra")
            sx.check(same(sx, r, run.rmsgs[k]), "coop:reverse:recv-out-of-order-or-altered")
        sx.reach("coop:reverse:drained")
    sx.reach("coop:drained")
    return dict(fill=nfill, sched=sched, crossed=run.crossed, got=run.got,
                waits=len(S.waits))


def partitions(tier):
    parts = []
    counts = [1, 2] if tier == "quick" else [1, 2, 3]
    for count in counts:
        for first in ("T1", "T2"):
            for sweep in ("one", "all", "burst"):
                parts.append(dict(
                    name="two_senders:%d:%s:%s" % (count, first, sweep),
                    fn="two_senders",
                    params=dict(count=count, first=first, sweep=sweep)))
                if first == "T1" and sweep != "burst":
                    parts.append(dict(
                        name="two_senders:%d:bidir:%s" % (count, sweep),
                        fn="two_senders",
                        params=dict(count=count, first=first, sweep=sweep, bidir=2)))
                if first == "T1":
                    parts.append(dict(
                        name="two_senders:%d:late:%s" % (count, sweep),
                        fn="two_senders",
                        params=dict(count=count, first=first, sweep=sweep, late=True)))
    return parts


MUST_REACH = ["coop:bidirectional", "coop:wire:reverse-I", "coop:reverse:drained", "coop:both-senders-wait-on-full-window", "coop:late-sender-races-woken-sender", "coop:wire:I",
              "coop:wire:ack", "coop:senders-returned", "coop:drained"]
BOUNDS = "two application threads in blocking send() on one established DataLinkConnection whose send window (RW of the peer symbolic 1..3, initial sequence variables of both directions symbolic 0..15) was filled by non-blocking sends; 1-2 (quick) / 1-3 (thorough) two-octet messages per thread; schedules: which thread blocks first (or: the second thread makes its first call at any later scheduling point, racing a sender that was just woken), which notified thread runs next at every wake-up, link transfers one PDU per direction, everything queued in alternation, or everything the sender has queued before the peer reads and answers, between scheduling points; a thread is descheduled only where it blocks in Condition.wait() (preemption bound 0); 'bidir' schedules: the peer's application has two messages under way in the other direction and a third thread of this device reads them with blocking recv() while the two senders are blocked (both directions at once: reverse sequence numbers, order and content checked on the wire and at recv())"
OUTSIDE = ["preemption of a sender anywhere but at Condition.wait() (lock acquisitions, single lines); more than two senders and one reader; blocking close() racing the senders; the link run loop interleaved with a sender that is not blocked"]
ASSUMPTIONS = ["env.coop.ThreadSched: application threads are OS threads in strict alternation with the harness's main thread (link + peer application + scheduler); Condition.notify(n) wakes the first n waiters in FIFO order as threading.Condition does; no spurious wake-ups"]
