"""C19 - peer-to-peer activation negotiates limits both sides then obey.

Real code executed: nfc.llcp.llc.LogicalLinkController.__init__/activate on two
controllers, nfc.dep.Initiator.activate (sense, ATR_REQ, PSL_REQ), nfc.dep.
Target.activate (ATR_RES, listen), nfc.llcp.pdu ParameterExchange/Parameter
encode and decode, the ATR/PSL PDU classes, then Initiator.exchange/
Target.exchange/deactivate for one chained exchange in each direction.  The
two stacks run as a strictly alternating pair over env.air (IniClf.sense,
ListenStub); no faults.

All option values are symbolic integers (sx.int): brs, lri, lrt (including
values that must be clamped), rwt, and MIU and LTO of both devices.  Only
what the code itself uses as a table index is concretised by the code.
"""
import struct
import nfc.clf
import nfc.dep
import nfc.llcp.llc as llc
import nfc.llcp.pdu
from env.air import Air, IniClf, TgtClf, FrameStorm

PROPERTY = "C19"

RATES = ('106A', '212F', '424F')
TIMEOUT = 10.0          # exchange time-out, above every RWT (max 4.95 s)


class _FixedOs(object):
    """module attribute `os` of nfc.dep: urandom() is a fixed pattern"""

    @staticmethod
    def urandom(n):
        return bytes(bytearray((11 * i + 3) & 255 for i in range(n)))


def clamp(sx, x, lo, hi):
    return sx.ite(x < lo, lo, sx.ite(x > hi, hi, x))


def lr_of(sx, idx):
    """NFC-DEP length reduction table as a formula"""
    return sx.ite(idx == 0, 64, sx.ite(idx == 1, 128, sx.ite(idx == 2, 192, 254)))


def payload(sx, name, n):
    """n bytes: a fixed pattern with symbolic bytes at the start and on both
    sides of the chaining boundary (byte-for-byte delivery is C04's subject)"""
    items = [(7 * i + 3) & 255 for i in range(n)]
    for i in sorted(set([0, n - 2, n - 1])):
        if 0 <= i < n:
            items[i] = sx.byte("%s[%d]" % (name, i))
    return sx.mkbytes(items, False)


def find(air, sender, pdu):
    for f in air.frames:
        if f.sender == sender and f.pdu == pdu:
            return f
    return None


def activation(sx, tech, brs_rng, lri_rng, lrt_rng, rwt_rng, miu_rng, lto_rng,
               lsc, services, did=None, nad=None, acm=False, agf=True, acm_device=False,
               snl_traffic=False):
    """*_rng = [lo, hi] of the symbolic option (miu_rng/lto_rng: [[lo, hi] of
    the initiator device, [lo, hi] of the target device]); lsc = [initiator,
    target]; services = [initiator, target] lists of well-known service
    access points bound before activation."""
    nfc.dep.os = _FixedOs
    llc.sec.OpenSSL = None
    brs = sx.int("brs", *brs_rng)
    lri = sx.int("lri", *lri_rng)
    lrt = sx.int("lrt", *lrt_rng)
    rwt = sx.int("rwt", *rwt_rng)
    miu_i = sx.int("miu.i", *miu_rng[0])
    miu_t = sx.int("miu.t", *miu_rng[1])
    lto_i = sx.int("lto.i", *lto_rng[0])
    lto_t = sx.int("lto.t", *lto_rng[1])

    air = Air(sx, tech=tech)
    # acm_device: the initiator's device can sense in active communication
    # mode (the ATR_REQ then opens the activation, no SENS/SENSF exchange)
    air.acm_device = acm_device
    llc_i = llc.LogicalLinkController(miu=miu_i, lto=lto_i, lsc=lsc[0], agf=agf,
                                      sec=False)
    llc_t = llc.LogicalLinkController(miu=miu_t, lto=lto_t, lsc=lsc[1],
                                      agf=not agf, sec=False)
    for sap in services[0]:
        llc_i.snl[b"urn:nfc:sn:svc%d" % sap] = sap
    for sap in services[1]:
        llc_t.snl[b"urn:nfc:sn:svc%d" % sap] = sap
    wks_i = 1 + sum(1 << sap for sap in [1] + services[0] if sap < 15)
    wks_t = 1 + sum(1 << sap for sap in [1] + services[1] if sap < 15)
    I = dict(ok=None, recv=None, end=None, sent=None)
    T = dict(ok=None, recv=[], end=None, sent=None)

    def target_stack():
        # connect() hands the same option names to both roles; each uses its own
        T['ok'] = llc_t.activate(mac=nfc.dep.Target(TgtClf(air)), lrt=lrt,
                                 rwt=rwt, brs=0, lri=0)
        if not T['ok']:
            return
        mac = llc_t.mac
        try:
            T['recv'].append(mac.exchange(None, TIMEOUT))
            T['sent'] = payload(sx, "b", sx.concrete(mac.miu) + 1)
            T['recv'].append(mac.exchange(T['sent'], TIMEOUT))
        except nfc.clf.CommunicationError as e:
            T['end'] = type(e).__name__
        except struct.error:
            T['end'] = "frame-length-overflow"

    air.start_target(target_stack)
    try:
        opts = dict(brs=brs, lri=lri, acm=acm, lrt=0, rwt=3)
        if did is not None:
            opts['did'] = did
        if nad is not None:
            opts['nad'] = nad
        I['ok'] = llc_i.activate(mac=nfc.dep.Initiator(IniClf(air)), **opts)
        if I['ok']:
            mac = llc_i.mac
            I['sent'] = payload(sx, "a", sx.concrete(mac.miu) + 1)
            try:
                I['recv'] = mac.exchange(I['sent'], TIMEOUT)
            except nfc.clf.CommunicationError as e:
                I['end'] = type(e).__name__
            except struct.error:
                I['end'] = "frame-length-overflow"
            except FrameStorm:
                sx.check(False, "traffic:endless-exchange")
            mac.deactivate(release=True)
        air.field_off()
    finally:
        air.abort()

    tag = (":did" if did is not None else "") + (":nad" if nad is not None else "")
    # ---- both sides are connected
    if not I['ok']:
        sx.check(False, "activation-failed:initiator" + tag)
    if not T['ok']:
        sx.check(False, "activation-failed:target" + tag)
    ini, tgt = llc_i.mac, llc_t.mac
    sx.reach("activated:" + tech)
    if acm_device and acm:
        if not air.active:
            sx.check(False, "acm:activation-not-in-active-mode-although-asked-for-and-supported")
        sx.check(ini.acm is True and tgt.acm is True, "acm:mode-not-held-by-both-sides")
        sx.reach("activated:active-mode")
    if did is not None:
        sx.reach("did")
    if nad is not None:
        sx.reach("nad")

    # ---- what was announced on the air
    brs_e = clamp(sx, brs, 0, 2)
    lri_e = clamp(sx, lri, 0, 3)
    lrt_e = clamp(sx, lrt, 0, 3)
    rwt_e = clamp(sx, rwt, 0, 14)
    atr_req, atr_res = find(air, 'I', 'ATR'), find(air, 'T', 'ATR')
    psl_req = find(air, 'I', 'PSL')
    if atr_req is None or atr_res is None:
        sx.check(False, "air:no-attribute-exchange" + tag)
    ppi, ppt, to = atr_req.body[15], atr_res.body[16], atr_res.body[15]
    sx.check_all([
        ((ppi >> 4) & 3 == lri_e, "announced:atr-req-lri-not-the-clamped-option"),
        ((ppt >> 4) & 3 == lrt_e, "announced:atr-res-lrt-not-the-clamped-option"),
        (to & 15 == rwt_e, "announced:atr-res-wt-not-the-clamped-option"),
        (atr_req.body[12] == (did or 0), "announced:atr-req-did"),
    ])
    start = RATES.index(tech)
    want_psl = brs_e > start
    if psl_req is None:
        sx.check(sx.neg(want_psl), "bitrate:no-psl-although-higher-rate-selected")
    else:
        sx.check(want_psl, "bitrate:psl-although-rate-not-raised")
        sx.check_all([
            (psl_req.body[3] == brs_e * 9, "bitrate:psl-req-brs-field"),
            (psl_req.body[4] & 3 == lri_e, "bitrate:psl-req-fsl-field"),
            (psl_req.body[2] == (did or 0), "bitrate:psl-req-did"),
        ])
        sx.reach("psl")
    rate = sx.ite(want_psl, brs_e, start)

    # ---- NFC-DEP parameters held by both sides
    extra = (did is not None) + (nad is not None)
    ini_rate, tgt_rate = RATES.index(ini.target.brty), RATES.index(tgt.target.brty)
    sx.check_all([
        (ini.miu == lr_of(sx, lrt_e) - 3 - extra, "dep:initiator-miu-not-from-lrt" + tag),
        (tgt.miu == lr_of(sx, lri_e) - 3 - (did is not None),
         "dep:target-miu-not-from-lri" + tag),
        (ini_rate == rate, "bitrate:initiator-not-at-selected-rate"),
        (tgt_rate == rate, "bitrate:target-not-at-selected-rate"),
        (ini.rwt == 4096 / 13.56E6 * 2 ** rwt_e, "dep:initiator-rwt-not-from-wt"),
        (tgt.rwt == 4096 / 13.56E6 * 2 ** rwt_e, "dep:target-rwt-not-from-option"),
        (ini.did == did and tgt.did == did, "dep:did-differs" + tag),
    ])

    # ---- LLCP parameters: each side sends within what the peer announced
    ci, ct = llc_i.cfg, llc_t.cfg
    sx.check_all([
        (ci['send-miu'] == miu_t, "llcp:initiator-send-miu-not-peer-recv-miu"),
        (ct['send-miu'] == miu_i, "llcp:target-send-miu-not-peer-recv-miu"),
        (ci['send-miu'] == ct['recv-miu'], "llcp:initiator-send-miu-vs-cfg"),
        (ct['send-miu'] == ci['recv-miu'], "llcp:target-send-miu-vs-cfg"),
        (ci['recv-lto'] == (lto_t // 10) * 10, "llcp:initiator-recv-lto-not-peer-lto"),
        (ct['recv-lto'] == (lto_i // 10) * 10, "llcp:target-recv-lto-not-peer-lto"),
        (ci['send-lto'] == lto_i, "llcp:initiator-send-lto-changed"),
        (ct['send-lto'] == lto_t, "llcp:target-send-lto-changed"),
        (ci['send-wks'] == wks_t, "llcp:initiator-send-wks-not-peer-services"),
        (ct['send-wks'] == wks_i, "llcp:target-send-wks-not-peer-services"),
        (ci['send-lsc'] == lsc[1], "llcp:initiator-send-lsc-not-peer-lsc"),
        (ct['send-lsc'] == lsc[0], "llcp:target-send-lsc-not-peer-lsc"),
        (ci['llcp-dpc'] == 0 and ct['llcp-dpc'] == 0, "llcp:dpc-without-sec"),
    ])
    sx.check(ci['rcvd-ver'] == (1, 3) and ct['rcvd-ver'] == (1, 3), "llcp:version")
    sx.check(llc_i.link.CONNECTED and llc_t.link.CONNECTED, "llcp:link-state")

    # ---- later traffic stays within the NFC-DEP limits and the bit rate
    if T['end'] is not None:
        sx.check(False, "traffic:target-exchange-failed:" + T['end'] + tag)
    if I['end'] is not None:
        sx.check(False, "traffic:initiator-exchange-failed:" + I['end'] + tag)
    sx.check(len(T['recv']) == 2 and T['recv'][1] is None and
             same_bytes(sx, T['recv'][0], I['sent']), "traffic:target-received-wrong-data" + tag)
    sx.check(same_bytes(sx, I['recv'], T['sent']), "traffic:initiator-received-wrong-data" + tag)
    seen_psl = False
    ninf = 0
    for f in air.frames:
        who = "I>T" if f.sender == 'I' else "T>I"
        name = f.kind or f.pdu or "?"
        sx.check(f.start_byte_ok and f.length_byte_ok,
                 "traffic:frame-format:%s:%s" % (who, name))
        after = seen_psl and not (f.pdu == 'PSL')
        frate = RATES.index(f.brty)
        sx.check(frate == (rate if after or psl_req is None else start),
                 "traffic:frame-at-wrong-rate:%s:%s" % (who, name))
        if f.pdu == 'PSL' and f.sender == 'T':
            seen_psl = True
        if f.pdu == 'ATR':
            sx.check(f.td_len <= 64, "traffic:atr-longer-than-64:" + who)
            continue
        limit = lr_of(sx, lrt_e) if f.sender == 'I' else lr_of(sx, lri_e)
        sx.check(f.td_len <= limit, "traffic:frame-exceeds-lr:%s:%s%s" % (who, name, tag))
        if f.kind in ("INF", "INF+"):
            ninf += 1
    sx.check(ninf == 4, "traffic:not-two-chained-payloads")
    sx.reach("exchanged")

    # ---- later LLCP traffic stays within the MIU the peer announced: three
    # datagrams queued on each side, collected (aggregated if enabled) into
    # link frames; sizes chosen so that three of them come close to MIU 128
    for side, ctl, peer in (("I", llc_i, llc_t), ("T", llc_t, llc_i)):
        sock = ctl.socket(LLCP_LDL)
        ctl.bind(sock, 40)
        for n in (50, 30, 37):
            ctl.sendto(sock, bytes(bytearray(n)), 41, LLCP_DONTWAIT)
        if not snl_traffic:
            snl_n = 0
        else:
            snl_n = 20
            sx.reach("llcp_traffic_with_service_discovery")
        # ... and service discovery traffic in both directions at once: the
        # peer has asked for twenty names (one SNL PDU with twenty SDREQs is
        # dispatched), three applications of this device wait in resolve()
        # for long names (the entries resolve() queues before it sleeps)
        snl = pdu.ServiceNameLookup(1, 1)
        snl.sdreq = [(t, b"urn:nfc:sn:q%d" % t) for t in range(snl_n)]
        if snl_n:
            ctl.dispatch(pdu.decode(pdu.encode(snl)))
        sda = ctl.sap[1]
        for t in (200, 201, 202)[:snl_n]:
            sda.tids.remove(t)
            sda.sdreq.append((t, b"urn:nfc:sn:" + b"x" * (60 + t - 200)))
        for k in range(8):
            frame = ctl.collect()
            if frame is None:
                break
            info = len(frame.encode()) - 2
            sx.check(info <= peer.cfg['recv-miu'],
                     "llcp-traffic:information-field-exceeds-peer-miu:%s" % side)
    sx.reach("llcp_traffic")
    return dict(rate=rate, imiu=ini.miu, tmiu=tgt.miu, psl=psl_req is not None,
                wt=to & 15)


def same_bytes(sx, a, b):
    if a is None or b is None or len(a) != len(b):
        return False
    return sx.eq(a, b)


# ----------------------------------------------------------------------------
# partitions: the symbolic ranges are cut where the code clamps or compares
# against a default, so that every partition stays small
# ----------------------------------------------------------------------------
MIU_ALL, LTO_ALL = [128, 2175], [10, 2550]


import nfc.llcp as _llcp
import nfc.llcp.pdu as pdu
LLCP_LDL, LLCP_DONTWAIT = _llcp.LOGICAL_DATA_LINK, _llcp.MSG_DONTWAIT


class Recorder(object):
    """stands in for LogicalLinkController.activate(): records what connect()
    passes down and reports 'no peer found' (both modes)"""
    calls = []

    @staticmethod
    def activate(llc, mac, **cfg):
        Recorder.calls.append((type(mac).__name__, dict(cfg)))
        return None


def passthrough(sx, role, rounds):
    """the real connect() -> _llcp_connect() must hand the NFC-DEP options of
    the caller to every activation attempt (each role, every round)"""
    import nfc.clf
    import nfc.llcp.llc
    clf = nfc.clf.ContactlessFrontend()
    clf.device = object()          # only tested for not being None here
    opts = dict(brs=sx.int("brs", 0, 2), lri=sx.int("lri", 0, 3), lrt=sx.int("lrt", 0, 3),
                rwt=sx.int("rwt", 0, 14), acm=sx.pick("acm", [True, False]))
    given = dict(opts)
    if role is not None:
        opts['role'] = role
    Recorder.calls = []
    polls = [0]

    def terminate():
        polls[0] += 1
        return polls[0] > rounds
    real = nfc.llcp.llc.LogicalLinkController.activate
    nfc.llcp.llc.LogicalLinkController.activate = Recorder.activate
    try:
        result = clf.connect(llcp=opts, terminate=terminate)
    finally:
        nfc.llcp.llc.LogicalLinkController.activate = real
    sx.check(result is None, "passthrough:connect-result-without-peer")
    per_round = 2 if role is None else 1
    sx.check(len(Recorder.calls) == rounds * per_round, "passthrough:number-of-activation-attempts")
    for i, (mac, cfg) in enumerate(Recorder.calls):
        which = "first" if i == 0 else "later"
        for k in sorted(given):
            if k not in cfg:
                sx.check(False, "passthrough:option-%s-not-passed-to-%s-attempt" % (k, which))
            sx.check(sx.eq(cfg[k], given[k]), "passthrough:option-%s-changed-in-%s-attempt" % (k, which))
    sx.reach("passthrough")
    return [len(Recorder.calls), role]


# ----------------------------------------------------------------------------
# timing on the virtual clock: on an idle link each side hands its next PDU
# to the MAC within the link timeout it announced itself
# ----------------------------------------------------------------------------
from symx.envpatch import CLOCK


class _Yield(BaseException):
    """leaves the run loop where it would wait for a frame beyond the script"""


def _scripted_mac(role, peer_gb, log, nframes):
    """a real Initiator/Target object whose activate() hands over the peer's
    general bytes and whose exchange() is the peer: it answers SYMM at once
    and records the virtual time of every call and return"""
    cls = nfc.dep.Initiator if role == "initiator" else nfc.dep.Target
    mac = cls.__new__(cls)

    def activate(*args, **options):
        log['gb'] = options['gbi' if role == "initiator" else 'gbt']
        mac.rwt = 4096 / 13.56E6 * 2 ** 8
        return peer_gb

    def exchange(send_data, timeout):
        log['calls'].append((CLOCK.t, send_data))
        if len(log['calls']) > nframes:
            raise _Yield()
        log['returns'].append(CLOCK.t)
        return bytearray(b"\x00\x00")
    mac.activate, mac.exchange = activate, exchange
    mac.deactivate = lambda *a, **k: None
    return mac


def idle_timing(sx, role, own_rng, peer_rng, nframes=14):
    """real llc.activate() (PAX built and parsed by the real code on both
    devices), then the real run_as_initiator / run_as_target loop on an idle
    link for nframes exchanges against a peer that answers SYMM at once"""
    llc.sec.OpenSSL = None
    own = sx.int("lto.own", *own_rng)
    peer = sx.int("lto.peer", *peer_rng)
    other = "target" if role == "initiator" else "initiator"
    # the peer device announces its parameters through its own real activate()
    plog = dict(calls=[], returns=[], gb=None)
    peer_llc = llc.LogicalLinkController(lto=peer, sec=False)
    peer_llc.activate(mac=_scripted_mac(other, None, plog, 0))
    log = dict(calls=[], returns=[], gb=None)
    ctl = llc.LogicalLinkController(lto=own, sec=False)
    if not ctl.activate(mac=_scripted_mac(role, plog['gb'], log, nframes)):
        sx.check(False, "idle:activation-failed:" + role)
    announced = nfc.llcp.pdu.decode(b"\x00\x40" + bytes(log['gb'][3:])).lto
    sx.check_all([
        (announced == (own // 10) * 10, "idle:announced-lto-not-the-option:" + role),
        (ctl.cfg['recv-lto'] == (peer // 10) * 10, "idle:recv-lto-not-peer-lto:" + role),
    ])
    CLOCK.reset()
    try:
        ctl.run(terminate=lambda: False)
        sx.check(False, "idle:run-loop-ended:" + role)
    except _Yield:
        pass
    calls, rets = log['calls'], log['returns']
    sx.check(len(calls) == nframes + 1 and len(rets) == nframes,
             "idle:link-did-not-stay-up:" + role)
    low = ":lto-below-100" if own_rng[1] < 100 else ""
    worst = 0.0
    for k in range(1, len(calls)):
        t_send, data = calls[k]
        if data is None:
            sx.check(False, "idle:no-pdu-sent:" + role)
        waited = t_send - rets[k - 1]
        worst = max(worst, waited)
        phase = "idle" if k >= 10 else "start"   # 10 SYMM received so far
        sx.check(waited <= announced * 1E-3,
                 "llcp:%s-%s-symm-later-than-own-lto%s" % (role, phase, low))
    sx.reach("idle:" + role)
    return [role, len(calls), round(worst, 4)]


def partitions(tier):
    quick = tier == "quick"
    parts = []
    for role in ("initiator", "target"):
        parts.append(dict(name="idle:%s" % role, fn="idle_timing", params=dict(
            role=role, own_rng=[100, 2550], peer_rng=[10, 2550])))
        parts.append(dict(name="idle:%s:low" % role, fn="idle_timing", params=dict(
            role=role, own_rng=[10, 99], peer_rng=[10, 2550])))
    for role in (None, "initiator", "target"):
        for rounds in ((1, 3) if quick else (1, 2, 3, 5)):
            parts.append(dict(name="passthrough:%s:%d" % (role, rounds), fn="passthrough",
                              params=dict(role=role, rounds=rounds)))

    def act(name, tech, **kw):
        p = dict(tech=tech, brs_rng=[0, 2] if tech == '106A' else [1, 2],
                 lri_rng=[-1, 4], lrt_rng=[-1, 4], rwt_rng=[0, 15],
                 miu_rng=[[129, 2175], [129, 2175]],
                 lto_rng=[[110, 2550], [110, 2550]], lsc=[3, 3],
                 services=[[], []])
        p.update(kw)
        parts.append(dict(name=name, fn="activation", params=p))

    # ---- NFC-DEP grid: brs, lri, lrt, rwt over their whole ranges
    cuts = [[-1, 0], [1, 3], [4, 4]]
    for tech in ('106A', '212F'):
        for a, ri in enumerate(cuts):
            for b, rt in enumerate(cuts):
                act("dep:%s:lri%d:lrt%d" % (tech, a, b), tech, lri_rng=ri,
                    lrt_rng=rt, lsc=[(a + b) % 4, (a * 2 + b + 1) % 4],
                    agf=bool((a + b) & 1))
    # ---- LLCP grid: MIU and LTO of both devices over their whole ranges
    # (128 and 100 are the defaults that are not sent), services, LSC
    svc = [[[], []], [[4], []], [[], [4, 16]], [[4, 11], [2, 14, 15]]]
    k = 0
    for mi in ([128, 128], [129, 2175]):
        for mt in ([128, 128], [129, 2175]):
            for li in ([10, 100], [101, 2550]):
                for lt in ([10, 100], [101, 2550]):
                    tech = ('106A', '212F')[k & 1]
                    act("llcp:%d" % k, tech, miu_rng=[mi, mt], lto_rng=[li, lt],
                        lri_rng=[0, 3], lrt_rng=[0, 3],
                        rwt_rng=[0, 15] if not quick else [6, 10],
                        lsc=[k % 4, (k // 4) % 4], services=svc[k % 4],
                        acm=bool(k & 2), agf=bool(k & 4),
                        # (both MIUs are the default 128 in partitions 0..3:
                        # service discovery traffic on top of the datagrams)
                        snl_traffic=(mi == [128, 128] and mt == [128, 128]))
                    k += 1
    # ---- active communication mode: the initiator's device can sense for an
    # active target, the ATR_REQ opens the activation at 106 kbps
    for a, ri in enumerate(cuts):
        act("acm:106A:lri%d" % a, '106A', acm=True, acm_device=True, lri_rng=ri,
            lrt_rng=[-1, 4] if not quick else [0, 3], rwt_rng=[0, 15] if not quick else [5, 9],
            lsc=[a, (a + 2) % 4])
    # ---- DID / NAD handed to activate() directly (connect() never does)
    act("did:106A", '106A', did=1, lri_rng=[0, 3], lrt_rng=[0, 3], rwt_rng=[8, 8])
    act("nad:212F", '212F', nad=7, lri_rng=[0, 3], lrt_rng=[0, 3], rwt_rng=[8, 8])
    if not quick:
        act("did+nad:106A", '106A', did=200, nad=1, rwt_rng=[0, 15])
        act("all:106A", '106A', miu_rng=[MIU_ALL, MIU_ALL], lto_rng=[LTO_ALL, LTO_ALL])
        act("all:212F", '212F', miu_rng=[MIU_ALL, MIU_ALL], lto_rng=[LTO_ALL, LTO_ALL],
            lsc=[1, 2], services=[[4], [4]], acm=True)
    return parts


MUST_REACH = ["activated:active-mode", "activated:106A", "activated:212F", "psl", "exchanged", "did", "nad", "passthrough", "llcp_traffic", "llcp_traffic_with_service_discovery",
              "idle:initiator", "idle:target"]
BOUNDS = {
    "quick": "two real LogicalLinkController.activate() stacks (Initiator and "
    "Target) over the stub air, passive activation at 106A and at 212F; "
    "symbolic integers, not enumerated: brs 0..2 (1..2 when the target "
    "answers at 212F only), lri and lrt -1..4 (clamped to 0..3), rwt 0..15 "
    "(clamped to 14), MIU 128..2175 and LTO 10..2550 ms of both devices; "
    "the ranges are cut into partitions where the code clamps or compares "
    "with a default (lri/lrt {-1..0, 1..3, 4}, MIU {128, 129..2175}, LTO "
    "{10..100, 101..2550}); picked: LSC 0..3 on both devices (16 pairs "
    "spread over the partitions), service lists {none, 4, 4+16, 2+14+15, "
    "4+11}, agf, acm asked for but unsupported by the device, acm asked for and supported (activation in active communication mode at 106A: ATR_REQ sent by sense(), lri ranges as above), DID=1, NAD=7; "
    "the LLCP grid uses rwt 6..10; after activation one chained payload of "
    "miu+1 bytes in each direction and release; timing on the virtual clock: "
    "own LTO 10..2550 ms x peer LTO 10..2550 ms (both symbolic), each role: "
    "real llc.activate() on both devices (PAX built and parsed by the real "
    "code), then the real run_as_initiator / run_as_target loop for 14 "
    "exchanges on an idle link against a peer answering SYMM at once; for "
    "every PDU handed to the MAC the virtual time since the previous PDU "
    "arrived must not exceed the LTO the device announced in its own general "
    "bytes (own LTO 10..99 in partitions of their own)",
    "thorough": "as quick with rwt 0..15 everywhere, DID+NAD together, and "
    "two partitions with every range uncut (brs, lri, lrt, rwt, both MIU, "
    "both LTO fully symbolic in one run)",
}
OUTSIDE = [
    "active communication mode at other rates than 106 kbps and its RF "
    "collision avoidance (the air model only switches off the passive "
    "discovery), 424F as polling technology "
    "(424F is reached through PSL_REQ), activation with a target handed to "
    "Initiator.activate(target=...)",
    "option pass-through of ContactlessFrontend._llcp_connect itself (the "
    "harness calls llc.activate(mac, **options) with the five option names "
    "connect() forwards, plus did/nad directly)",
    "'all later traffic' above NFC-DEP: that LLCP PDUs respect the send MIU "
    "is C10, connection MIUs C05; here the later traffic is one chained "
    "NFC-DEP payload each way, checked against LR, framing and bit rate",
    "sec=True (DPC bit; OpenSSL) and MIU/LTO values outside 128..2175 / "
    "10..2550; LTO is compared after rounding down to the 10 ms unit of the "
    "LTO parameter",
    "lost or corrupted activation frames (C04 covers the data exchange)",
    "timing while PDUs are queued or connections are open, time spent below "
    "the MAC (NFC-DEP RWT, retransmissions), more than 14 idle exchanges",
]
ASSUMPTIONS = [
    "env.air IniClf.sense / ListenStub (TgtClf.listen) as in C04: the target "
    "answers polling at one technology, ATR_REQ -> the ATR_RES handed in, "
    "PSL_REQ -> PSL_RES then both sides switch the bit rate, the first "
    "DEP_REQ ends listen(); initiator and target stacks alternate strictly",
    "expected values are formulas over the options: LR table "
    "(64,128,192,254)[clamp(lr,0,3)], RWT 4096/13.56e6*2^clamp(rwt,0,14), "
    "rate = brs if brs > polling rate else polling rate, PSL_REQ BRS = 9*brs "
    "(DSI=DRI), payload limit LR-3-DID-NAD on both sides",
    "well-known services are registered by writing llc.snl (what bind() "
    "does) before activation; the remote WKS must equal 1 | 2 | their bits",
    "os.urandom inside nfc.dep returns a fixed pattern; nfc.llcp.sec.OpenSSL "
    "is set to None (no data protection)",
    "idle timing: the MAC is a real Initiator/Target object whose activate() "
    "hands over the general bytes produced by the peer controller's real "
    "activate() and whose exchange() answers SYMM without delay and records "
    "symx.envpatch.CLOCK (time() +100 us per call, sleep(d) +d) at call and "
    "return; the loop is left by a BaseException at the 15th exchange",
    "the payloads of the final exchange are a fixed pattern with symbolic "
    "bytes at the start and around the chaining boundary",
]
