"""C11 - LLCP PDU encoding and decoding are mutually consistent.

Real code executed: nfc.llcp.pdu (decode, every PDU class' decode/encode/
__len__, Parameter.decode/encode).  Independent oracle: ref_decode() below,
written from the LLCP 1.3 frame formats.
"""
from harness.util import same, is_bytes
import nfc.llcp.pdu as pdu

PROPERTY = "C11"

NAMES = ["SYMM", "PAX", "AGF", "UI", "CONNECT", "DISC", "CC", "DM", "FRMR",
         "SNL", "DPS", "1011", "I", "RR", "RNR", "1111"]


def norm(b):
    """empty and absent service name / key material are the same thing"""
    if b is None:
        return None
    if len(b) == 0:
        return None
    return b


def fields(p):
    f = dict(cls=type(p).__name__, ptype=p.ptype, dsap=p.dsap, ssap=p.ssap)
    if isinstance(p, pdu.ParameterExchange):
        f.update(version=p._version, miux=p._miux, wks=p._wks, lto=p._lto,
                 opt=p._opt)
    elif isinstance(p, pdu.AggregatedFrame):
        f.update(agg=[fields(q) for q in p])
    elif isinstance(p, pdu.UnnumberedInformation):
        f.update(data=p.data)
    elif isinstance(p, pdu.Connect):
        f.update(miu=p.miu, rw=p.rw, sn=norm(p.sn))
    elif isinstance(p, pdu.ConnectionComplete):
        f.update(miu=p.miu, rw=p.rw)
    elif isinstance(p, pdu.DisconnectedMode):
        f.update(reason=p.reason)
    elif isinstance(p, pdu.FrameReject):
        f.update(flags=p.rej_flags, rptype=p.rej_ptype, ns=p.ns, nr=p.nr,
                 vs=p.vs, vr=p.vr, vsa=p.vsa, vra=p.vra)
    elif isinstance(p, pdu.ServiceNameLookup):
        f.update(sdreq=[(t, n) for t, n in p.sdreq],
                 sdres=[(t, a) for t, a in p.sdres])
    elif isinstance(p, pdu.DataProtectionSetup):
        f.update(ecpk=norm(p.ecpk), rn=norm(p.rn))
    elif isinstance(p, pdu.Information):
        f.update(ns=p.ns, nr=p.nr, data=p.data)
    elif isinstance(p, (pdu.ReceiveReady, pdu.ReceiveNotReady)):
        f.update(nr=p.nr)
    elif isinstance(p, pdu.UnknownProtocolDataUnit):
        f.update(payload=p.payload)
    return f


# ----------------------------------------------------------------------------
# independent reading of the frame formats
# ----------------------------------------------------------------------------
class RefError(Exception):
    pass


def ref_tlvs(sx, d, lo, hi):
    """TLVs inside d[lo:hi]; a TLV may not extend beyond hi"""
    out = []
    pos = lo
    while hi - pos >= 2:
        T, L = d[pos], d[pos + 1]
        if L > hi - pos - 2:
            raise RefError("overflow")
        L = sx.concrete(L)
        V = d[pos + 2:pos + 2 + L]
        out.append((T, L, V))
        pos += 2 + L
    return out


def ref_decode(sx, d, lo=0, hi=None, depth=0):
    """-> dict like fields(); RefError for frames the format does not allow"""
    hi = len(d) if hi is None else hi
    if hi - lo < 2:
        raise RefError("short")
    b0, b1 = d[lo], d[lo + 1]
    dsap, ssap = b0 >> 2, b1 & 63
    ptype = sx.concrete(((b0 & 3) << 2) | (b1 >> 6))
    f = dict(ptype=ptype, dsap=dsap, ssap=ssap)
    name = NAMES[ptype]

    def zero_saps(v=0):
        if sx.truth(sx.neg(sx.all([dsap == v, ssap == v]))):
            raise RefError("saps")

    def u16(v):
        return (v[0] << 8) | v[1]

    def tl(T, L, n):
        if L != n:
            raise RefError("tlv length")

    if name == "SYMM":
        zero_saps()
        if hi - lo != 2:
            raise RefError("symm payload")
        f.update(cls="Symmetry")
    elif name == "PAX":
        zero_saps()
        f.update(cls="ParameterExchange", version=None, miux=None, wks=None,
                 lto=None, opt=None)
        for T, L, V in ref_tlvs(sx, d, lo + 2, hi):
            check_tlv(T, L)
            if T == 1:
                f['version'] = V[0]
            elif T == 2:
                f['miux'] = u16(V) & 0x7FF
            elif T == 3:
                f['wks'] = u16(V)
            elif T == 4:
                f['lto'] = V[0]
            elif T == 7:
                f['opt'] = V[0] & 7
    elif name == "AGF":
        zero_saps()
        agg = []
        pos = lo + 2
        while pos < hi:
            if hi - pos < 2:
                raise RefError("agf length field")
            n = (d[pos] << 8) | d[pos + 1]
            if n > hi - pos - 2:
                raise RefError("agf sub pdu exceeds frame")
            n = sx.concrete(n)
            # (an aggregate inside an aggregate is not produced by a conforming
            # sender; whether to refuse it is a robustness matter judged in
            # C07, the format itself is read tolerantly here)
            agg.append(ref_decode(sx, d, pos + 2, pos + 2 + n, depth + 1))
            pos += 2 + n
        f.update(cls="AggregatedFrame", agg=agg)
    elif name == "UI":
        f.update(cls="UnnumberedInformation", data=d[lo + 2:hi])
    elif name in ("CONNECT", "CC"):
        f.update(cls="Connect" if name == "CONNECT" else "ConnectionComplete",
                 miu=128, rw=1)
        if name == "CONNECT":
            f['sn'] = None
        for T, L, V in ref_tlvs(sx, d, lo + 2, hi):
            check_tlv(T, L)
            if T == 2:
                f['miu'] = 128 + (u16(V) & 0x7FF)
            elif T == 5:
                f['rw'] = V[0] & 15
            elif T == 6 and name == "CONNECT":
                f['sn'] = norm(V)
    elif name == "DISC":
        f.update(cls="Disconnect")
    elif name == "DM":
        if hi - lo != 3:
            raise RefError("dm length")
        f.update(cls="DisconnectedMode", reason=d[lo + 2])
    elif name == "FRMR":
        if hi - lo != 6:
            raise RefError("frmr length")
        b = d[lo + 2:hi]
        f.update(cls="FrameReject", flags=b[0] >> 4, rptype=b[0] & 15,
                 ns=b[1] >> 4, nr=b[1] & 15, vs=b[2] >> 4, vr=b[2] & 15,
                 vsa=b[3] >> 4, vra=b[3] & 15)
    elif name == "SNL":
        zero_saps(1)
        sdreq, sdres = [], []
        for T, L, V in ref_tlvs(sx, d, lo + 2, hi):
            check_tlv(T, L)
            if T == 8:
                sdreq.append((V[0], V[1:]))
            elif T == 9:
                sdres.append((V[0], V[1]))
        f.update(cls="ServiceNameLookup", sdreq=sdreq, sdres=sdres)
    elif name == "DPS":
        zero_saps()
        f.update(cls="DataProtectionSetup", ecpk=None, rn=None)
        for T, L, V in ref_tlvs(sx, d, lo + 2, hi):
            check_tlv(T, L)
            if T == 10:
                f['ecpk'] = norm(V)
            elif T == 11:
                f['rn'] = norm(V)
    elif name in ("I", "RR", "RNR"):
        if hi - lo < 3:
            raise RefError("sequence field missing")
        seq = d[lo + 2]
        if name == "I":
            f.update(cls="Information", ns=seq >> 4, nr=seq & 15,
                     data=d[lo + 3:hi])
        else:
            f.update(cls="ReceiveReady" if name == "RR" else "ReceiveNotReady",
                     nr=seq & 15)
    else:
        f.update(cls="UnknownProtocolDataUnit", payload=d[lo + 2:hi])
    return f


def check_tlv(T, L):
    """L is concrete here; T may be symbolic (binary forks only)"""
    if L != 1 and (T == 1 or T == 4 or T == 5 or T == 7):
        raise RefError("tlv length")
    if L != 2 and (T == 2 or T == 3 or T == 9):
        raise RefError("tlv length")
    if L == 0 and T == 8:
        raise RefError("tlv length")


# ----------------------------------------------------------------------------
# decode -> encode -> decode on arbitrary byte strings
# ----------------------------------------------------------------------------
def real_decode(sx, data, label):
    """pdu.decode with the one documented failure mode"""
    try:
        return pdu.decode(data)
    except pdu.DecodeError:
        return None


def dec_enc_dec(sx, n, ptype):
    data = sx.bytes("d", n)
    if n >= 2:
        # fix the type nibble of this partition
        sx.assume(sx.all([(data[0] & 3) == (ptype >> 2),
                          (data[1] >> 6) == (ptype & 3)]), "ptype nibble fixed per partition")
    q = real_decode(sx, data, "decode")
    if q is None:
        sx.reach("decode_error")
        return "DecodeError"
    sx.reach("decoded")
    try:
        ref = ref_decode(sx, data)
    except RefError as e:
        sx.check(False, "decoded-but-malformed:%s:%s" % (NAMES[ptype], e))
    fq = fields(q)
    sx.check(same(sx, fq, ref), "disagrees-with-reference:" + NAMES[ptype])
    try:
        enc = q.encode()
    except pdu.EncodeError:
        sx.check(False, "decoded-pdu-not-encodable:" + NAMES[ptype])
    sx.check(len(q) == len(enc), "len-mismatch:" + NAMES[ptype])
    try:
        q2 = pdu.decode(enc)
    except pdu.DecodeError:
        sx.check(False, "reencoding-not-decodable:" + NAMES[ptype])
    sx.check(same(sx, fields(q2), fq), "redecode-differs:" + NAMES[ptype])
    return fq['cls']


# ----------------------------------------------------------------------------
# encode -> decode for every class with symbolic valid field values
# ----------------------------------------------------------------------------
def opt_bytes(sx, name, lens):
    n = sx.pick(name + ".len", lens)
    if n is None:
        return None
    return sx.bytes(name, n)


def make(sx, kind, pfx=""):
    sap = lambda n: sx.int(pfx + n, 0, 63)
    if kind == "SYMM":
        return pdu.Symmetry()
    if kind == "PAX":
        p = pdu.ParameterExchange()
        if sx.pick(pfx + "has_version", [0, 1]):
            p._version = sx.int(pfx + "version", 0, 255)
        if sx.pick(pfx + "has_miux", [0, 1]):
            p._miux = sx.int(pfx + "miux", 0, 0x7FF)
        if sx.pick(pfx + "has_wks", [0, 1]):
            p._wks = sx.int(pfx + "wks", 0, 0xFFFF)
        if sx.pick(pfx + "has_lto", [0, 1]):
            p._lto = sx.int(pfx + "lto", 0, 255)
        if sx.pick(pfx + "has_opt", [0, 1]):
            p._opt = sx.int(pfx + "opt", 0, 7)
        return p
    if kind == "UI":
        return pdu.UnnumberedInformation(
            sap("dsap"), sap("ssap"), opt_bytes(sx, pfx + "data", [0, 1, 2, 9] + ([] if pfx else [2175])))
    if kind == "CONNECT":
        return pdu.Connect(sap("dsap"), sap("ssap"),
                           sx.int(pfx + "miu", 128, 2175), sx.int(pfx + "rw", 0, 15),
                           opt_bytes(sx, pfx + "sn", [None, 0, 1, 4, 255]))
    if kind == "DISC":
        return pdu.Disconnect(sap("dsap"), sap("ssap"))
    if kind == "CC":
        return pdu.ConnectionComplete(sap("dsap"), sap("ssap"),
                                      sx.int(pfx + "miu", 128, 2175),
                                      sx.int(pfx + "rw", 0, 15))
    if kind == "DM":
        return pdu.DisconnectedMode(sap("dsap"), sap("ssap"),
                                    sx.int(pfx + "reason", 0, 255))
    if kind == "FRMR":
        nib = lambda n: sx.int(pfx + n, 0, 15)
        return pdu.FrameReject(sap("dsap"), sap("ssap"), nib("flags"),
                               nib("rptype"), nib("ns"), nib("nr"), nib("vs"),
                               nib("vr"), nib("vsa"), nib("vra"))
    if kind == "SNL":
        sdreq = [(sx.int(pfx + "rq%d.tid" % i, 0, 255),
                  opt_bytes(sx, pfx + "rq%d.sn" % i, [0, 1, 3, 254]))
                 for i in range(sx.pick(pfx + "nreq", [0, 1, 2]))]
        sdres = [(sx.int(pfx + "rs%d.tid" % i, 0, 255),
                  sx.int(pfx + "rs%d.sap" % i, 0, 255))
                 for i in range(sx.pick(pfx + "nres", [0, 1, 2]))]
        return pdu.ServiceNameLookup(1, 1, sdreq, sdres)
    if kind == "DPS":
        return pdu.DataProtectionSetup(
            0, 0, opt_bytes(sx, pfx + "ecpk", [None, 0, 2, 64]),
            opt_bytes(sx, pfx + "rn", [None, 0, 8]))
    if kind == "I":
        return pdu.Information(sap("dsap"), sap("ssap"), sx.int(pfx + "ns", 0, 15),
                               sx.int(pfx + "nr", 0, 15),
                               opt_bytes(sx, pfx + "data", [0, 1, 2, 9] + ([] if pfx else [2175])))
    if kind == "RR":
        return pdu.ReceiveReady(sap("dsap"), sap("ssap"), sx.int(pfx + "nr", 0, 15))
    if kind == "RNR":
        return pdu.ReceiveNotReady(sap("dsap"), sap("ssap"), sx.int(pfx + "nr", 0, 15))
    if kind == "AGF":
        subs = []
        for i in range(sx.pick("nsub", [0, 1, 2])):
            k = sx.pick("sub%d.kind" % i, ["UI", "I", "RR", "CC", "UI-long"])
            if k == "UI-long":
                # sub-PDU lengths whose 16-bit length field looks like a
                # PDU header of another type (bits 9..6), both sides of the
                # 128/192 and 1152 boundaries
                n = sx.pick("sub%d.len" % i, [125, 126, 189, 190, 1150])
                subs.append(pdu.UnnumberedInformation(
                    sx.int("sub%d.dsap" % i, 0, 63), sx.int("sub%d.ssap" % i, 0, 63),
                    sx.bytes("sub%d.data" % i, n)))
                continue
            subs.append(make(sx, k, "sub%d." % i))
        return pdu.AggregatedFrame(0, 0, subs)
    raise ValueError(kind)


def enc_dec(sx, kind):
    p = make(sx, kind)
    fp = fields(p)
    enc = p.encode()
    sx.check(len(p) == len(enc), "len-mismatch:" + kind)
    try:
        q = pdu.decode(enc)
    except pdu.DecodeError:
        sx.check(False, "valid-pdu-not-decodable:" + kind)
    fq = fields(q)
    if fp['cls'] != fq['cls']:
        sx.check(False, "class-differs:" + kind)
    for k in sorted(fp):
        sx.check(same(sx, fp[k], fq[k]), "field-differs:%s.%s" % (kind, k))
    sx.reach("roundtrip:" + kind)
    if kind == "AGF" and len(p) > 2:
        # PDU objects are mutable (the link controller itself sets miu, rw,
        # ns, nr after construction): the reported length must follow
        for who, agf in (("built", p), ("decoded", q)):
            first = [x for x in agf][0]
            if hasattr(first, "data"):
                first.data = sx.bytes("newdata." + who, 40 if who == "built" else 0)
            elif hasattr(first, "miu"):
                first.miu, first.rw = 2175, 0
            else:
                continue
            sx.check(len(agf) == len(agf.encode()), "len-mismatch-after-member-changed:" + who)
            sx.reach("agf_member_changed")
    return kind


# ----------------------------------------------------------------------------
# a PDU inside an aggregate is decoded from its own bytes only
# ----------------------------------------------------------------------------
def agf_isolation(sx, sizes):
    body = []
    subs = []
    for i, n in enumerate(sizes):
        b = sx.bytes("s%d" % i, n)
        subs.append(b)
        body += [n >> 8, n & 255] + list(b)
    frame = sx.mkbytes([0x00, 0x80] + body, False)
    try:
        agf = pdu.decode(frame)
    except pdu.DecodeError:
        sx.reach("agf_rejected")
        return "DecodeError"
    sx.reach("agf_decoded")
    got = [q for q in agf]
    if len(got) != len(sizes):
        sx.check(False, "agf-count")
    for i, (q, b) in enumerate(zip(got, subs)):
        try:
            alone = pdu.decode(b)
        except pdu.DecodeError:
            sx.check(False, "agf-subpdu-not-decodable-alone:%d/%d" % (i, len(sizes)))
        sx.check(same(sx, fields(q), fields(alone)),
                 "agf-subpdu-differs-from-own-bytes:%d/%d" % (i, len(sizes)))
    return len(got)


KINDS = ["SYMM", "PAX", "AGF", "UI", "CONNECT", "DISC", "CC", "DM", "FRMR",
         "SNL", "DPS", "I", "RR", "RNR"]


def partitions(tier):
    parts = []
    for k in KINDS:
        parts.append(dict(name="enc_dec:" + k, fn="enc_dec", params=dict(kind=k)))
    nmax = 6 if tier == "quick" else 10
    for n in range(0, nmax + 1):
        if n < 2:
            parts.append(dict(name="dec:%d" % n, fn="dec_enc_dec",
                              params=dict(n=n, ptype=0)))
            continue
        for t in range(16):
            parts.append(dict(name="dec:%d:%s" % (n, NAMES[t]), fn="dec_enc_dec",
                              params=dict(n=n, ptype=t)))
    sizes = [[2, 2], [3, 2], [2, 3], [4, 3], [3, 4], [2, 2, 2], [5, 2], [2, 5]]
    if tier == "thorough":
        sizes += [[4, 4], [6, 3], [3, 6], [3, 3, 3], [5, 4], [4, 5], [2, 4, 3]]
    for s in sizes:
        parts.append(dict(name="agf:" + "+".join(map(str, s)), fn="agf_isolation",
                          params=dict(sizes=s)))
    return parts


MUST_REACH = ["decode_error", "decoded", "agf_decoded", "agf_rejected", "agf_member_changed"] + \
    ["roundtrip:" + k for k in KINDS]
BOUNDS = {
    "quick": "encode->decode: all 14 PDU classes, every field symbolic over its full valid range, payload/name lengths from {0,1,2,3,4,9,64,254,255}; decode->encode->decode: every byte string of length 0..6 (16 type nibbles x lengths); aggregates of 2-3 sub-PDUs of 2..5 symbolic bytes; encoded aggregates of 0..2 sub-PDUs incl. UI sub-PDUs of 127/128/191/192/1152 octets (length field resembling a header)",
    "thorough": "as quick with byte strings of length 0..10 and aggregates up to 9 sub-PDU bytes",
}
OUTSIDE = ["byte strings longer than the bound", "payloads longer than 9 bytes except names of 254/255",
           "DPS key material semantics", "nested aggregates deeper than the frame bound"]
ASSUMPTIONS = ["reference decoder ref_decode() (harness, from LLCP 1.3) is the independent reading",
               "empty and absent service name / ECPK / RN are identified"]
