"""C06 - SNEP (and handover) carry NDEF messages intact through fragmentation.

Real code executed: nfc.snep.client.SnepClient.connect/put_octets/get_octets/
close, send_request, recv_response; nfc.snep.server.SnepServer.__init__,
_serve, process_snep_request; nfc.handover.client.HandoverClient.connect/
send_octets/recv_octets, nfc.handover.server.HandoverServer.serve/
_process_request_data; nfc.llcp.Socket (wrapper) on both sides.

Environment: env.sockpair (Link + FakeLLC): reliable, ordered, boundary
preserving connection with one send-MIU per direction; client stack and
server stack alternate strictly.  ndef.message_decoder/message_encoder are
replaced inside nfc.snep.server by pass-through stubs (one "record" = the
octets), so message contents can be symbolic.
"""
import ndef as real_ndef
import nfc.llcp
import nfc.snep
import nfc.snep.client
import nfc.snep.server
from harness.util import same
from env.sockpair import Link, FakeLLC, Deadlock
from harness import c06_stack
from harness.c06_stack import (stack_snep_put, stack_snep_get,      # noqa: F401
                                stack_handover)                       # noqa: F401

PROPERTY = "C06"

CONTINUE = b"\x10\x80\x00\x00\x00\x00"
REJECT = b"\x10\xFF\x00\x00\x00\x00"


class NdefStub(object):
    """module attribute `ndef` of nfc.snep.server: octets pass through"""
    DecodeError = real_ndef.DecodeError
    EncodeError = real_ndef.EncodeError

    @staticmethod
    def message_decoder(octets, *args, **kwargs):
        yield octets

    @staticmethod
    def message_encoder(records, *args, **kwargs):
        for r in records:
            yield r


class Server(nfc.snep.server.SnepServer):
    def __init__(self, llc, max_acceptable_length, get_response):
        nfc.snep.server.SnepServer.__init__(
            self, llc, max_acceptable_length=max_acceptable_length)
        self.seen = []                 # (kind, octets) per handler call
        self.get_response = get_response

    def process_put_request(self, ndef_message):
        self.seen.append(("put", ndef_message[0] if len(ndef_message) == 1 else None))
        return 0x81

    def process_get_request(self, ndef_message):
        self.seen.append(("get", ndef_message[0] if len(ndef_message) == 1 else None))
        return [self.get_response]


def choose_miu(sx, name, kind, small_hi):
    """send MIU of one direction: 'sym' = symbolic small value (SNEP treats
    the MIU as an opaque positive integer: slices, ranges, comparisons), or
    one of the real-range values"""
    if kind == "sym":
        return sx.int(name, 6, small_hi)
    return int(kind)


def world(sx, miu_c, miu_s, max_len, get_response=b""):
    nfc.snep.server.ndef = NdefStub
    link = Link(miu_c, miu_s)
    server = Server(FakeLLC(link, 's'), max_len, get_response)
    listen = nfc.llcp.Socket(FakeLLC(link, 's'), nfc.llcp.DATA_LINK_CONNECTION)
    listen.bind("urn:nfc:sn:snep")
    conn = listen.accept()
    link.start_server(lambda: server._serve(conn))
    client = nfc.snep.client.SnepClient(FakeLLC(link, 'c'))
    return link, server, client


def reassemble(sx, msgs):
    out = []
    for m in msgs:
        out += list(m)
    return sx.mkbytes(out, False)


def check_wire(sx, link, side, label):
    """every message on the wire respects the MIU of its direction (the
    socket model raises EMSGSIZE otherwise) and none is empty"""
    for m in link.sent[side]:
        sx.check(len(m) > 0, "empty-fragment-sent:" + label)


def snep_put(sx, lens_options, miu_c, miu_s, small_hi, limit):
    """PUT one or more messages; limit: 'none' | 'sym' (server's
    max_acceptable_length symbolic around the first message's length)"""
    lens = sx.pick("lens", lens_options)
    persistent = len(lens) > 1 or sx.pick("persistent", [0, 1])
    mc = choose_miu(sx, "miu.c2s", miu_c, small_hi)
    ms = choose_miu(sx, "miu.s2c", miu_s, small_hi)
    n0 = lens[0]
    max_len = sx.int("srv.max", max(0, n0 - 2), n0 + 2) if limit == "sym" \
        else 0x100000
    link, server, client = world(sx, mc, ms, max_len)
    msgs = [sx.bytes("m%d" % i, n) for i, n in enumerate(lens)]
    results = []
    try:
        try:
            if persistent:
                client.connect("urn:nfc:sn:snep")
            for m in msgs:
                try:
                    results.append(client.put_octets(m))
                except nfc.snep.client.SnepError as e:
                    results.append(("err", e.errno))
            if persistent:
                client.close()
            link.finish()
        except Deadlock:
            sx.check(False, "put:deadlock")
    finally:
        link.abort()
    expect_seen = []
    for i, m in enumerate(msgs):
        too_long = len(m) > max_len
        if sx.truth(too_long):
            sx.reach("put:refused")
            # refused with the Reject response: the client reports failure
            # (False when it was waiting for Continue, SnepError otherwise)
            r = results[i]
            ok = (r is False) or (isinstance(r, tuple) and r[1] == 0xFF)
            sx.check(ok, "put:excess-message-not-refused")
        else:
            sx.reach("put:delivered")
            sx.check(results[i] is True, "put:result-not-true")
            expect_seen.append(("put", m))
    sx.check(len(server.seen) == len(expect_seen),
             "put:handler-calls-differ-from-accepted-messages")
    for got, exp in zip(server.seen, expect_seen):
        sx.check(got[0] == "put" and same(sx, got[1], exp[1]),
                 "put:handler-octets-differ")
    nrej = sum(1 for m in link.sent['s'] if len(m) == 6 and m[1] == 0xFF)
    sx.check(nrej == len(msgs) - len(expect_seen), "put:reject-count")
    check_wire(sx, link, 'c', "put")
    if len(link.sent['c']) > len(msgs):
        sx.reach("put:fragmented")
    sx.check(link.nclose['s'] == 1, "put:server-socket-not-closed-once")
    return [len(link.sent['c']), len(link.sent['s']), results]


def snep_get(sx, len_options, miu_c, miu_s, small_hi, accept):
    """GET: request octets to the server's handler, response octets back"""
    nreq, nrsp = sx.pick("lens", len_options)
    persistent = sx.pick("persistent", [0, 1])
    mc = choose_miu(sx, "miu.c2s", miu_c, small_hi)
    ms = choose_miu(sx, "miu.s2c", miu_s, small_hi)
    rsp = sx.bytes("rsp", nrsp)
    # accept == "srv": the server's max_acceptable_length is symbolic around
    # the length field of the request (4 + octets)
    max_len = sx.int("srv.max", max(0, nreq + 2), nreq + 6) if accept == "srv" \
        else 0x100000
    link, server, client = world(sx, mc, ms, max_len, rsp)
    req = sx.bytes("req", nreq)
    if accept == "sym":
        client.acceptable_length = sx.int("cli.accept", max(0, nrsp - 2), nrsp + 2)
    else:
        client.acceptable_length = 1024 + nrsp
    acceptable = client.acceptable_length
    try:
        try:
            if persistent:
                client.connect("urn:nfc:sn:snep")
            try:
                got = client.get_octets(req)
            except nfc.snep.client.SnepError as e:
                got = ("err", e.errno)
            if persistent:
                client.close()
            link.finish()
        except Deadlock:
            sx.check(False, "get:deadlock")
    finally:
        link.abort()
    if sx.truth(4 + nreq > max_len):
        sx.reach("get:refused")
        sx.check(len(server.seen) == 0, "get:handler-called-for-refused-request")
        sx.check(got is None or (isinstance(got, tuple) and got[1] == 0xFF),
                 "get:excess-request-not-refused")
        nrej = sum(1 for m in link.sent['s'] if len(m) == 6 and m[1] == 0xFF)
        sx.check(nrej == 1 and len(link.sent['s']) == 1, "get:reject-count")
        return "refused"
    sx.check(len(server.seen) == 1, "get:handler-not-called-exactly-once")
    sx.check(server.seen[0][0] == "get" and same(sx, server.seen[0][1], req),
             "get:handler-octets-differ")
    if sx.truth(nrsp > acceptable):
        sx.reach("get:excess-data")
        sx.check(isinstance(got, tuple) and got[1] == 0xC1,
                 "get:excess-response-not-reported")
    else:
        sx.reach("get:returned")
        if isinstance(got, tuple) or got is None:
            sx.check(False, "get:no-response-octets")
        sx.check(same(sx, got, rsp), "get:response-octets-differ")
    check_wire(sx, link, 'c', "get")
    check_wire(sx, link, 's', "get")
    if len(link.sent['s']) > 1:
        sx.reach("get:response-fragmented")
    if len(link.sent['c']) > 2:
        sx.reach("get:request-fragmented")
    return [len(link.sent['c']), len(link.sent['s'])]


# ----------------------------------------------------------------------------
# connection handover: concrete well-formed Hr/Hs messages of chosen sizes
# (ndeflib's strict decoder decides completeness), symbolic MIU
# ----------------------------------------------------------------------------
import nfc.handover
import nfc.handover.client
import nfc.handover.server


class NdefAdapter(object):
    """module attribute `ndef` of the handover modules: the real ndeflib,
    given builtin bytes (concrete contents only)"""

    def __getattr__(self, name):
        return getattr(real_ndef, name)

    def message_decoder(self, data, *args, **kwargs):
        return real_ndef.message_decoder(bytes(data), *args, **kwargs)


def handover_message(kind, pad, tag):
    cls = real_ndef.HandoverRequestRecord if kind == "Hr" \
        else real_ndef.HandoverSelectRecord
    r = cls('1.3', 0x1234) if kind == "Hr" else cls('1.3')
    r.add_alternative_carrier('active', 'c1')
    body = bytes(bytearray([(tag + i) & 255 for i in range(pad)]))
    c = real_ndef.Record('application/octet-stream', 'c1', body)
    return [r, c]


def encode(records):
    return b"".join(real_ndef.message_encoder(records))


class HoServer(nfc.handover.server.HandoverServer):
    def __init__(self, llc, responses):
        nfc.handover.server.HandoverServer.__init__(self, llc)
        self.seen = []
        self.responses = list(responses)

    def process_handover_request_message(self, records):
        self.seen.append(encode(records))
        return self.responses[min(len(self.seen), len(self.responses)) - 1]


def handover(sx, options, miu_c, miu_s, small_hi):
    """options: list of [[request pad, response pad], ...] (one entry per
    request sent on the connection)"""
    pads = sx.pick("pads", options)
    mc = choose_miu(sx, "miu.c2s", miu_c, small_hi)
    ms = choose_miu(sx, "miu.s2c", miu_s, small_hi)
    adapter = NdefAdapter()
    nfc.handover.client.ndef = adapter
    nfc.handover.server.ndef = adapter
    link = Link(mc, ms)
    requests = [encode(handover_message("Hr", a, 16 * i)) for i, (a, b) in enumerate(pads)]
    responses = [handover_message("Hs", b, 16 * i + 7) for i, (a, b) in enumerate(pads)]
    server = HoServer(FakeLLC(link, 's'), responses)
    listen = nfc.llcp.Socket(FakeLLC(link, 's'), nfc.llcp.DATA_LINK_CONNECTION)
    conn = listen.accept()
    link.start_server(lambda: server.serve(conn))
    client = nfc.handover.client.HandoverClient(FakeLLC(link, 'c'))
    sent_ok, got = [], []
    try:
        try:
            client.connect()
            for q in requests:
                sent_ok.append(client.send_octets(q))
                got.append(client.recv_octets(timeout=1.0))
            client.close()
            link.finish()
        except Deadlock:
            sx.check(False, "handover:deadlock")
    finally:
        link.abort()
    for i, q in enumerate(requests):
        which = "first" if i == 0 else "later"
        sx.check(sent_ok[i] is True, "handover:send_octets-not-true:" + which)
        sx.check(len(server.seen) > i and server.seen[i] == q,
                 "handover:request-not-delivered-intact:" + which)
        sx.check(got[i] is not None and bytes(got[i]) == encode(responses[i]),
                 "handover:response-not-returned-intact:" + which)
    sx.check(len(server.seen) == len(requests),
             "handover:handler-calls-differ-from-requests")
    sx.reach("handover:exchanged")
    if len(link.sent['c']) > len(requests):
        sx.reach("handover:request-fragmented")
    if len(link.sent['s']) > len(requests):
        sx.reach("handover:response-fragmented")
    return [len(link.sent['c']), len(link.sent['s'])]


def handover_two_clients(sx, pads1, pads2, miu1, miu2, small_hi):
    """two clients with connections of different MIUs are served by the SAME
    HandoverServer object (one serve() thread each, as the server's accept
    loop starts them): client 1 exchanges a message, then client 2 connects
    and exchanges one, then client 1 sends its second request.  What serve()
    keeps per connection must not be shared between the threads."""
    m1 = choose_miu(sx, "miu1", miu1, small_hi)
    m2 = choose_miu(sx, "miu2", miu2, small_hi)
    adapter = NdefAdapter()
    nfc.handover.client.ndef = adapter
    nfc.handover.server.ndef = adapter
    links = [Link(m1, m1), Link(m2, m2)]
    req = [[encode(handover_message("Hr", a, 16 * i)) for i, (a, b) in enumerate(pads)]
           for pads in (pads1, pads2)]
    # the response is chosen by what the request asks for (pad of the
    # request), so that both clients can be told apart
    table = {}
    for k, pads in enumerate((pads1, pads2)):
        for i, (a, b) in enumerate(pads):
            table[req[k][i]] = handover_message("Hs", b, 16 * i + 7 + 100 * k)

    class Server(nfc.handover.server.HandoverServer):
        def __init__(self, llc):
            nfc.handover.server.HandoverServer.__init__(self, llc)
            self.seen = []

        def process_handover_request_message(self, records):
            q = encode(records)
            self.seen.append(q)
            return table[q]

    server = Server(FakeLLC(links[0], 's'))
    clients = []
    for link in links:
        listen = nfc.llcp.Socket(FakeLLC(link, 's'), nfc.llcp.DATA_LINK_CONNECTION)
        conn = listen.accept()
        link.start_server(lambda conn=conn: server.serve(conn))
        clients.append(nfc.handover.client.HandoverClient(FakeLLC(link, 'c')))
    got = {}
    order = [(0, 0), (1, 0), (0, 1), (1, 1)]
    try:
        try:
            connected = [False, False]
            for k, i in order:
                if i >= len(req[k]):
                    continue
                if not connected[k]:
                    clients[k].connect()
                    connected[k] = True
                ok = clients[k].send_octets(req[k][i])
                got[(k, i)] = (ok, clients[k].recv_octets(timeout=1.0))
            for k in (0, 1):
                clients[k].close()
                links[k].finish()
        except Deadlock:
            sx.check(False, "handover-two-clients:deadlock")
    finally:
        for link in links:
            link.abort()
    for (k, i), (ok, rsp) in sorted(got.items()):
        who = "client%d:%s" % (k + 1, "first" if i == 0 else "later")
        sx.check(ok is True, "handover-two-clients:send_octets-not-true:" + who)
        sx.check(rsp is not None and bytes(rsp) == encode(table[req[k][i]]),
                 "handover-two-clients:response-not-returned-intact:" + who)
    sx.check(sorted(server.seen) == sorted(q for r in req for q in r),
             "handover-two-clients:handler-calls-differ-from-requests")
    for k in (0, 1):
        for side in ('c', 's'):
            for m in links[k].sent[side]:
                sx.check(len(m) <= links[k].send_miu[side],
                         "handover-two-clients:fragment-exceeds-connection-miu")
    sx.reach("handover-two-clients:exchanged")
    if len(links[0].sent['s']) > len(req[0]):
        sx.reach("handover-two-clients:response-fragmented")
    return [len(l.sent['s']) for l in links]


def snep_two_clients(sx, n1, n2, miu1, miu2, small_hi):
    """two connections to the SAME SnepServer object, both in the middle of a
    fragmented PUT at the same time: client 1 (driven fragment by fragment)
    sends its first fragment and gets Continue, then client 2 (a SnepClient)
    puts a fragmented message of its own, then client 1 sends its remaining
    fragments.  What the server keeps while it reassembles a request belongs
    to one connection."""
    m1 = choose_miu(sx, "miu1", miu1, small_hi)
    m2 = choose_miu(sx, "miu2", miu2, small_hi)
    nfc.snep.server.ndef = NdefStub
    links = [Link(m1, m1), Link(m2, m2)]
    server = Server(FakeLLC(links[0], 's'), 0x100000, b"")
    for link in links:
        listen = nfc.llcp.Socket(FakeLLC(link, 's'), nfc.llcp.DATA_LINK_CONNECTION)
        listen.bind("urn:nfc:sn:snep")
        conn = listen.accept()
        link.start_server(lambda conn=conn: server._serve(conn))
    msg1 = sx.bytes("a", n1)
    msg2 = sx.bytes("b", n2)
    req1 = [0x10, 0x02, 0, 0, n1 >> 8, n1 & 0xFF] + list(msg1)
    m1c = sx.concrete(m1)
    frags = [sx.mkbytes(req1[i:i + m1c], False) for i in range(0, len(req1), m1c)]
    if len(frags) < 2:
        sx.assume(False, "request of client 1 fits one fragment")
    sock = nfc.llcp.Socket(FakeLLC(links[0], 'c'), nfc.llcp.DATA_LINK_CONNECTION)
    client2 = nfc.snep.client.SnepClient(FakeLLC(links[1], 'c'))
    first = last = r2 = None
    try:
        try:
            sock.connect("urn:nfc:sn:snep")
            sock.send(frags[0])
            first = sock.recv()
            r2 = client2.put_octets(msg2)
            for f in frags[1:]:
                sock.send(f)
            last = sock.recv()
            sock.close()
            for link in links:
                link.finish()
        except Deadlock:
            sx.check(False, "snep-two-clients:deadlock")
    finally:
        for link in links:
            link.abort()
    sx.check(first is not None and bytes(first) == b"\x10\x80\0\0\0\0", "snep-two-clients:no-continue-for-client1")
    sx.check(r2 is True, "snep-two-clients:put-of-client2-not-true")
    sx.check(last is not None and bytes(last) == b"\x10\x81\0\0\0\0", "snep-two-clients:no-success-for-client1")
    sx.check(len(server.seen) == 2, "snep-two-clients:handler-calls-differ-from-requests")
    if len(server.seen) == 2:
        sx.check(server.seen[0][0] == "put" and same(sx, server.seen[0][1], msg2),
                 "snep-two-clients:message-of-client2-not-delivered-intact")
        sx.check(server.seen[1][0] == "put" and same(sx, server.seen[1][1], msg1),
                 "snep-two-clients:message-of-client1-not-delivered-intact")
    sx.reach("snep-two-clients:both-mid-request")
    if len(links[1].sent['c']) > 1:
        sx.reach("snep-two-clients:client2-fragmented")
    return [len(l.sent['c']) for l in links]


# ----------------------------------------------------------------------------
# the small symbolic MIU stands for the real range only if the code treats
# the MIU as an opaque integer: checked on the syntax tree on every run
# ----------------------------------------------------------------------------
import ast
import os


def miu_uses(path, names):
    """-> list of (line, reason) for uses of the MIU variable other than
    comparison, slice bound, range() argument, plain assignment, passing it
    on as a call argument to send_request()"""
    with open(path) as f:
        tree = ast.parse(f.read(), path)
    parent = {}
    for node in ast.walk(tree):
        for child in ast.iter_child_nodes(node):
            parent[child] = node
    bad = []
    for node in ast.walk(tree):
        name = node.id if isinstance(node, ast.Name) else \
            node.attr if isinstance(node, ast.Attribute) else \
            node.arg if isinstance(node, ast.arg) else None
        if name not in names or isinstance(node, ast.arg):
            continue
        if isinstance(getattr(node, 'ctx', None), ast.Store):
            continue
        up = parent[node]
        if isinstance(up, ast.Attribute):       # self.send_miu: look at the attribute
            continue
        if isinstance(up, ast.BinOp) and isinstance(up.op, ast.Add) and \
                isinstance(parent[up], ast.Slice):
            continue                            # [offset:offset+miu]
        if isinstance(up, (ast.Compare, ast.Slice)):
            continue
        if isinstance(up, ast.Call) and isinstance(up.func, ast.Name) and \
                up.func.id in ("range", "send_request") and node in up.args:
            continue
        bad.append((node.lineno, type(up).__name__))
    return bad


def miu_opaque(sx):
    root = os.environ.get("NFC_SRC", "/repo/src")
    for rel in ("nfc/snep/client.py", "nfc/snep/server.py",
                "nfc/handover/client.py", "nfc/handover/server.py"):
        bad = miu_uses(os.path.join(root, rel), ("send_miu", "miu"))
        sx.check(not bad, "miu-not-opaque:" + rel)
    sx.reach("miu-opaque-checked")
    return "ok"


def chunks(xs, n):
    return [xs[i:i + n] for i in range(0, len(xs), n)]


def around(miu, kmax, lo=-14, hi=8):
    """message lengths whose SNEP header + octets cross a multiple of miu"""
    out = set()
    for k in range(1, kmax + 1):
        for d in range(lo, hi + 1):
            if k * miu + d >= 0:
                out.add(k * miu + d)
    return sorted(out)


def partitions(tier):
    parts = []
    quick = tier == "quick"
    hi = 12 if quick else 24
    top = 3 * hi + 7

    def put(name, lens_options, miu_c, miu_s, limit):
        parts.append(dict(name=name, fn="snep_put", params=dict(
            lens_options=lens_options, miu_c=miu_c, miu_s=miu_s, small_hi=hi,
            limit=limit)))

    def get(name, len_options, miu_c, miu_s, accept):
        parts.append(dict(name=name, fn="snep_get", params=dict(
            len_options=len_options, miu_c=miu_c, miu_s=miu_s, small_hi=hi,
            accept=accept)))
    every = list(range(0, top + 1))
    # ---- PUT, symbolic small MIU in both directions (the response is one
    # 6-byte message, so only the client->server MIU matters)
    for i, ns in enumerate(chunks(every, 4)):
        put("put:sym:%d" % i, [[n] for n in ns], "sym", "sym", "none")
    for i, ns in enumerate(chunks(every[::2] if quick else every, 4)):
        put("put-limit:sym:%d" % i, [[n] for n in ns], "sym", "sym", "sym")
    two = [[a, b] for a in (0, 1, 5, hi - 6, hi - 5, 2 * hi, top)
           for b in (0, 3, hi - 6, hi + 1, 2 * hi - 6)]
    for i, opts in enumerate(chunks(two, 4)):
        put("put-two:sym:%d" % i, opts, "sym", "sym", "none")
    for i, opts in enumerate(chunks(two[::2], 4)):
        put("put-two-limit:sym:%d" % i, opts, "sym", "sym", "sym")
    # ---- GET: response sweep (request in one fragment), request sweep
    # (response in one fragment), and a coarser grid with both fragmented
    for i, ns in enumerate(chunks(every, 4)):
        get("get-rsp:sym:%d" % i, [[3, n] for n in ns], "128", "sym", "none")
    for i, ns in enumerate(chunks(every[::2] if quick else every, 4)):
        get("get-rsp-limit:sym:%d" % i, [[0, n] for n in ns], "128", "sym", "sym")
    for i, ns in enumerate(chunks(every[:top - 3], 4)):
        get("get-req:sym:%d" % i, [[n, 5] for n in ns], "sym", "128", "none")
    for i, ns in enumerate(chunks(every[:top - 3:2 if quick else 1], 4)):
        get("get-req-limit:sym:%d" % i, [[n, 5] for n in ns], "sym", "128", "srv")
    ga = [0, hi - 10, hi - 9, 2 * hi - 10, 2 * hi] if quick else \
        [0, 1, hi - 11, hi - 10, hi - 9, 2 * hi - 10, 2 * hi - 9, 3 * hi - 9]
    gb = [0, hi - 7, hi - 6, hi - 5, 2 * hi - 6, 2 * hi - 5, top] if quick else \
        [0, 1, hi - 7, hi - 6, hi - 5, hi, 2 * hi - 7, 2 * hi - 6, 2 * hi - 5,
         3 * hi - 6, 3 * hi - 5, top]
    grid = [[a, b] for a in ga for b in gb]
    for i, opts in enumerate(chunks(grid, 3 if quick else 1)):
        get("get-grid:sym:%d" % i, opts, "sym", "sym", "none")
    for i, opts in enumerate(chunks(grid[::3], 3 if quick else 1)):
        get("get-grid-limit:sym:%d" % i, opts, "sym", "sym", "sym")
    # ---- real-range MIU values, lengths around multiples of the MIU
    for miu in (128, 129, 2175):
        kmax = (2 if quick else 4) if miu < 2000 else (1 if quick else 2)
        ns = around(miu, kmax)
        if quick:
            ns = ns[::3]
        for i, c in enumerate(chunks(ns, 4 if miu < 2000 else 2)):
            put("put:%d:%d" % (miu, i), [[n] for n in c], str(miu), "sym", "none")
        for i, c in enumerate(chunks(ns[::2], 4 if miu < 2000 else 2)):
            get("get:%d:%d" % (miu, i), [[7, n] for n in c], "sym", str(miu), "none")
    for i, c in enumerate(chunks(around(128, 2)[::4 if quick else 1], 4)):
        put("put-limit:128:%d" % i, [[n] for n in c], "128", "129", "sym")
        get("get-limit:128:%d" % i, [[n, n] for n in c], "129", "128", "sym")
    parts.append(dict(name="miu-opaque", fn="miu_opaque", params={}))
    # ---- handover: one request per connection, MIU symbolic / real range;
    # request 53+pad octets, response 46+pad octets
    def ho(name, options, miu_c, miu_s):
        parts.append(dict(name=name, fn="handover", params=dict(
            options=options, miu_c=miu_c, miu_s=miu_s, small_hi=hi)))
    pads = [0, 1, 2, 7, 19, 20, 21, 43] if quick else list(range(0, 48))
    for i, c in enumerate(chunks(pads, 2 if quick else 1)):
        ho("handover:sym:%d" % i, [[[a, (a * 7) % 23]] for a in c], "sym", "sym")
    big = [128 - 53 + d for d in (-1, 0, 1)] + [2 * 128 - 53 + d for d in (-1, 0, 1)]
    if not quick:
        big += [129 - 53 + d for d in (-1, 0, 1)] + [255 - 46, 256 - 46, 300]
    ho("handover:128", [[[a, a + 7]] for a in big], "128", "128")
    # a fragment boundary exactly on the boundary between two records of the
    # request (the first record of the request message is 23 octets long) and
    # of the response (first record 16 octets)
    ho("handover:record-boundary", [[[a, a + 3]] for a in (0, 4, 30)], "23", "16")
    ho("handover:129", [[[a, a + 6]] for a in big], "129", "128")
    ho("handover:2175", [[[2175 - 56, 2175 - 49]], [[2175 - 57, 2175 - 48]],
                         [[2 * 2175 - 56, 40]]], "2175", "2175")
    # two requests on one connection
    for nm, a, b in (("sym-sym", "sym", "sym"), ("128-1000", "128", "1000"), ("2175-128", "2175", "128")):
        parts.append(dict(name="handover-two-clients:" + nm, fn="handover_two_clients", params=dict(
            pads1=[[3, 40], [9, 200]] if a != "sym" else [[0, 20], [3, 30]],
            pads2=[[5, 60]] if a != "sym" else [[1, 25]],
            miu1=a, miu2=b, small_hi=24)))
    for nm, a, b, n1, n2 in (("sym-sym", "sym", "sym", 30, 33), ("128-128", "128", "128", 300, 310),
                             ("128-2175", "128", "2175", 400, 2300)):
        parts.append(dict(name="snep-two-clients:" + nm, fn="snep_two_clients", params=dict(
            n1=n1, n2=n2, miu1=a, miu2=b, small_hi=14)))
    ho("handover-two:sym", [[[0, 0], [1, 1]], [[5, 30], [20, 2]]], "sym", "sym")
    ho("handover-two:128", [[[0, 0], [1, 1]], [[100, 90], [20, 130]]], "128", "128")
    parts += c06_stack.partitions(tier)     # the same over the real LLCP stack
    return parts


MUST_REACH = ["snep-two-clients:both-mid-request", "snep-two-clients:client2-fragmented", "handover-two-clients:exchanged", "handover-two-clients:response-fragmented", "put:delivered", "put:fragmented", "put:refused", "get:returned",
              "get:excess-data", "get:refused", "get:response-fragmented",
              "get:request-fragmented", "handover:exchanged",
              "handover:request-fragmented", "handover:response-fragmented",
              "miu-opaque-checked"]
MUST_REACH = MUST_REACH + c06_stack.MUST_REACH
BOUNDS = {
    "quick": "SNEP over a reliable connection, all message octets symbolic: "
    "PUT of every length 0..43 with send-MIU symbolic 6..12 per direction "
    "(temporary and kept connection), server max_acceptable_length symbolic "
    "in length-2..length+2; two PUTs on one connection (35 length pairs); "
    "GET with response lengths 0..43 / request lengths 0..39 / a 5x7 grid "
    "with both directions fragmented, client acceptable length symbolic in "
    "length-2..length+2; MIU 128, 129 (lengths k*MIU-14..k*MIU+8, k<=2, every "
    "3rd) and 2175 (k=1).  Handover: concrete well-formed Hr/Hs messages "
    "(53+pad / 46+pad octets, 8 pads) with MIU symbolic 6..12, and around "
    "128/129/2175; two requests on one connection; two connections to one SnepServer, both mid-request (messages of 30/33 octets with symbolic MIUs 6..14, 300/310 with MIU 128, 400/2300 with MIUs 128/2175)",
    "thorough": "as quick with MIU symbolic 6..24, every length 0..79, an 8x12 "
    "GET grid, MIU 128/129 with k<=4 and 2175 with k<=2 at every length, "
    "handover pads 0..47",
}
OUTSIDE = [
    "'over the complete stack from connect() down to the radio frames': "
    "NFC-DEP (C04) and the driver layers are not composed here; the symbolic-"
    "MIU partitions run over the SockPair model, the stack:* partitions "
    "(harness/c06_stack.py) over two real LogicalLinkControllers with a "
    "lossless frame pump, for a selection of lengths and configurations",
    "socket window/RW, aggregation, initiator/target role: only in the "
    "stack:* partitions (RW 1, 2, 15; link MIU 128, 248, 2175)",
    "loss of the connection in the middle of a message (the SNEP server then "
    "hands the partial message to process_snep_request)",
    "NDEF encoding/decoding of the octets (ndeflib) for SNEP; handover message "
    "contents are concrete (enumeration of sizes, only the MIU is symbolic)",
    "MIU values 25..127 and 130..2174 other than through the opaque-integer "
    "argument (syntactic check 'miu-opaque' on every run)",
    "several SNEP clients served concurrently; more than two handover clients (two connections served by one HandoverServer object are interleaved at message granularity); the accept loop threads",
]
ASSUMPTIONS = [
    "env.sockpair: reliable, ordered, boundary-preserving data link connection "
    "with one send MIU per direction (EMSGSIZE beyond it), recv() None / "
    "poll() False after the peer closed; client and server stacks alternate "
    "strictly, a poll() time-out fires only when both sides wait",
    "ndef.message_decoder/message_encoder inside nfc.snep.server replaced by "
    "pass-through stubs (one record = the octets), in both modes",
    "handover modules get ndeflib through an adapter that converts the byte "
    "string to builtin bytes first",
    "server objects are constructed normally but their per-connection "
    "function (_serve / serve) is called directly instead of through the "
    "listen/accept thread",
]
BOUNDS = dict((t, BOUNDS[t] + ".  " + c06_stack.BOUNDS[t]) for t in BOUNDS)
OUTSIDE = OUTSIDE + c06_stack.OUTSIDE
ASSUMPTIONS = ASSUMPTIONS + c06_stack.ASSUMPTIONS
