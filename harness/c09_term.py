"""C09 - when the LLCP link ends no application thread is left waiting.

Real code executed: nfc.llcp.llc.LogicalLinkController (socket API methods,
terminate, run_as_initiator / run_as_target with their exception handling,
exchange, dispatch, collect, ServiceAccessPoint.*, ServiceDiscovery.*),
nfc.llcp.tco (all three socket classes), nfc.llcp.socket.Socket,
nfc.snep.server.SnepServer (__init__, _listen, _serve) and
nfc.handover.server.HandoverServer (__init__, listen, serve).

Environment: env.coop (CoopThreading): logical threads 'app' and 'link' in one
OS thread; the link thread is a script of steps, each one iteration of the
*real* run loop over a scripted MAC (or a direct llc.terminate() call), run to
completion at a symbolic preemption point of the application call.

Family link_preempted turns the roles around (env.coop.PreemptSched): the link
thread is preempted at one of its lock acquisitions (source lines of
terminate() in thorough) by one complete application call.

This is mostly schedule enumeration: what is symbolic is where the link thread
runs (flags preempt_<n>) / where the application call runs (flags lpre_<n>,
lres_<n>), the peer's receive window, the link MIU and payload octets.
"""
import os
import errno
import random
from env import coop
import nfc.clf
import nfc.dep
import nfc.llcp
import nfc.llcp.llc as llcmod
import nfc.llcp.tco as tco
import nfc.llcp.pdu as pdu
import nfc.snep.server
import nfc.handover.server
import ndef as real_ndef
from symx.runner import exc_label

TRACE_FILES = coop.install()

PROPERTY = "C09"
DONTWAIT = nfc.llcp.MSG_DONTWAIT
RAW, LDL, DLC = (llcmod.RAW_ACCESS_POINT, llcmod.LOGICAL_DATA_LINK,
                 llcmod.DATA_LINK_CONNECTION)
PEER = 33          # remote SAP of connections / datagrams


def reset(sx):
    coop.install()
    coop.new_sched(sx)
    for m in (nfc.snep.server, nfc.handover.server):
        m.ndef = NDEF


class NdefAdapter(object):
    """module attribute `ndef` of the two server modules: the real ndeflib,
    handed builtin bytes (message contents are concrete in this harness)"""

    def __getattr__(self, name):
        return getattr(real_ndef, name)

    def message_decoder(self, data, *args, **kwargs):
        return real_ndef.message_decoder(bytes(data), *args, **kwargs)


NDEF = NdefAdapter()


class LoopDied(coop.CoopSignal):
    """an exception other than the documented SystemExit (after IOError) /
    KeyboardInterrupt escaped run_as_initiator / run_as_target"""


MAC_ERRORS = {'timeout': nfc.clf.TimeoutError,
              'transmission': nfc.clf.TransmissionError,
              'protocol': nfc.clf.ProtocolError,
              'broken': nfc.clf.BrokenLinkError,
              'commerr': nfc.clf.CommunicationError}


class _Yield(BaseException):
    """leaves the run loop at the point where it would wait for the next
    frame from the peer (end of one link step)"""


# ----------------------------------------------------------------------------
# the world: one link controller, a scripted MAC, the link thread's steps
# ----------------------------------------------------------------------------
class World(object):
    def __init__(self, sx, role, sym_link_miu=False):
        self.sx = sx
        self.role = role
        L = llcmod.LogicalLinkController(sec=False, miu=248)
        L.cfg['send-miu'] = sx.int("link_miu", 128, 2175) if sym_link_miu \
            else 2175
        L.cfg['recv-lto'] = 100
        L.cfg['llcp-dpc'] = 0
        L.cfg['send-wks'] = 1
        cls = nfc.dep.Initiator if role == 'ini' else nfc.dep.Target
        mac = cls.__new__(cls)
        mac.exchange = self.mac_exchange
        mac.deactivate = self.mac_deactivate
        L.mac = mac
        L.link.ESTABLISHED = True
        self.L = L
        self.frames = []        # what the MAC hands to the run loop next
        self.nexch = 0
        self.deactivated = 0
        self.peer_rw = 1
        self.listener = None
        self.dying = False          # MAC deactivate() raises IOError(ENODEV)
        self.link_died = []         # IOError that left terminate()/run loop

    # ---- MAC below the run loop
    def mac_exchange(self, send_data, timeout):
        self.nexch += 1
        if not self.frames:
            raise _Yield()
        f = self.frames.pop(0)
        if f == 'ioerror':
            raise IOError(errno.EIO, "scripted input/output error")
        if isinstance(f, str) and f in MAC_ERRORS:
            raise MAC_ERRORS[f]("scripted")
        return f

    def mac_deactivate(self, *args, **kwargs):
        self.deactivated += 1
        if self.dying:
            # the driver is gone: nfc.dep's deactivate() absorbs
            # CommunicationError but not the IOError of a lost device
            raise IOError(errno.ENODEV, "scripted: device gone")

    def loop(self, frames, local=False):
        """run the real run loop until it asks for a frame beyond `frames`"""
        L = self.L
        self.frames = list(frames)
        run = L.run_as_initiator if self.role == 'ini' else L.run_as_target
        try:
            run(terminate=lambda: local)
        except _Yield:
            pass
        except SystemExit:
            pass        # what the run loop raises after an IOError
        except IOError as e:
            if not (self.dying and e.errno == errno.ENODEV):
                raise LoopDied(type(e).__name__)
            # the scripted IOError of the dying driver came back through
            # terminate(): the thread that called llc.run() gets it (C18)
            self.link_died.append("run")
        except Exception as e:
            raise LoopDied(type(e).__name__)

    def direct_terminate(self):
        try:
            self.L.terminate(reason="harness")
        except IOError as e:
            if not (self.dying and e.errno == errno.ENODEV):
                raise
            self.link_died.append("terminate")

    # ---- link steps
    def step(self, name, sock):
        """-> callable for step `name`; connection level frames address sock"""
        addr = sock.addr if sock is not None and sock.addr is not None else 40
        peer = sock.peer if sock is not None and sock.peer is not None else PEER
        if name == 'terminate':
            return self.direct_terminate
        if name == 'loop:local':
            return lambda: self.loop([b"\x00\x00"], local=True)
        if name == 'loop:local+ioerror':
            # local terminate request, and the driver fails at the DISC
            # exchange of terminate() itself (reader unplugged at that moment)
            return lambda: self.loop(['ioerror', 'ioerror', 'ioerror'], local=True)
        if name == 'loop:disrupt':
            return lambda: self.loop([None])
        if name.startswith('loop:') and name[5:] in MAC_ERRORS:
            return lambda: self.loop([name[5:]])
        if name == 'loop:ioerror':
            return lambda: self.loop(['ioerror'])
        if name == 'loop:remote':
            return lambda: self.loop([b"\x01\x40"])
        if name == 'loop:symm':
            return lambda: self.loop([b"\x00\x00"])
        if name == 'conn:disc':
            p = pdu.Disconnect(addr, peer)
        elif name == 'conn:dm':
            p = pdu.DisconnectedMode(addr, peer, 0)
        elif name == 'conn:frmr':
            p = pdu.FrameReject(addr, peer, 8, 12, 0, 0, 0, 0, 0, 0)
        elif name == 'conn:badseq':
            p = pdu.Information(addr, peer, 7, 0, b"zz")
        elif name == 'conn:ui':
            p = pdu.UnnumberedInformation(addr, peer, b"uu")
        elif name == 'conn:i':
            ns = sock.recv_cnt if isinstance(sock, tco.DataLinkConnection) else 0
            late = getattr(self, 'late', None)
            p = pdu.Information(addr, peer, ns, 0, late if late is not None
                                else self.sx.bytes("late", 2))
        elif name == 'conn:connect':
            p = pdu.Connect(addr, PEER + 1, 128, 1)
        elif name == 'conn:cc':
            p = pdu.ConnectionComplete(addr, 20, 128, self.peer_rw)
        elif name == 'conn:snl':
            p = pdu.ServiceNameLookup(1, 1, sdres=[(0, 21)])
        else:
            raise ValueError(name)
        frame = pdu.encode(p)
        return lambda: self.loop([frame])

    # ---- scenario set-up (logical thread 'setup')
    def setup(self, state):
        sx, L = self.sx, self.L
        kind, st = state.split(':')
        if kind == 'sd':
            if st == 'pending':
                try:
                    L.resolve(b"urn:nfc:sn:x")
                except coop.SetupBlock:
                    pass
            return None
        s = L.socket({'raw': RAW, 'ldl': LDL, 'dlc': DLC}[kind])
        if st == 'unbound':
            return s
        if kind == 'dlc' and st.split('+')[0] in ('est', 'closewait',
                                                  'disconnecting'):
            self.peer_rw = sx.int("peer_rw", 0, 15)
            ls = s
            L.bind(ls, b"urn:nfc:sn:c09")
            L.listen(ls, 1)
            L.dispatch(pdu.Connect(ls.addr, PEER, 128, self.peer_rw))
            s = L.accept(ls)
            L.collect()                 # CC leaves
            self.listener = ls
            if st == 'est+data':
                L.dispatch(pdu.Information(s.addr, PEER, 0, 0,
                                           sx.bytes("rx", 2)))
            elif st == 'est+sent':
                try:
                    L.send(s, sx.bytes("tx0", 2), DONTWAIT)
                except nfc.llcp.Error:
                    pass                # RW(R) == 0
                L.collect()             # I PDU leaves, unacknowledged
            elif st == 'est+queued':
                try:
                    L.send(s, sx.bytes("tx0", 2), DONTWAIT)
                except nfc.llcp.Error:
                    pass                # RW(R) == 0
            elif st == 'closewait':
                L.dispatch(pdu.Disconnect(s.addr, PEER))
                L.collect()             # DM leaves, DISC queued for recv()
            elif st == 'disconnecting':
                try:
                    L.close(s)          # a thread sleeping in close()
                except coop.SetupBlock:
                    pass
            return s
        if kind == 'dlc' and st == 'connecting':
            try:
                L.connect(s, 20)        # a thread sleeping in connect()
            except coop.SetupBlock:
                pass
            return s
        L.bind(s, 40)
        if st == 'bound':
            pass
        elif st == 'data':
            L.dispatch(pdu.UnnumberedInformation(40, PEER, sx.bytes("rx", 2)))
        elif st == 'connected':
            L.connect(s, PEER)
        elif st == 'queued':
            L.sendto(s, self.message(s, "tx0"), PEER, DONTWAIT)
        elif st == 'listen':
            L.listen(s, 1)
        elif st == 'listen+conn':
            L.listen(s, 1)
            L.dispatch(pdu.Connect(40, PEER, 128, 1))
        elif st == 'closed':
            L.close(s)
        else:
            raise ValueError(state)
        return s

    def crowd(self):
        """several service access points at once (family link_preempted):
        -> {name: socket}"""
        sx, L = self.sx, self.L
        self.peer_rw = sx.int("peer_rw", 0, 15)
        lis = L.socket(DLC)
        L.bind(lis, b"urn:nfc:sn:c09")              # address 16
        L.listen(lis, 2)
        L.dispatch(pdu.Connect(lis.addr, PEER, 128, self.peer_rw))
        est = L.accept(lis)
        L.collect()                                 # CC leaves
        L.dispatch(pdu.Connect(lis.addr, PEER + 1, 128, 1))     # pending
        self.listener = lis
        ldl = L.socket(LDL)
        L.bind(ldl, 40)
        raw = L.socket(RAW)
        L.bind(raw, 41)
        return dict(lis=lis, est=est, ldl=ldl, raw=raw, new=L.socket(DLC),
                    newldl=L.socket(LDL), newraw=L.socket(RAW))

    def poison(self, kind):
        """an outbound PDU that can not be encoded waits to be collected"""
        L = self.L
        long_name = b"urn:nfc:sn:" + b"x" * 250
        if kind == 'resolve':           # a thread sleeping in resolve()
            try:
                L.resolve(long_name)
            except coop.SetupBlock:
                pass
        elif kind == 'connect':         # a thread sleeping in connect()
            s = L.socket(DLC)
            try:
                L.connect(s, long_name)
            except coop.SetupBlock:
                pass
        elif kind == 'raw':             # raw access point, invalid header
            s = L.socket(RAW)
            L.bind(s, 41)
            L.send(s, pdu.UnnumberedInformation(70, 41, b"x"), DONTWAIT)
        else:
            raise ValueError(kind)

    # ---- application calls
    def message(self, s, tag):
        if isinstance(s, tco.RawAccessPoint):
            return pdu.UnnumberedInformation(PEER, 40, self.sx.bytes(tag, 2))
        return self.sx.bytes(tag, 2)

    def call(self, name, s, tag):
        L = self.L
        if name == 'send':
            return L.send(s, self.message(s, tag), 0)
        if name == 'send_nb':
            return L.send(s, self.message(s, tag), DONTWAIT)
        if name == 'sendto':
            return L.sendto(s, self.message(s, tag), PEER, 0)
        if name == 'recv':
            return L.recv(s)
        if name == 'recvfrom':
            return L.recvfrom(s)
        if name == 'accept':
            return L.accept(s)
        if name == 'connect':
            return L.connect(s, 20)
        if name == 'connect_sn':
            return L.connect(s, b"urn:nfc:sn:peer")
        if name == 'listen':
            return L.listen(s, 1)
        if name == 'bind':
            return L.bind(s)
        if name == 'getsockopt':
            return L.getsockopt(s, nfc.llcp.SO_SNDMIU)
        if name == 'setsockopt':
            return L.setsockopt(s, nfc.llcp.SO_RCVBUF, 2)
        if name == 'resolve':
            return L.resolve(b"urn:nfc:sn:x")
        if name == 'resolve_str':
            return L.resolve("urn:nfc:sn:y")
        if name == 'poll_recv':
            return L.poll(s, "recv")
        if name == 'poll_send':
            return L.poll(s, "send")
        if name == 'poll_acks':
            return L.poll(s, "acks")
        if name == 'poll_recv_t':
            return L.poll(s, "recv", 0.5)
        if name == 'poll_send_t':
            return L.poll(s, "send", 0.5)
        if name == 'poll_acks_t':
            return L.poll(s, "acks", 0.5)
        if name == 'close':
            return L.close(s)
        if name == 'getsockname':
            return [L.getsockname(s), L.getpeername(s)]
        if name == 'socket':
            return L.socket(DLC)
        if name == 'bind_addr':
            return L.bind(s, 42)
        if name == 'bind_name':
            return L.bind(s, b"urn:nfc:sn:new")
        raise ValueError(name)


CALLS = {
    'raw': ['send', 'send_nb', 'sendto', 'recv', 'recvfrom', 'bind',
            'getsockopt', 'setsockopt', 'poll_recv', 'poll_send', 'poll_acks',
            'poll_recv_t', 'poll_send_t', 'close'],
    'ldl': ['send', 'send_nb', 'sendto', 'recv', 'recvfrom', 'connect', 'bind',
            'getsockopt', 'setsockopt', 'poll_recv', 'poll_send', 'poll_acks',
            'poll_recv_t', 'poll_send_t', 'close'],
    'dlc': ['send', 'send_nb', 'recv', 'recvfrom', 'accept', 'connect',
            'connect_sn', 'listen', 'bind', 'getsockopt', 'setsockopt',
            'poll_recv', 'poll_send', 'poll_acks', 'poll_recv_t',
            'poll_send_t', 'poll_acks_t', 'close', 'getsockname'],
    'sd': ['resolve', 'resolve_str'],
}
# calls issued after the link has ended (in this order)
LATER = {
    'raw': ['getsockopt', 'poll_recv', 'poll_send', 'recv', 'recvfrom',
            'resolve', 'send', 'bind', 'recv', 'poll_recv', 'sendto', 'close',
            'recv', 'send', 'poll_recv', 'close'],
    'ldl': ['getsockopt', 'poll_recv', 'poll_send', 'recv', 'recvfrom',
            'connect', 'resolve', 'send', 'bind', 'recvfrom', 'poll_recv',
            'sendto', 'close', 'recvfrom', 'sendto', 'poll_recv', 'close'],
    'dlc': ['getsockopt', 'poll_recv', 'poll_send', 'poll_acks', 'recv',
            'recvfrom', 'send', 'accept', 'listen', 'connect', 'resolve',
            'bind', 'recv', 'poll_recv', 'poll_acks', 'send', 'accept',
            'close', 'recv', 'send', 'poll_recv', 'poll_acks', 'accept',
            'connect', 'close'],
    'sd': ['resolve', 'resolve_str'],
}


def describe(r):
    if r is None or isinstance(r, (bool, str)):
        return r
    if isinstance(r, tco.TransmissionControlObject):
        return "socket"
    if isinstance(r, (list, tuple)):
        return [describe(x) for x in r]
    return r


LOCK_NAMES = {"LogicalLinkController.__init__": "llc.lock",
              "TransmissionControlObject.__init__": "socket.lock"}


def lock_name(k):
    return "none" if k is None else LOCK_NAMES.get(k.made, k.made)


def deadlock_text(e):
    """app-holds=<lock the link needs>+wants=<lock>:link-holds=..+needs=.."""
    return "app-holds=%s+%s:link-holds=%s+needs=%s@%s" % (
        lock_name(e.held),
        "sleeps" if e.wanted is None else "wants=" + lock_name(e.wanted),
        ",".join(sorted(set(lock_name(k) for k in e.link_holds))) or "none",
        lock_name(e.held), e.site)


def window(S):
    """where the last link step ran relative to the application call"""
    if not S.ran:
        return "-"
    n, k, site, i = S.ran[-1]
    if k == 'call':
        return "before-call"
    if k == 'after':
        return "after-call"
    return "%s:%s" % (k, site)


def run_app(S, fn, what, failures=None):
    """run fn() as the application thread.  -> outcome list.  A verdict of
    the scheduler or an exception the property does not allow is appended to
    `failures` (label) - or returned as ['fail', label] when failures is None."""
    label = None
    try:
        r = S.app_call(fn)
        return ['ret', describe(r)]
    except nfc.llcp.Error as e:
        return ['err', errno.errorcode.get(e.errno, str(e.errno))]
    except coop.LeftWaiting as e:
        label = "left-waiting:%s:%s" % (what, e.site)
    except coop.LinkBlocked as e:
        label = "link-thread-blocked:%s:%s" % (S.ran[-1][0], e.site)
    except coop.CoopDeadlock as e:
        label = "deadlock:%s:%s" % (what, deadlock_text(e))
    except coop.Unrepresentable:
        S.sx.assume(False, "C09: schedules in which a link step has to wait "
                    "for a lock the application thread owns without a cycle "
                    "(the application thread would go on first) are not "
                    "explored - link steps are atomic")
    except coop.Livelock as e:
        label = "livelock:%s:%s" % (what, e.args[0])
    except LoopDied as e:
        label = "run-loop-raises:%s:%s" % (e.args[0], S.ran[-1][0])
    except Exception as e:
        label = "raises:%s:%s" % (what, exc_label(e)[len("uncaught:"):])
    if failures is None:
        return ['fail', label]
    failures.append(label)
    return ['fail', label]


def report(sx, failures):
    """every collected failure is reported by a path of its own; one more
    path goes on (its outcome, with the failures in it, is replayed natively
    like that of any other path)"""
    if failures:
        uniq = [None]
        for f in failures:
            if f not in uniq:
                uniq.append(f)
        label = sx.pick("report", uniq)
        if label is not None:
            sx.check(False, label)


def fail(sx, S, label):
    """the application call under test did not end as the property demands"""
    if label.startswith("link-thread-blocked"):
        sx.reach("link-thread-blocked")
        sx.check(False, label)
    if label.startswith("run-loop-raises"):
        sx.check(False, label)
    sx.reach("left-waiting" if label.startswith("left-waiting") else "failed")
    sx.check(False, "%s:%s" % (label, window(S)))


def link_rest(sx, S):
    """the link thread finishes its script while no application call runs"""
    try:
        S.finish()
    except coop.LinkBlocked as e:
        sx.check(False, "link-thread-blocked:%s:%s" % (S.ran[-1][0], e.site))
    except LoopDied as e:
        sx.check(False, "run-loop-raises:%s:%s" % (e.args[0], S.ran[-1][0]))


def reach_points(sx, S, what):
    for n, k, site, i in S.ran:
        sx.reach("pre:%s:%s" % (what, k))
    if S.waits:
        sx.reach("waited:%s" % what)


# ----------------------------------------------------------------------------
# one application call against the ending link
# ----------------------------------------------------------------------------
def pick_script(sx, scripts):
    """scripts: [[role, [step, ...]], ...] -> role, steps"""
    role, steps = sx.pick("script", scripts)
    return role, list(steps)


def call_vs_link(sx, state, scripts, fine=0, poison=None, dying=0):
    """poison: an un-encodable outbound PDU is queued ('resolve' / 'connect'
    / 'raw'), so that the next run-loop iteration fails inside exchange().
    dying: the driver is gone when the link ends - the MAC's deactivate(),
    called by terminate(), raises IOError(ENODEV)"""
    S = coop.SCHED
    S.fine = bool(fine)
    S.trace_files = TRACE_FILES
    kind = state.split(':')[0]
    role, script = pick_script(sx, scripts)
    w = World(sx, role, sym_link_miu=(kind != 'dlc' and not poison))
    sock = w.setup(state)
    if poison:
        w.poison(poison)
        sx.reach("poisoned:" + poison)
    call = sx.pick("call", CALLS[kind])
    what = "%s/%s" % (state, call)
    mark = ""
    if dying:
        w.dying = True
        what += ":deactivate-raises"
        mark = ":deactivate-raises"
        sx.reach("dying-driver")
    S.steps = [(n, w.step(n, sock)) for n in script]
    got = []

    def first():
        S.point('call', what)
        r = w.call(call, sock, "m0")
        got.append(r)
        return r
    res = run_app(S, first, what)
    reach_points(sx, S, "%s.%s" % (kind, call))
    if res[0] == 'fail':
        fail(sx, S, res[1])
    sx.reach("call:%s.%s" % (kind, call))
    if S.waits and S.ran and res[0] in ('ret', 'err'):
        sx.reach("woken-by-link-end")
    link_rest(sx, S)
    sx.check(w.L.link.SHUTDOWN, "link-not-shut-down-after-script" + mark)
    # every later call returns or raises Error without waiting
    failures = []
    later = []
    for i, c in enumerate(LATER[kind]):
        r = run_app(S, lambda: w.call(c, sock, "l%d" % i),
                    "later:%s/%s%s" % (state, c, mark), failures)
        later.append([c] + r)
    # ... also on a connection that accept() returned while the link ended
    if got and isinstance(got[0], tco.DataLinkConnection):
        sx.reach("accepted-while-link-ended" if S.ran and
                 S.ran[-1][1] != 'after' else "accepted-before-link-ended")
        for i, c in enumerate(['getsockopt', 'poll_recv', 'recv', 'send',
                               'poll_acks', 'close', 'send', 'close']):
            r = run_app(S, lambda: w.call(c, got[0], "a%d" % i),
                        "later:accepted/%s%s" % (c, mark), failures)
            later.append(["accepted." + c] + r)
    report(sx, [f + ":after-link-end" for f in failures])
    sx.reach("later-calls-done")
    return dict(script=script, role=role, call=call, first=res, ran=S.ran,
                npoints=S.npoints, waits=S.waits, later=later)


# ----------------------------------------------------------------------------
# service thread bodies
# ----------------------------------------------------------------------------
SNEP_PUT = b"\xd0\x00\x00"          # one empty NDEF record


def _ho_request():
    r = real_ndef.HandoverRequestRecord('1.3', 0x1234)
    r.add_alternative_carrier('active', 'c1')
    c = real_ndef.Record('application/octet-stream', 'c1', b"0123456789")
    return b"".join(real_ndef.message_encoder([r, c]))


HO_REQUEST = _ho_request()


def service(sx, server, body, queued, scripts, fine=0, dying=0):
    S = coop.SCHED
    S.fine = bool(fine)
    S.trace_files = TRACE_FILES
    role, script = pick_script(sx, scripts)
    w = World(sx, role)
    w.dying = bool(dying)
    w.late = None if server == 'snep' else HO_REQUEST[:7]
    L = w.L
    if server == 'snep':
        srv = nfc.snep.server.SnepServer(L)
        listen_body, serve_body = srv._listen, srv._serve
    else:
        srv = nfc.handover.server.HandoverServer(L)
        listen_body = lambda sock: srv.listen(L, sock)
        serve_body = srv.serve
    lsock = srv._coop_args[-1]                  # the nfc.llcp.Socket
    what = "%s.%s" % (server, body) + \
        (":deactivate-raises" if dying else "")
    if body == 'listen':
        for i in range(queued):
            L.dispatch(pdu.Connect(lsock._tco.addr, PEER + i, 128, 1))
        sock, fn = lsock._tco, (lambda: listen_body(lsock))
    else:
        L.dispatch(pdu.Connect(lsock._tco.addr, PEER, 128,
                               sx.int("peer_rw", 0, 15)))
        csock = lsock.accept()
        L.collect()
        sock = csock._tco
        for i in range(queued):
            if server == 'snep':
                hdr = [sx.byte("ver%d" % i), 2, 0, 0, 0, sx.byte("len%d" % i)]
                data = sx.mkbytes(hdr + list(SNEP_PUT), False)
            else:
                data = HO_REQUEST[:20] if i == 0 and queued > 1 else \
                    (HO_REQUEST[20:] if queued > 1 else HO_REQUEST)
            L.dispatch(pdu.Information(sock.addr, PEER, i, 0, data))
        fn = lambda: serve_body(csock)
    S.steps = [(n, w.step(n, sock)) for n in script]

    def first():
        S.point('call', what)
        return fn()
    res = run_app(S, first, what)
    reach_points(sx, S, what)
    if res[0] == 'fail':
        fail(sx, S, res[1])
    sx.check(res == ['ret', None], "service-body-ends-abnormally:" + what)
    sx.reach("service:%s.%s" % (server, body))
    link_rest(sx, S)
    sx.check(L.link.SHUTDOWN, "link-not-shut-down-after-script" +
             (":deactivate-raises" if dying else ""))
    # threads the body started run (as further application threads) after
    # the link has ended and must return too
    failures = []
    spawned = []
    for i, t in enumerate(list(S.spawned)):
        r = run_app(S, t.run, "spawned:%s.serve" % server, failures)
        spawned.append(r)
        sx.reach("spawned-thread-ran")
    report(sx, [f + ":after-link-end" for f in failures])
    return dict(script=script, role=role, first=res, ran=S.ran,
                npoints=S.npoints, waits=S.waits, spawned=spawned)


# ----------------------------------------------------------------------------
# several application threads blocked in the same kind of call
# ----------------------------------------------------------------------------
WAITERS = {     # kind -> (state, call)
    'resolve': ('sd:fresh', None),
    'accept': ('dlc:listen', 'accept'),
    'recv:raw': ('raw:bound', 'recv'),
    'recv:ldl': ('ldl:bound', 'recvfrom'),
    'recv:dlc': ('dlc:est', 'recv'),
    'send:dlc': ('dlc:est', 'send'),
    'send:raw': ('raw:bound', 'send'),
    'poll_recv:dlc': ('dlc:est', 'poll_recv'),
    'poll_acks:dlc': ('dlc:est', 'poll_acks'),
}


def waiters_vs_link(sx, kind, n, scripts):
    """n application threads (env.coop.ThreadSched: OS threads, one running at
    a time, descheduled only where they block) sleep in the same kind of call;
    then the link thread runs its script; the threads that were notified run
    in every order.  None may be left waiting."""
    state, call = WAITERS[kind]
    S = coop.new_threaded(sx)
    try:
        return _waiters_vs_link(sx, S, kind, state, call, n, scripts)
    finally:
        S.current = 'setup'
        S.shutdown()
        coop.new_sched(sx)


def _waiters_vs_link(sx, S, kind, state, call, n, scripts):
    role, script = pick_script(sx, scripts)
    w = World(sx, role, sym_link_miu=False)
    sock = w.setup(state)
    what = "multi:%s" % kind
    names = ["T%d" % (i + 1) for i in range(n)]

    def body(i):
        if call is None:
            return lambda: w.L.resolve(("urn:nfc:sn:x%d" % i).encode("ascii"))
        return lambda: w.call(call, sock, "t%d" % i)
    for i, name in enumerate(names):
        S.spawn(name, body(i))
    steps = [(nm, w.step(nm, sock)) for nm in script]
    S.current = 'link'
    # the threads go to sleep, in each rotation of the order
    k = sx.pick("first", list(range(n)))
    for name in names[k:] + names[:k]:
        S.run(name)
    if len(S.parked()) == n:
        sx.reach("multi:all-asleep:" + kind)
    sched = []
    ran = []

    def let_run():
        while True:
            ready = S.runnable()
            if not ready:
                return
            if len(ready) > 1:
                sx.reach("multi:several-woken")
            name = sx.pick("sched%d" % len(sched), ready)
            sched.append(name)
            S.run(name)
    for nm, fn in steps:
        ran.append(nm)
        try:
            fn()
        except coop.LinkBlocked as e:
            sx.check(False, "link-thread-blocked:%s:%s" % (nm, e.site))
        except LoopDied as e:
            sx.check(False, "run-loop-raises:%s:%s" % (e.args[0], nm))
        let_run()
    sx.check(w.L.link.SHUTDOWN, "link-not-shut-down-after-script")
    left = S.parked()
    if left:
        sx.reach("left-waiting")
        sx.check(False, "left-waiting:%s:%s:%d-of-%d-threads" % (
            what, S.threads[left[0]].site, len(left), n))
    out = []
    for name in names:
        rec = S.threads[name]
        e = rec.exc
        if e is None:
            out.append(['ret', describe(rec.result)])
        elif isinstance(e, nfc.llcp.Error):
            out.append(['err', errno.errorcode.get(e.errno, str(e.errno))])
        elif isinstance(e, coop.CoopSignal):
            sx.check(False, "%s:%s:%s" % (type(e).__name__, what, e.args[0]))
        else:
            sx.check(False, "raises:%s:%s" % (
                what, exc_label(e)[len("uncaught:"):]))
    sx.reach("multi:all-returned:" + kind)
    return dict(script=script, role=role, sched=sched, out=out,
                waits=len(S.waits))


# ----------------------------------------------------------------------------
# the link thread is preempted by one application call
# ----------------------------------------------------------------------------
LP_CALLS = {
    '-': ['socket', 'resolve'],
    'new': ['bind', 'bind_addr', 'bind_name', 'listen', 'connect',
            'connect_sn', 'close', 'getsockopt'],
    'newldl': ['sendto', 'bind', 'connect'],
    'newraw': ['send_nb', 'bind_addr'],
    'lis': ['accept', 'close', 'poll_recv', 'getsockopt'],
    'est': ['send', 'send_nb', 'recv', 'poll_recv', 'poll_send', 'poll_acks',
            'poll_recv_t', 'close', 'getsockopt'],
    'ldl': ['sendto', 'recvfrom', 'poll_recv', 'close', 'connect'],
    'raw': ['send', 'recv', 'poll_recv', 'close', 'bind_addr'],
}
# functions of the terminator whose every source line is a preemption point
# of the link thread (lines=1): the loop over the service access points and
# the loop over the sockets of one of them; inside the sockets' close() the
# lock acquisitions are the preemption points
LP_LINES = ("LogicalLinkController.terminate", "ServiceAccessPoint.shutdown",
            "ServiceDiscovery.shutdown")


def sock_kind(s):
    if isinstance(s, tco.RawAccessPoint):
        return 'raw'
    if isinstance(s, tco.LogicalDataLink):
        return 'ldl'
    return 'dlc'


def link_preempted(sx, scripts, calls, lines=0, resume=0, dying=0,
                   collapse=0):
    """The link thread (main OS thread) runs its script - the last step ends
    the link - and is preempted at ONE of its preemption points (every lock
    acquisition; with lines=1 also every source line of terminate() and the
    shutdown()/close() methods it calls) by ONE application call, which runs
    in a thread of its own until it ends or blocks (in Condition.wait(), or
    at a lock the link thread owns).  A call that waits for a lock goes on
    when the link thread has released it (there, or after the step); one
    that sleeps in wait() goes on after the step in which it was notified
    (resume=1: also at any later preemption point of the link thread).
    A source line is a preemption point once for each state of the table of
    service access points, the link state, the sockets' address / state /
    queue lengths and lock counts in which the link thread meets it (the
    loop of terminate() over the 64 addresses passes the same two lines with
    nothing changed for every free address).
    collapse=1: of several re-acquisitions in a row of a lock the link thread
    owns, at the same call site with no other preemption point in between,
    only the first is a preemption point."""
    S = coop.new_preempt(sx)
    try:
        return _link_preempted(sx, S, scripts, calls, lines, resume, dying,
                               collapse)
    finally:
        S.link_hook = None
        S.current = 'setup'
        S.shutdown()
        coop.new_sched(sx)


def _link_preempted(sx, S, scripts, calls, lines, resume, dying, collapse):
    S.trace_files = TRACE_FILES
    if lines:
        S.link_lines = LP_LINES
    role, script = pick_script(sx, scripts)
    w = World(sx, role)
    L = w.L
    socks = w.crowd()
    sname, call = sx.pick("call", calls)
    sock = socks.get(sname)
    appcall = "%s.%s" % (sname, call)
    mark = ""
    if dying:
        w.dying = True
        mark = ":deactivate-raises"
        sx.reach("lp:dying-driver")
    got = []

    def body():
        r = w.call(call, sock, "m0")
        got.append(r)
        return r
    rec = S.spawn('T1', body)
    steps = [(n, w.step(n, socks['est'])) for n in script]
    st = dict(n=0, at=None, step=None, seen={}, nres=0, resumed=[],
              facts=[], last=None, lines=set())
    nsaps = len([x for x in L.sap if x is not None])

    def fingerprint():
        return (tuple(i for i in range(64) if L.sap[i] is not None),
                L.lock.count, L.link.value,
                tuple((x.addr, x.state.value, len(x.recv_queue),
                       len(x.send_queue), x.lock.count)
                      for n, x in sorted(socks.items())))

    def hook(kind, site, lock):
        if st['at'] is None:
            if kind == 'release':
                return
            if kind == 'line':
                # the loop of terminate() over 64 addresses: a line met
                # again with the table and the sockets as they were then
                key = (site, lock, fingerprint())
                lock = None
                if key in st['lines']:
                    return
                st['lines'].add(key)
            k = st['seen'][site] = st['seen'].get(site, 0) + 1
            last, st['last'] = st['last'], (kind, site)
            if collapse and kind == 'reacquire' and last == (kind, site):
                return      # e.g. ServiceAccessPoint.mode in a sort key
            st['n'] += 1
            if sx.flag("lpre_%d" % st['n']):
                st['at'] = "%s@%s:%s#%d" % (st['step'], kind, site, k)
                sx.reach("lp:at:%s:%s:%s" % (st['step'], kind, site))
                left = len([x for x in L.sap if x is not None])
                if L.lock.owner == 'link':
                    st['facts'].append("link-holds-llc.lock")
                if 0 < left < nsaps:
                    st['facts'].append("table-partly-empty")
                if lock is not None and lock is not L.lock and \
                        L.lock.owner == 'link':
                    st['facts'].append("link-wants-socket.lock")
                S.run('T1')
                st['facts'].append("app:" + rec.state)
                if sock is not None and sname.startswith("new") and \
                        sock.addr is not None:
                    st['facts'].append("bound-during-preemption")
            return
        # the application call has begun and is descheduled: may it go on?
        if rec.state == 'done' or not S.can_go_on('T1'):
            return
        if resume or (kind == 'release' and rec.state == 'lockwait' and
                      lock is rec.wants):
            st['nres'] += 1
            if sx.flag("lres_%d" % st['nres']):
                st['resumed'].append("%s@%s:%s" % (st['step'], kind, site))
                S.run('T1')

    def let_run():
        for i in range(16):
            if rec.state != 'done' and rec.state != 'new' and \
                    S.can_go_on('T1'):
                S.run('T1')
            else:
                return

    def where():
        return "link-preempted:%s/%s%s" % (st['at'] or "-", appcall, mark)
    S.link_hook = hook
    for nm, fn in steps:
        st['step'], st['seen'], st['last'] = nm, {}, None
        try:
            S.link_call(fn)
        except coop.LinkBlocked as e:
            sx.check(False, "link-thread-blocked:%s:%s" % (where(), e.site))
        except LoopDied as e:
            sx.check(False, "run-loop-raises:%s:%s" % (e.args[0], where()))
        except coop.CoopDeadlock as e:
            sx.reach("failed")
            sx.check(False, "deadlock:%s:%s" % (where(), deadlock_text(e)))
        except coop.Unrepresentable:
            sx.assume(False, "C09 link_preempted: schedules in which the "
                      "link thread has to wait for a lock owned by an "
                      "application thread that can go on are not explored")
        let_run()
    S.link_hook = None
    sx.check(L.link.SHUTDOWN, "link-not-shut-down-after-script" + mark)
    if rec.state == 'new':
        # no preemption: the call is made after the link has ended
        st['at'] = "after"
        sx.reach("lp:not-preempted")
        S.run('T1')
    if rec.state == 'parked' and rec.timed and not rec.cell[0]:
        S.run('T1', timeout=True)       # wait(timeout) times out
        let_run()
    what = where()
    for f in st['facts']:
        sx.reach("lp:" + f)
    if S.lockwaits:
        sx.reach("lp:app-waited-for-lock")
    if st['resumed']:
        sx.reach("lp:app-resumed-inside-link-step")
    if rec.state == 'parked':
        sx.reach("left-waiting")
        sx.check(False, "left-waiting:%s:%s" % (what, rec.site))
    if rec.state != 'done':
        raise RuntimeError("coop: T1 is %s after the script" % rec.state)
    e = rec.exc
    if e is None:
        res = ['ret', describe(rec.result)]
    elif isinstance(e, nfc.llcp.Error):
        res = ['err', errno.errorcode.get(e.errno, str(e.errno))]
    elif isinstance(e, coop.CoopSignal):
        sx.reach("failed")
        sx.check(False, "%s:%s:%s" % (type(e).__name__, what, e.args[0]))
    else:
        sx.reach("failed")
        sx.check(False, "raises:%s:%s" % (
            what, exc_label(e)[len("uncaught:"):]))
    sx.reach("lp:call:" + appcall)
    if S.waits and st['at'] != "after":
        sx.reach("lp:app-slept-and-was-woken")
    # every later call on every socket that exists returns or raises Error
    # without waiting
    everything = sorted(socks.items())
    if got and isinstance(got[0], tco.TransmissionControlObject):
        if st['at'] != "after":
            sx.reach("lp:accepted-during-preemption" if call == 'accept'
                     else "lp:socket-created-during-preemption")
        everything.append(("accepted" if call == 'accept' else "created",
                           got[0]))
    failures = []
    later = []
    for nm, s in everything:
        for i, c in enumerate(LATER[sock_kind(s)]):
            r = run_app(S, lambda: w.call(c, s, "l%s%d" % (nm, i)),
                        "later:%s:%s.%s" % (what, nm, c), failures)
            later.append(["%s.%s" % (nm, c)] + r)
    report(sx, [f + ":after-link-end" for f in failures])
    sx.reach("lp:later-calls-done")
    return dict(script=script, role=role, call=appcall, at=st['at'],
                first=res, npoints=st['n'], facts=st['facts'],
                lockwaits=S.lockwaits, resumed=st['resumed'],
                waits=S.waits, later=later)


# ----------------------------------------------------------------------------
STATES = ['raw:unbound', 'raw:bound', 'raw:data', 'raw:closed',
          'ldl:unbound', 'ldl:bound', 'ldl:connected', 'ldl:data', 'ldl:closed',
          'dlc:unbound', 'dlc:bound', 'dlc:listen', 'dlc:listen+conn',
          'dlc:connecting', 'dlc:est', 'dlc:est+data', 'dlc:est+sent',
          'dlc:est+queued', 'dlc:closewait', 'dlc:disconnecting', 'dlc:closed',
          'raw:queued', 'ldl:queued', 'sd:fresh', 'sd:pending']
ENDS = ['terminate', 'loop:local', 'loop:disrupt', 'loop:remote',
        'loop:ioerror', 'loop:timeout', 'loop:transmission', 'loop:protocol',
        'loop:broken', 'loop:commerr',
        'loop:local+ioerror']
# (the ends of the link-preempted family and of the random scripts: as before)
ENDS_LP = [e for e in ENDS if e != 'loop:local+ioerror']
POISONS = ['resolve', 'connect', 'raw']
# events of the conversation that precede the end of the link (second
# preemption); all are delivered by an iteration of the real run loop
CONN_EVENTS = {
    'dlc:listen': ['conn:connect', 'conn:disc'],
    'dlc:listen+conn': ['conn:connect'],
    'dlc:connecting': ['conn:cc', 'conn:dm'],
    'dlc:est': ['conn:disc', 'conn:dm', 'conn:frmr', 'conn:badseq', 'conn:i',
                'conn:ui'],
    'dlc:est+data': ['conn:disc', 'conn:frmr'],
    'dlc:est+sent': ['conn:disc', 'conn:frmr', 'conn:badseq'],
    'dlc:est+queued': ['conn:disc', 'loop:symm'],
    'raw:queued': ['loop:symm'],
    'dlc:closewait': ['conn:dm'],
    'dlc:disconnecting': ['conn:dm', 'conn:disc'],
    'raw:bound': ['conn:disc', 'conn:ui'],
    'ldl:bound': ['conn:ui', 'conn:disc'],
    'sd:fresh': ['loop:symm'],
    'sd:pending': ['loop:symm'],
}


# family link_preempted: terminators of the quick tier, conversation events
# that precede the terminator in thorough (the step that delivers the event
# is preemptible too)
LP_ENDS = ['terminate', 'loop:local', 'loop:remote', 'loop:disrupt']
LP_EVENTS = ['conn:connect', 'conn:disc', 'conn:dm', 'conn:i', 'loop:symm']


def default_role(e):
    return 'ini' if e in ('terminate', 'loop:local', 'loop:local+ioerror') else 'tgt'


def partitions(tier):
    parts = []

    def add(fn, name, **kw):
        parts.append(dict(name="%s:%s" % (fn, name), fn=fn, params=kw))
    quick = tier == "quick"
    for st in STATES:
        if quick:
            scripts = [[default_role(e), [e]] for e in ENDS[:6]]
            scripts += [['ini', ['loop:local+ioerror']]]
            scripts += [['tgt', [ev, 'loop:disrupt']]
                        for ev in CONN_EVENTS.get(st, [])]
            add("call_vs_link", st, state=st, scripts=scripts)
            # the link loop dies from inside: un-encodable outbound PDU
            k = STATES.index(st)
            add("call_vs_link", "%s:poison" % st, state=st,
                poison=POISONS[k % 3],
                scripts=[['ini' if k % 2 else 'tgt', ['loop:symm']]])
        else:
            for role in ('ini', 'tgt'):
                scripts = [[role, [e]] for e in ENDS]
                add("call_vs_link", "%s:%s:1" % (st, role), state=st,
                    scripts=scripts)
                scripts = [[role, [ev, e]] for ev in CONN_EVENTS.get(st, [])
                           for e in ENDS[:4]]
                if scripts:
                    add("call_vs_link", "%s:%s:2" % (st, role), state=st,
                        scripts=scripts)
            for pk in POISONS:
                add("call_vs_link", "%s:poison:%s" % (st, pk), state=st,
                    poison=pk, scripts=[['ini', ['loop:symm']],
                                        ['tgt', ['loop:symm']]])
            # line granularity
            add("call_vs_link", "%s:fine" % st, state=st, fine=1,
                scripts=[['ini', ['terminate']], ['tgt', ['loop:remote']]])
    # the driver is gone when the link ends (deactivate() raises IOError)
    DYING = ['raw:bound', 'dlc:listen', 'dlc:est', 'sd:fresh']
    for st in (DYING if quick else STATES):
        ends = ENDS[:5] if quick else ENDS
        roles = [None] if quick else ['ini', 'tgt']
        for role in roles:
            add("call_vs_link", "%s:dying%s" % (st, ":" + role if role else ""),
                state=st, dying=1,
                scripts=[[role or default_role(e), [e]] for e in ends])
    for server in ('snep', 'handover'):
        add("service", "%s:listen:0:dying" % server, server=server,
            body='listen', queued=0, dying=1,
            scripts=[[default_role(e), [e]] for e in ENDS[:5]])
        add("service", "%s:serve:0:dying" % server, server=server,
            body='serve', queued=0, dying=1,
            scripts=[[default_role(e), [e]] for e in ENDS[:5]])
    # the link thread is preempted by one application call
    for grp in sorted(LP_CALLS):
        calls = [[grp, c] for c in LP_CALLS[grp]]
        if quick:
            for e in LP_ENDS:
                add("link_preempted", "%s:%s" % (e, grp), calls=calls,
                    collapse=1, scripts=[[default_role(e), [e]]])
        else:
            # the initiator's run loop begins with collect(): many more
            # preemption points than the terminator itself has
            for e in ENDS_LP:
                roles = ('ini', 'tgt') if e in LP_ENDS else ('tgt',)
                add("link_preempted", "%s:%s" % (e, grp), calls=calls,
                    scripts=[[role, [e]] for role in roles])
            add("link_preempted", "lines:%s" % grp, calls=calls, lines=1,
                scripts=[['ini', ['terminate']]])
            add("link_preempted", "resume:%s" % grp, calls=calls, resume=1,
                collapse=1,
                scripts=[['ini', ['terminate']], ['tgt', ['loop:disrupt']],
                         ['ini', ['loop:local']]])
            add("link_preempted", "event:%s" % grp, calls=calls, collapse=1,
                scripts=[['tgt', [ev, 'loop:disrupt']] for ev in LP_EVENTS])
            add("link_preempted", "dying:%s" % grp, calls=calls, dying=1,
                scripts=[['tgt' if e != 'terminate' else 'ini', [e]]
                         for e in ENDS[:5]])
    for kind in sorted(WAITERS):
        if quick:
            add("waiters_vs_link", "%s:2" % kind, kind=kind, n=2,
                scripts=[[default_role(e), [e]] for e in ENDS[:5]])
        else:
            for n in (2, 3):
                add("waiters_vs_link", "%s:%d" % (kind, n), kind=kind, n=n,
                    scripts=[[role, [e]] for role in ('ini', 'tgt')
                             for e in ENDS] +
                    [['tgt', [ev, 'loop:disrupt']]
                     for ev in CONN_EVENTS.get(WAITERS[kind][0], [])
                     if ev != 'conn:ui'])
    for server in ('snep', 'handover'):
        ends = ENDS[:5] if quick else ENDS
        one = [[default_role(e), [e]] for e in ends]
        for q in (0, 1):
            add("service", "%s:listen:%d" % (server, q), server=server,
                body='listen', queued=q, scripts=one)
        add("service", "%s:listen:0+connect" % server, server=server,
            body='listen', queued=0,
            scripts=[[r, ['conn:connect'] + e] for r, e in one])
        for q in (0, 1, 2):
            add("service", "%s:serve:%d" % (server, q), server=server,
                body='serve', queued=q, scripts=one)
        add("service", "%s:serve:0+i" % server, server=server, body='serve',
            queued=0, scripts=[[r, ['conn:i'] + e] for r, e in one])
        add("service", "%s:serve:1+disc" % server, server=server, body='serve',
            queued=1, scripts=[[r, ['conn:disc'] + e] for r, e in one])
        if not quick:
            for body, q in (('listen', 1), ('serve', 1), ('serve', 2)):
                add("service", "%s:%s:%d:fine" % (server, body, q),
                    server=server, body=body, queued=q, fine=1,
                    scripts=[['tgt', ['loop:disrupt']], ['ini', ['terminate']]])
    if not quick:
        # beyond the systematic bound: VERIF_SEED-chosen scripts of three and
        # four link steps (two or three events of the conversation, then the
        # end of the link) = up to four preemptions
        rng = random.Random("c09/%s" % os.environ.get("VERIF_SEED", "0"))
        for st in sorted(CONN_EVENTS):
            evs = sorted(set(CONN_EVENTS[st] + ['loop:symm']))
            scripts = []
            for k in range(6):
                n = rng.choice([2, 2, 3])
                sc = [rng.choice(evs) for j in range(n)] + [rng.choice(ENDS_LP)]
                if 'conn:ui' in sc[:-1] and st.startswith('dlc:est'):
                    continue        # the link thread never gets past it
                ent = [rng.choice(['ini', 'tgt']), sc]
                if ent not in scripts:
                    scripts.append(ent)
            if scripts:
                add("call_vs_link", "%s:random" % st, state=st,
                    scripts=scripts)
    return parts


WAITING = ['raw.recv', 'raw.recvfrom', 'raw.send', 'raw.sendto', 'raw.poll_recv',
           'raw.poll_send', 'ldl.recv', 'ldl.recvfrom', 'ldl.send', 'ldl.sendto',
           'ldl.poll_recv', 'ldl.poll_send', 'dlc.send', 'dlc.recv',
           'dlc.recvfrom', 'dlc.accept', 'dlc.connect', 'dlc.connect_sn',
           'dlc.close', 'dlc.poll_recv', 'dlc.poll_send', 'dlc.poll_acks',
           'sd.resolve', 'sd.resolve_str', 'snep.listen', 'snep.serve',
           'handover.listen', 'handover.serve']
LOCKING = WAITING + ['raw.bind', 'raw.close', 'raw.setsockopt', 'raw.send_nb',
                     'ldl.bind', 'ldl.close', 'ldl.connect', 'ldl.send_nb',
                     'dlc.bind', 'dlc.listen', 'dlc.setsockopt', 'dlc.send_nb']
_MUST = ["later-calls-done", "spawned-thread-ran", "woken-by-link-end",
         "poisoned:resolve", "poisoned:connect", "poisoned:raw",
         "dying-driver", "accepted-before-link-ended",
         "multi:several-woken"] + \
    ["multi:all-asleep:" + k for k in sorted(WAITERS)] + \
    ["multi:all-returned:" + k for k in sorted(WAITERS)] + \
    ["service:%s.%s" % (a, b) for a in ("snep", "handover")
     for b in ("listen", "serve")] + \
    ["call:%s.%s" % (k, c) for k in sorted(CALLS) for c in CALLS[k]] + \
    ["pre:%s:call" % c for c in LOCKING] + \
    ["pre:%s:acquire" % c for c in LOCKING] + \
    ["pre:%s:wait" % c for c in WAITING] + \
    ["pre:%s:twait" % c for c in ('raw.poll_recv_t', 'ldl.poll_recv_t',
                                  'dlc.poll_recv_t', 'dlc.poll_acks_t')]
# family link_preempted: the application call ran at a preemption point of
# the link thread inside terminate() (the link thread owned llc.lock, had
# emptied part of the table of service access points, was about to take a
# socket's lock), waited for a lock of the link thread and went on when it
# was released, slept in wait() and was woken by the rest of terminate(),
# bound / created / accepted a socket at that point; all later calls made
LP_SITES = ["acquire:LogicalLinkController.terminate",
            "acquire:TransmissionControlObject.close",
            "acquire:DataLinkConnection.close",
            "reacquire:TransmissionControlObject.close",
            "reacquire:ServiceDiscovery.shutdown"]
_MUST_LP = ["lp:later-calls-done", "lp:not-preempted",
            "lp:link-holds-llc.lock", "lp:link-wants-socket.lock",
            "lp:table-partly-empty", "lp:app:done", "lp:app:lockwait",
            "lp:app:parked", "lp:app-waited-for-lock",
            "lp:app-resumed-inside-link-step", "lp:app-slept-and-was-woken",
            "lp:accepted-during-preemption", "lp:bound-during-preemption",
            "lp:socket-created-during-preemption",
            "lp:at:loop:local:acquire:LogicalLinkController.collect",
            "lp:at:loop:local:acquire:TransmissionControlObject.dequeue",
            "lp:at:loop:local:acquire:DataLinkConnection.dequeue"] + \
    ["lp:at:%s:%s" % (e, p) for e in LP_ENDS for p in LP_SITES] + \
    ["lp:call:%s.%s" % (g, c) for g in sorted(LP_CALLS) for c in LP_CALLS[g]]
MUST_REACH = {
    "quick": _MUST + _MUST_LP,
    "thorough": _MUST + ["pre:%s:line" % c for c in LOCKING] +
    ["pre:dlc.getsockopt:line", "pre:dlc.getsockname:line"] + _MUST_LP +
    ["lp:at:%s:%s" % (e, p) for e in ENDS_LP for p in LP_SITES] +
    ["lp:at:terminate:line:%s" % f for f in LP_LINES] +
    ["lp:dying-driver",
     "lp:at:conn:connect:acquire:LogicalLinkController.dispatch",
     "lp:at:conn:connect:reacquire:ServiceAccessPoint.enqueue",
     "lp:at:conn:i:acquire:TransmissionControlObject.enqueue",
     "lp:at:conn:disc:acquire:DataLinkConnection._enqueue_state_established",
     "lp:at:loop:symm:acquire:LogicalLinkController.collect"],
}
BOUNDS = {
    "quick": "schedule enumeration, not data: 2 logical threads (one application call, the link thread). Application call: each of send (blocking and MSG_DONTWAIT), sendto, recv, recvfrom, accept, connect (by address and by name), listen, bind, getsockopt, setsockopt, getsockname/getpeername, resolve (bytes and str), poll('recv'/'send'/'acks') without and with time-out, close - on a socket of each suitable kind in each of 25 states reached by <= 5 real set-up operations (raw/ldl: unbound, bound, datagram queued for recv, PDU queued for sending, connected, closed; dlc: unbound, bound, listening with empty / filled backlog, a thread sleeping in connect(), established (passive open through the real listen/dispatch/accept), established with data queued, with an unacknowledged / a not yet collected I PDU (send window full when RW(R)=1), CLOSE_WAIT, a thread sleeping in close(), closed; service discovery fresh / request pending). Link thread: one step that ends the link out of {llc.terminate() called directly, run loop ended by the terminate callback (local choice), MAC exchange returns None (link disruption), DISC received (remote choice), IOError in the MAC (input/output error + SystemExit), nfc.clf.TimeoutError in the MAC, the terminate callback with IOError at the DISC exchange of terminate() itself} each run through the real run_as_initiator/run_as_target over a scripted MAC, optionally preceded by one event of the conversation delivered by one real run-loop iteration (DISC, DM, FRMR, I with wrong N(S), valid I, UI, CONNECT, CC for the socket under test, SYMM) = 2 preemptions. Preemption points: before the call, every lock acquisition while the application thread holds no lock, every acquisition of a further lock while it holds one (a link step that then needs the held lock while owning the wanted one = lock-order deadlock), inside every Condition.wait(), after every wake-up; all enumerated. After the link ended 16-25 further calls on the same socket. Service bodies SnepServer._listen/_serve and HandoverServer.listen/serve with 0-2 queued connection requests / request fragments, link ended at every preemption point, threads they start run afterwards. Dying driver: for 4 socket states (thorough: all) and the four server bodies each link-ending step with a MAC whose deactivate() raises IOError(ENODEV) inside terminate(). Connections returned by accept() while the link ended are exercised by 8 further calls. The link loop dying from inside: for every state one run-loop iteration whose outbound PDU can not be encoded (a thread sleeping in resolve() of a 261-octet name, in connect() to a 261-octet service name, or a raw access point that queued a PDU with DSAP 70; link MIU 2175) - exchange() must absorb the EncodeError and the loop end the link; an exception other than SystemExit/KeyboardInterrupt leaving run_as_initiator/run_as_target is the violation run-loop-raises. Several waiters: 2 application threads (real call stacks, one running at a time) asleep in the same kind of call - resolve() of different names, accept() on one listening socket, recv()/recvfrom() on one raw / logical-data-link / connection socket, blocking send() on one connection / raw socket, poll('recv'), poll('acks') - in each rotation of the order they went to sleep, then each link-ending step, the woken threads run in every order; none may stay asleep. Symbolic: where the link thread runs (flags), RW announced by the peer 0..15 (send window open/full), link MIU 128..2175 for connection-less sockets, payload octets, SNEP header version/length octets. Link thread preempted (family link_preempted): one link controller with service access points 0, 1, 16 (connection socket bound by name, listening, one accepted ESTABLISHED connection and one pending CONNECT), 40 (logical data link socket), 41 (raw access point) and three unbound sockets (connection, logical data link, raw). The link thread runs one terminator out of {llc.terminate() called directly, run loop of the initiator ended by the terminate callback (collect() runs first), DISC for the link received by the target, link disruption at the target} and is preempted at ONE of its preemption points - every acquisition of a lock by the link thread (llc.lock, each socket's lock; also re-acquisitions of a lock it owns, several in a row at one call site counted once), all enumerated: before terminate() takes llc.lock, before each socket's close() in ServiceAccessPoint.shutdown() (the socket is unbound, not yet closed; llc.lock held; part of the table already emptied), inside the sockets' close(), in ServiceDiscovery.shutdown(), and in the initiator's collect() - by ONE application call out of 38: socket(), resolve(); on the unbound connection socket bind() auto / by address / by name, listen(), connect() by address and by name, close(), getsockopt(); on the unbound logical data link socket sendto(), bind(), connect(); on the unbound raw socket send(MSG_DONTWAIT), bind(address); on the listening socket accept(), close(), poll('recv'), getsockopt(); on the established connection send() blocking and MSG_DONTWAIT, recv(), poll('recv'/'send'/'acks'), poll('recv', 0.5), close(), getsockopt(); on the logical data link socket sendto(), recvfrom(), poll('recv'), close(), connect(); on the raw socket send(), recv(), poll('recv'), close(), bind(). The call runs until it ends or blocks; one that needs a lock the link thread owns waits and goes on when the link thread has released it (there, or after the link step - both), one that sleeps in wait() goes on after the link step if it was notified, a wait with time-out times out after the link step. Then: the call has ended with a return value or nfc.llcp.Error, and the 16-25 later calls are made on each of the 7 sockets and on a socket the call created or accepted",
    "thorough": "as quick with every nfc.clf.CommunicationError subclass (TimeoutError, TransmissionError, ProtocolError, BrokenLinkError, CommunicationError itself) raised by the MAC, all three un-encodable PDUs in every state and both roles, 2 and 3 sleeping threads per kind of call (all terminators, both roles, also after a conversation event), both roles (initiator/target run loop) x all 6 link-ending steps (adds NFC-DEP time-out in exchange) alone and after every listed conversation event (all 2-step scripts), VERIF_SEED-chosen scripts of 3-4 link steps (up to 4 preemptions) for 14 states, and for every state and call a second enumeration at source-line granularity: a preemption point before every line of nfc.llcp.llc/tco/socket and the two server modules that the application thread executes while it holds no lock (terminators: llc.terminate(), remote DISC); family link_preempted with all 10 link-ending steps at the target and the 4 of quick also at the initiator, every re-acquisition a preemption point of its own, the dying driver (5 steps), a conversation event (CONNECT, DISC, DM, I for the established connection, SYMM) delivered by a preemptible run-loop iteration of its own before link disruption (dispatch()/enqueue() and collect() preempted), the application call resumed at any later preemption point of the link thread once it was notified / the lock it waits for is free (llc.terminate(), link disruption, local choice at the initiator), and - llc.terminate() - a preemption point before every source line of LogicalLinkController.terminate, ServiceAccessPoint.shutdown and ServiceDiscovery.shutdown, i.e. between the iterations of the loop over the service access points and of the loop over the sockets of one of them (a line is a point once per state of table/sockets in which it is met)",
}
OUTSIDE = ["more than one *running* application thread (two calls racing on one socket, a second thread calling close() on a socket another thread waits on); several threads are covered only asleep in the same kind of call when the link ends, descheduled nowhere but in Condition.wait()",
           "schedules in which a link step has to wait for a lock the application thread owns without a lock-order cycle (pruned, listed as assumption when it occurs; it does not occur on the unchanged tree: the application side never nests two different locks)",
           "preemption of the link thread beyond family link_preempted: everywhere else a link step (one run-loop iteration, terminate()) is atomic. In link_preempted ONE application call runs at ONE preemption point of the link thread, until it ends or blocks; not explored: two or more application calls inside one link step, an application call that is itself preempted by the link thread before it blocks, preemption of the link thread between two source lines that take no lock (thorough: except inside terminate()/ServiceAccessPoint.shutdown()/ServiceDiscovery.shutdown()), e.g. in the middle of dispatch()/collect()/a socket's close(); a wait(timeout) of the application call that times out while the link step still runs; socket states other than the 7 of that family's world; server bodies (SNEP/handover) as the preempting call",
           "more than 2 link steps in quick / more than 4 in thorough; preemption inside a line (bytecode granularity) and, in quick, anywhere but lock acquisitions and waits",
           "real OS scheduling, real timing of Condition.wait(timeout), fairness", "LLCP security (DPS exchange, encryption errors ending the run loop)",
           "the return of clf.connect()/llc.run to its caller (C18) and the NFC-DEP deactivation inside terminate() (MAC is a stub)",
           "application callbacks of the servers (process_put_request ...) blocking on their own"]
ASSUMPTIONS = ["env.coop ThreadSched (several waiters): application threads are OS threads in strict alternation with the harness's main thread (link thread + scheduler); Condition.notify(n) wakes the first n waiters in FIFO order as threading.Condition does",
               "env.coop CoopThreading: RLock/Lock/Condition/Thread of the module attribute `threading` of nfc.llcp.tco, nfc.llcp.llc, nfc.snep.server, nfc.handover.server are replaced in both modes; logical threads in one OS thread; a link step runs to completion at a preemption point of the application thread; Condition.wait() without time-out forces the next link step (nothing else can wake the caller) and is 'left waiting for ever' when the script is exhausted and no notify on that condition happened since the wait began; wait(timeout) returns False after the virtual time-out unless a flag lets a link step run; notify wakes the single waiter; no spurious wake-ups",
               "env.coop PreemptSched (family link_preempted): the link thread is the harness's main OS thread, the application call an OS thread of its own, exactly one of them running at a time; the baton changes hands at the chosen preemption point of the link thread (flag lpre_<n> at every lock acquisition / traced source line), where the application thread blocks in Condition.wait() or at a lock the other thread owns (it is runnable again when that lock is free; no fairness: the link thread may take the lock again first), at the release of that lock (flag lres_<n>) and after each link step; notify marks the waiter woken, no spurious wake-ups; the link thread needing a lock that a descheduled application thread owns is a deadlock when that thread can not go on, otherwise the path is pruned (listed as assumption when it occurs; neither occurs on the unchanged tree)",
               "a link step that reaches Condition.wait() without time-out is reported as 'link thread blocked' (only an application thread could wake it; with one application call under test none does)",
               "MAC below the run loop: instance of nfc.dep.Initiator/Target created without __init__, exchange() scripted (frame, None, IOError, nfc.clf.TimeoutError), deactivate() no-op; one link step = the real run loop left (BaseException) where it asks for the frame after the scripted one - a PDU collected for that exchange is dropped",
               "sockets in ESTABLISHED state come from the real passive open (listen, dispatch CONNECT, accept); 'a thread sleeping in connect()/close()/resolve()' = the call made by the set-up thread and abandoned at its wait()",
               "random.choice in ServiceDiscovery.resolve returns the first element; virtual clock (symx.envpatch)",
               "ndef inside the two server modules: real ndeflib on concrete octets (adapter converts to bytes); threads started by a server body are recorded and run as application threads after the link has ended"]
LIMITS = {"quick": dict(max_time=200), "thorough": dict(max_time=1200)}
