"""C15 - the frontend never lets two threads drive the device at once.

What is established: every call into the device driver that the frontend makes,
on every path through every public entry point explored for C18 (open, close,
__exit__/with, sense, listen, exchange in both directions, the two size
properties, connect() with rdwr/llcp/card options incl. the presence check,
LED/buzzer and callback phases, NFC-DEP/LLCP activation and run loops), happens
while `clf.lock` is held and on the device that is installed in `clf.device`
at that moment.  The obligation sits in the hook of env.recdevice.RecDevice,
i.e. at the entry of every driver method; the scenarios are the ones of
harness/c18_connect.py with the contract checks switched off.

Vacuity guard: the syntax tree of nfc/clf/__init__.py (from NFC_SRC) is
scanned for `self.device.<name>(...)` call sites, bare `self.device.<name>`
loads (the two exchange methods are called through a local variable) and
`device.connect(...)`; each site is a must-reach label, and a driver call that
arrives from a line the scan did not identify is itself reported.
"""
import os
import ast

from harness import c18_connect as C

PROPERTY = "C15"


def nfc_src():
    return os.environ.get("NFC_SRC", "/repo/src")


def scan_sites():
    """-> (direct, indirect): direct = [(name, first line, last line)] of
    calls self.device.<name>(...) and device.connect(...); indirect = names
    loaded from self.device without being called in place."""
    path = os.path.join(nfc_src(), "nfc", "clf", "__init__.py")
    with open(path, "rb") as f:
        tree = ast.parse(f.read(), path)

    def is_self_device(n):
        return isinstance(n, ast.Attribute) and n.attr == "device" and \
            isinstance(n.value, ast.Name) and n.value.id == "self"
    direct, called, loads = [], set(), []
    for n in ast.walk(tree):
        if isinstance(n, ast.Call) and isinstance(n.func, ast.Attribute):
            if is_self_device(n.func.value):
                direct.append((n.func.attr, n.lineno, n.end_lineno))
                called.add(id(n.func))
            elif isinstance(n.func.value, ast.Name) and \
                    n.func.value.id == "device" and n.func.attr == "connect":
                direct.append(("connect", n.lineno, n.end_lineno))
    for n in ast.walk(tree):
        if isinstance(n, ast.Attribute) and is_self_device(n.value) and \
                id(n) not in called:
            loads.append(n.attr)
    return sorted(direct), sorted(set(loads))


DIRECT, INDIRECT = scan_sites()


def site_label(method, line):
    for name, lo, hi in DIRECT:
        if name == method and lo <= line <= hi:
            return "site:%s:%d" % (name, lo)
    if method in INDIRECT:
        return "site:%s:indirect" % method
    return None


bad_clf = [None, "?"]


def reset(sx):
    bad_clf[:] = [None, "?"]


def make_hook(sx, log, bad):
    """the obligation at the entry of every driver method.  A failed
    obligation is noted and the run continues, so that the driver calls
    behind an unlocked one are examined as well; run() reports every distinct
    failure of the path (one forked copy of the path per label)."""
    def hook(dev, method, locked, current, fn, line):
        entry = getattr(dev, "entry", "?")
        bad_clf[:] = [dev.clf, entry]
        log.append([method, entry, fn, bool(locked), bool(current)])
        where = "%s@%s/%s" % (method, entry, fn)
        site = site_label(method, line)
        labels = []
        if site is None:
            labels.append("driver-call-from-unscanned-site:" + where)
        else:
            sx.reach(site)
        if not locked:
            labels.append("driver-call-without-lock:" + where)
        if not current:
            labels.append("driver-call-on-device-not-installed:" + where)
        sx.check(not labels, "(noted; reported at the end of the path)") \
            if not labels else None
        for l in labels:
            if l not in bad:
                bad.append(l)
    return hook


def run(sx, scn, **params):
    log, bad = [], []
    getattr(C, scn)(sx, mode="lock", hook=make_hook(sx, log, bad), **params)
    sx.reach("entry:" + scn)
    clf, entry = bad_clf
    if clf is not None and clf.lock.deadlocks:
        bad.append("lock-acquired-while-held:" + entry)
    if clf is not None and clf.lock.locked():
        # nobody is inside the frontend any more: a lock that is still held
        # blocks every other thread for ever
        bad.append("lock-left-held-after:" + entry)
    else:
        sx.check(True, "lock released")
    if bad:
        sx.check(False, bad[sx.pick("report", list(range(len(bad))))])
    return log


def connect_scn(sx, **params):
    return run(sx, "connect_scn", **params)


def sense_scn(sx, **params):
    return run(sx, "sense_scn", **params)


def sense_tta_response_scn(sx, **params):
    return run(sx, "sense_tta_response_scn", **params)


def listen_scn(sx, **params):
    return run(sx, "listen_scn", **params)


def stale_scn(sx, **params):
    return run(sx, "stale_scn", **params)


def lifecycle_scn(sx, **params):
    return run(sx, "lifecycle_scn", **params)


def partitions(tier):
    parts = []
    for name, params in C.connect_partitions(tier):
        parts.append(dict(name="connect:" + name, fn="connect_scn",
                          params=params))
        if name in ("rdwr:t2:connect", "card:reader:connect",
                    "llcp:peer-init:connect", "llcp:peer-target:connect"):
            # the same through a frontend that was built by the real open()
            p = dict(params)
            p['via_open'] = True
            parts.append(dict(name="connect:" + name + ":via-open",
                              fn="connect_scn", params=p))
    for name, fn, params in C.sense_partitions(tier):
        parts.append(dict(name=name, fn=fn, params=params))
    return parts


MUST_REACH = ["site:%s:%d" % (n, lo) for n, lo, hi in DIRECT] + \
    ["site:%s:indirect" % n for n in INDIRECT] + \
    ["entry:" + s for s in ("connect_scn", "sense_scn", "listen_scn",
                            "stale_scn", "lifecycle_scn")]

BOUNDS = {
    "quick": "every driver call on every path of the C18 scenarios (quick "
             "bounds of harness/c18_connect.py: connect() with all option "
             "subsets, callback results, terminate polls, tag/reader/peer/"
             "fault scripts; sense/listen/exchange/stale-target/open/close/"
             "size scenarios) plus connect() on a frontend built by the real "
             "open(); per driver call: clf.lock.locked() and clf.device is "
             "the called driver (for device.connect(): no driver installed); "
             "per scenario: lock released at the end, never acquired while "
             "held; per syntactic call site of nfc/clf/__init__.py: reached",
    "thorough": "as quick with the thorough bounds of harness/c18_connect.py",
}
OUTSIDE = [
    "the lock implementation itself and real multi-thread schedules: the claim is 'lock held and device current at every driver call site/path', from which mutual exclusion follows by the lock's contract",
    "drivers used directly by an application, and attribute reads of the driver in ContactlessFrontend.__str__ (vendor_name/product_name/path, no device I/O)",
    "what a real driver does inside device.connect()/close() (transport open/close) - only that the frontend calls them under the lock",
    "paths outside the C18 bounds (tag types other than a generic Type 2 Tag, LLCP traffic beyond SYMM/DISC)",
]
ASSUMPTIONS = [
    "single harness thread: clf.lock.locked() at the entry of a driver method means held by the calling thread",
    "clf.lock is env.recdevice.GuardLock wrapping a threading.Lock (same semantics; raises instead of blocking on self-deadlock)",
    "nfc.clf.device.connect is replaced by a stub that hands out the RecDevice (recorded as driver call 'connect')",
    "scenarios, environment scripts and fault model of harness/c18_connect.py / env/recdevice.py",
]
