"""C15 - the frontend never lets two threads drive the device at once.

What is established: every call into the device driver that the frontend makes,
on every path through every public entry point explored for C18 (open, close,
__exit__/with, sense, listen, exchange in both directions, the two size
properties, connect() with rdwr/llcp/card options incl. the presence check,
LED/buzzer and callback phases, NFC-DEP/LLCP activation and run loops), happens
while `clf.lock` is held and on the device that is installed in `clf.device`
at that moment.  The obligation sits in the hook of env.recdevice.RecDevice,
i.e. at the entry of every driver method; the scenarios are the ones of
harness/c18_connect.py with the contract checks switched off.

Vacuity guard: the syntax tree of nfc/clf/__init__.py (from NFC_SRC) is
scanned for `self.device.<name>(...)` call sites, bare `self.device.<name>`
loads (the two exchange methods are called through a local variable) and
`device.connect(...)`; each site is a must-reach label, and a driver call that
arrives from a line the scan did not identify is itself reported.
"""
import os
import ast

import nfc.clf
from harness import c18_connect as C
from env.recdevice import (RecDevice, Trace, SlotEnv, WouldBlock,
                           make_frontend, open_frontend, lock_replaced)

PROPERTY = "C15"


def nfc_src():
    return os.environ.get("NFC_SRC", "/repo/src")


def scan_sites():
    """-> (direct, indirect).  direct = [(label, method, first line, last
    line)] for every call self.device.<method>(...) and device.connect(...);
    indirect = [(label, method, function)] for self.device.<method> loaded
    without being called in place.  A site is named by the enclosing function,
    the method and its ordinal among the calls of that method in that
    function ("site:sense:mute#2") - not by its line, so that an edit
    elsewhere in the file does not rename it; the line range (of the very
    source that is executed) only maps a driver call back to its site."""
    path = os.path.join(nfc_src(), "nfc", "clf", "__init__.py")
    with open(path, "rb") as f:
        tree = ast.parse(f.read(), path)

    def is_self_device(n):
        return isinstance(n, ast.Attribute) and n.attr == "device" and \
            isinstance(n.value, ast.Name) and n.value.id == "self"
    direct, indirect, count, called = [], [], {}, set()

    def visit(node, func):
        for child in ast.iter_child_nodes(node):
            f = child.name if isinstance(
                child, (ast.FunctionDef, ast.AsyncFunctionDef)) else func
            if isinstance(child, ast.Call) and \
                    isinstance(child.func, ast.Attribute):
                m = None
                if is_self_device(child.func.value):
                    m = child.func.attr
                    called.add(id(child.func))
                elif isinstance(child.func.value, ast.Name) and \
                        child.func.value.id == "device" and \
                        child.func.attr == "connect":
                    m = "connect"
                if m is not None:
                    n = count[(func, m)] = count.get((func, m), 0) + 1
                    direct.append(("site:%s:%s#%d" % (func, m, n), m,
                                   child.lineno, child.end_lineno))
            if isinstance(child, ast.Attribute) and is_self_device(child.value) \
                    and id(child) not in called:
                indirect.append(("site:%s:%s:indirect" % (func, child.attr),
                                 child.attr, func))
            visit(child, f)
    visit(tree, "<module>")
    return direct, sorted(set(indirect))


DIRECT, INDIRECT = scan_sites()


def site_label(method, fn, line):
    for label, name, lo, hi in DIRECT:
        if name == method and lo <= line <= hi:
            return label
    for label, name, func in INDIRECT:
        if name == method and func == fn:
            return label
    return None


bad_clf = [None, "?"]


def reset(sx):
    bad_clf[:] = [None, "?"]


def make_hook(sx, log, bad):
    """the obligation at the entry of every driver method.  A failed
    obligation is noted and the run continues, so that the driver calls
    behind an unlocked one are examined as well; run() reports every distinct
    failure of the path (one forked copy of the path per label)."""
    def hook(dev, method, locked, current, fn, line):
        entry = getattr(dev, "entry", "?")
        bad_clf[:] = [dev.clf, entry]
        log.append([method, entry, fn, bool(locked), bool(current)])
        where = "%s@%s/%s" % (method, entry, fn)
        site = site_label(method, fn, line)
        labels = []
        if site is None:
            labels.append("driver-call-from-unscanned-site:" + where)
        else:
            sx.reach(site)
        if dev.clf is not None and lock_replaced(dev.clf):
            labels.append("frontend-lock-replaced:" + entry)
        if getattr(dev, "helper_thread", False) and not locked:
            # a thread the frontend started itself drives the device without
            # having taken the lock (the lock may well be held - by the thread
            # whose driver call is in progress)
            labels.append("driver-call-by-helper-thread-without-lock:%s@%s" % (method, entry))
        elif getattr(dev, "lock_owner", None) == "other":
            # the lock is held, but by somebody else: two threads in the driver
            labels.append("driver-call-while-lock-held-by-other-thread:%s@%s"
                          % (method, entry))
        elif not locked:
            labels.append("driver-call-without-lock:" + where)
        if not current:
            labels.append("driver-call-on-device-not-installed:" + where)
        sx.check(not labels, "(noted; reported at the end of the path)") \
            if not labels else None
        for l in labels:
            if l not in bad:
                bad.append(l)
    return hook


def run(sx, scn, **params):
    from env.recdevice import install_helper_threads, remove_helper_threads
    log, bad = [], []
    helpers = install_helper_threads()
    try:
        getattr(C, scn)(sx, mode="lock", hook=make_hook(sx, log, bad), **params)
        # helper threads that were started and not cancelled run now at the
        # latest (nobody holds the lock any more)
        if bad_clf[0] is not None and helpers.pending:
            dev = bad_clf[0].device
            helpers.fire(dev, "after-scenario")
    finally:
        remove_helper_threads()
    if helpers.fired:
        sx.reach("helper-thread-ran")
    sx.reach("entry:" + scn)
    clf, entry = bad_clf
    if clf is not None and lock_replaced(clf):
        l = "frontend-lock-replaced:" + entry
        if not any(b.startswith("frontend-lock-replaced:") for b in bad):
            bad.append(l)
    if clf is not None and clf.guard_lock.deadlocks:
        bad.append("lock-acquired-while-held:" + entry)
    if clf is not None and clf.lock.locked():
        # nobody is inside the frontend any more: a lock that is still held
        # blocks every other thread for ever
        bad.append("lock-left-held-after:" + entry)
    else:
        sx.check(True, "lock released")
    if bad:
        sx.check(False, bad[sx.pick("report", list(range(len(bad))))])
    return log


def connect_scn(sx, **params):
    return run(sx, "connect_scn", **params)


# ----------------------------------------------------------------------------
# contended: "another thread" is inside a driver call (holds clf.lock)
# ----------------------------------------------------------------------------
CONTENDED_OPS = ["sense", "listen", "exchange-cmd", "exchange-rsp",
                 "max_send_data_size", "max_recv_data_size", "close",
                 "__exit__", "__exit__:KeyboardInterrupt", "__exit__:IOError", "__exit__:ValueError",
                 "open", "open-closed", "connect-rdwr",
                 "connect-llcp",
                 "connect-card"]


def contended_scn(sx, op):
    """The harness takes clf.lock first (GuardLock owner 'other': another
    application thread that is inside a driver call) and then calls one
    public entry point.  Correct: the entry point tries to take the lock and
    would block (GuardLock raises WouldBlock); no driver method is entered
    while the other owner holds the lock.  A non-blocking acquire that fails
    does not make the caller an owner."""
    log, bad = [], []
    tr = Trace()
    envo = SlotEnv(sx, tr)
    dev = RecDevice(sx, envo, tr)
    dev.hook = make_hook(sx, log, bad)
    clf = make_frontend(dev)
    # uncontended preparation: a captured target, so that exchange() and the
    # size properties have something to talk about
    if op == "exchange-cmd":
        dev.entry = "sense"
        args = [C.mk_target(sx, "A")]
        envo.program(args, ["ok"], (0, 0), lambda t: C.mk_response(sx, "A"))
        clf.sense(*args)
    elif op == "exchange-rsp":
        dev.entry = "listen"
        envo.listen_script = "found"
        envo.response = lambda k: nfc.clf.LocalTarget(
            "212F", tt3_cmd=sx.mkbytes([0x00, 0xFF, 0xFF, 0x01, 0x00]))
        clf.listen(C.mk_local(sx, "ttf"), 0.1)
    if op == "open-closed":
        dev.entry = "close"
        clf.close()
    dev.entry = op
    guard = clf.guard_lock
    guard.hold_as_other()
    if op == "sense":
        st, v = C.call(clf.sense, C.mk_target(sx, "A"), C.mk_target(sx, "F"))
    elif op == "listen":
        st, v = C.call(clf.listen, C.mk_local(sx, "ttf"), 0.1)
    elif op.startswith("exchange"):
        st, v = C.call(clf.exchange, sx.mkbytes([0x30, 0x00]), 0.1)
    elif op == "max_send_data_size":
        st, v = C.call(lambda: clf.max_send_data_size)
    elif op == "max_recv_data_size":
        st, v = C.call(lambda: clf.max_recv_data_size)
    elif op == "close":
        st, v = C.call(clf.close)
    elif op == "__exit__":
        st, v = C.call(clf.__exit__, None, None, None)
    elif op.startswith("__exit__:"):
        # the with-block is left through an exception (Ctrl-C in the main
        # thread while a worker thread is inside the driver)
        exc = dict(KeyboardInterrupt=KeyboardInterrupt, IOError=IOError,
                   ValueError=ValueError)[op.split(":")[1]]
        st, v = C.call(clf.__exit__, exc, exc(), None)
        sx.reach("contended:with-block-left-through-exception")
    elif op in ("open", "open-closed"):
        # open: second open() of a frontend that is open (closes the old
        # driver, then searches the new one); open-closed: frontend closed
        tr2 = Trace()
        dev2 = RecDevice(sx, SlotEnv(sx, tr2), tr2)
        dev2.hook = dev.hook
        dev2.entry = "open"
        st, v = C.call(open_frontend, clf, dev2)
    elif op == "connect-rdwr":
        st, v = C.call(clf.connect, rdwr={'targets': ['106A']},
                       terminate=lambda: False)
    elif op == "connect-llcp":
        st, v = C.call(clf.connect, llcp={}, terminate=lambda: False)
    elif op == "connect-card":
        st, v = C.call(clf.connect, card={
            'on-startup': C.startup_cb(sx, tr, "card", "target")},
            terminate=lambda: False)
    else:
        raise ValueError(op)
    if st == "limit" and isinstance(v, WouldBlock) and guard.blocked == 1:
        sx.reach("contended:%s:waits" % op)
        sx.check(True, "waits for the lock")
    else:
        bad.append("entry-point-did-not-wait-for-lock:" + op)
    if lock_replaced(clf) and \
            not any(b.startswith("frontend-lock-replaced:") for b in bad):
        bad.append("frontend-lock-replaced:" + op)
    if guard.owner != "other":
        bad.append("lock-of-other-thread-released-by:" + op)
    guard.release_other()
    if clf.lock.locked():
        bad.append("lock-left-held-after:" + op)
    if bad:
        sx.check(False, bad[sx.pick("report", list(range(len(bad))))])
    return dict(result=C.describe(st, v), log=log)


# ----------------------------------------------------------------------------
# interrupted: KeyboardInterrupt arrives while an entry point sleeps; if the
# entry point has given up the lock for the pause, another thread has taken it
# ----------------------------------------------------------------------------
INTERRUPT_OPS = ["sense", "connect-rdwr"]


def interrupt_scn(sx, op):
    """Every time.sleep() of the entry point is a point where (a) another
    thread takes clf.lock if the entry point does not hold it, and (b) a
    KeyboardInterrupt may arrive.  Whatever the entry point does on its way
    out, it may only release a lock it holds: the other thread is inside a
    driver call and must stay the owner; no driver method is entered while it
    is; the lock is not left held by the entry point."""
    from symx.envpatch import CLOCK
    log, bad = [], []
    tr = Trace()
    envo = SlotEnv(sx, tr)
    dev = RecDevice(sx, envo, tr)
    dev.hook = make_hook(sx, log, bad)
    clf = make_frontend(dev)
    guard = clf.guard_lock
    st = dict(n=0, interrupted=False, other_holds=False)
    real_sleep = CLOCK.sleep

    def sleep(d):
        st['n'] += 1
        took = False
        if not guard.locked():
            guard.hold_as_other()
            took = True
            sx.reach("interrupt:lock-free-during-sleep")
        what = "continue"
        if st['n'] <= 3 and not st['interrupted']:
            what = sx.pick("sleep%d" % st['n'], ["continue", "interrupt"])
        real_sleep(d)
        if what == "interrupt":
            st['interrupted'] = True
            st['other_holds'] = took
            raise KeyboardInterrupt()
        if took:
            guard.release_other()
    CLOCK.sleep = sleep
    dev.entry = op
    try:
        if op == "sense":
            args = [C.mk_target(sx, "A"), C.mk_target(sx, "F")]
            envo.program(args, ["ok", "ok"], None, lambda t: C.mk_response(sx, "A"))
            status, v = C.call(clf.sense, *args, iterations=3, interval=0.5)
        elif op == "connect-rdwr":
            polls = [0]

            def terminate():
                polls[0] += 1
                return polls[0] > 4
            status, v = C.call(clf.connect, rdwr={'targets': ['106A'], 'iterations': 2,
                                                  'interval': 0.3},
                               terminate=terminate)
        else:
            raise ValueError(op)
    finally:
        CLOCK.sleep = real_sleep
    if st['n']:
        sx.reach("interrupt:%s:slept" % op)
    if st['interrupted']:
        sx.reach("interrupt:%s:interrupted" % op)
    if st['other_holds']:
        if not guard.locked() or guard.owner != "other":
            bad.append("lock-of-other-thread-released-by:" + op)
        guard.release_other()
    if status == "limit" and isinstance(v, WouldBlock):
        # (the entry point waits for the lock the other thread holds: fine)
        guard.release_other()
    if clf.lock.locked():
        bad.append("lock-left-held-after:" + op)
    if lock_replaced(clf):
        bad.append("frontend-lock-replaced:" + op)
    if bad:
        sx.check(False, bad[sx.pick("report", list(range(len(bad))))])
    else:
        sx.check(True, "lock discipline kept")
    return dict(result=C.describe(status, v), sleeps=st['n'], log=log)


# ----------------------------------------------------------------------------
# closed while waiting: another thread wins the race for the free lock at the
# entry point's lock acquisition, closes the frontend and releases the lock
# ----------------------------------------------------------------------------
RACE_OPS = ["sense", "listen", "exchange-cmd", "exchange-rsp",
            "max_send_data_size", "max_recv_data_size", "close"]


def close_race_scn(sx, op):
    """clf.close() by another thread is ordered immediately before the entry
    point's (first) acquisition of clf.lock, i.e. after anything the entry
    point looked at without the lock.  The entry point then runs on a closed
    frontend: it makes no driver call (the driver object is closed) and ends
    as documented for a closed frontend - IOError(ENODEV), or None/False for
    close() - never in an exception of another type."""
    import errno
    log, bad = [], []
    tr = Trace()
    envo = SlotEnv(sx, tr)
    dev = RecDevice(sx, envo, tr)
    dev.hook = make_hook(sx, log, bad)
    clf = make_frontend(dev)
    if op == "exchange-cmd":
        dev.entry = "sense"
        args = [C.mk_target(sx, "A")]
        envo.program(args, ["ok"], (0, 0), lambda t: C.mk_response(sx, "A"))
        clf.sense(*args)
    elif op == "exchange-rsp":
        dev.entry = "listen"
        envo.listen_script = "found"
        envo.response = lambda k: nfc.clf.LocalTarget(
            "212F", tt3_cmd=sx.mkbytes([0x00, 0xFF, 0xFF, 0x01, 0x00]))
        clf.listen(C.mk_local(sx, "ttf"), 0.1)
    guard = clf.guard_lock
    closed = [False]

    def other_thread_closes():
        hook, dev.hook = dev.hook, None      # (the other thread's own driver call)
        try:
            clf.close()
        finally:
            dev.hook = hook
        closed[0] = True
    guard.before_grant = other_thread_closes
    dev.entry = op
    ncalls = dev.ncalls
    if op == "sense":
        st, v = C.call(clf.sense, C.mk_target(sx, "A"), C.mk_target(sx, "F"))
    elif op == "listen":
        st, v = C.call(clf.listen, C.mk_local(sx, "ttf"), 0.1)
    elif op.startswith("exchange"):
        st, v = C.call(clf.exchange, sx.mkbytes([0x30, 0x00]), 0.1)
    elif op == "max_send_data_size":
        st, v = C.call(lambda: clf.max_send_data_size)
    elif op == "max_recv_data_size":
        st, v = C.call(lambda: clf.max_recv_data_size)
    elif op == "close":
        st, v = C.call(clf.close)
    else:
        raise ValueError(op)
    if not closed[0]:
        bad.append("entry-point-took-no-lock:" + op)
    else:
        sx.reach("close-race:%s:closed-before-lock" % op)
    if dev.ncalls != ncalls + 1:          # (+1: the other thread's close())
        bad.append("driver-call-on-closed-device:" + op)
    if st == "exc":
        if not (isinstance(v, IOError) and v.errno == errno.ENODEV):
            bad.append("closed-frontend:%s:raised-%s" % (op, type(v).__name__))
    elif st != "ok":
        bad.append("closed-frontend:%s:no-return" % op)
    if clf.lock.locked():
        bad.append("lock-left-held-after:" + op)
    if bad:
        sx.check(False, bad[sx.pick("report", list(range(len(bad))))])
    else:
        sx.check(True, "closed frontend handled")
    return dict(result=C.describe(st, v), log=log)


def sense_scn(sx, **params):
    return run(sx, "sense_scn", **params)


def sense_tta_response_scn(sx, **params):
    return run(sx, "sense_tta_response_scn", **params)


def listen_scn(sx, **params):
    return run(sx, "listen_scn", **params)


def stale_scn(sx, **params):
    return run(sx, "stale_scn", **params)


def lifecycle_scn(sx, **params):
    return run(sx, "lifecycle_scn", **params)


def partitions(tier):
    parts = []
    for name, params in C.connect_partitions(tier):
        parts.append(dict(name="connect:" + name, fn="connect_scn",
                          params=params))
        if name in ("rdwr:t2:connect", "card:reader:connect",
                    "llcp:peer-init:connect", "llcp:peer-target:connect"):
            # the same through a frontend that was built by the real open()
            p = dict(params)
            p['via_open'] = True
            parts.append(dict(name="connect:" + name + ":via-open",
                              fn="connect_scn", params=p))
    for name, fn, params in C.sense_partitions(tier):
        parts.append(dict(name=name, fn=fn, params=params))
    # contended: another thread holds the lock
    for op in CONTENDED_OPS:
        parts.append(dict(name="contended:" + op, fn="contended_scn",
                          params=dict(op=op)))
    for op in RACE_OPS:
        parts.append(dict(name="close-race:" + op, fn="close_race_scn", params=dict(op=op)))
    for op in INTERRUPT_OPS:
        parts.append(dict(name="interrupted:" + op, fn="interrupt_scn", params=dict(op=op)))
    g = 8 if tier == "thorough" else 6
    for name, params in (
            ("rdwr", dict(modes=["rdwr"], env="t2", targets=["106A"],
                          beep=[True, False])),
            ("card", dict(modes=["card"], env="reader",
                          startup=dict(card=["target"]))),
            ("llcp-target", dict(modes=["llcp"], env="peer-init",
                                 role="target")),
            ("llcp-initiator", dict(modes=["llcp"], env="peer-target",
                                    role="initiator"))):
        p = dict(params)
        p.update(vals={"on-discover": ["True"], "on-connect": C.TF,
                       "on-release": ["True"]}, K=2, grab=g)
        parts.append(dict(name="contended:connect-phases:" + name,
                          fn="connect_scn", params=p))
    return parts


MUST_REACH = [d[0] for d in DIRECT] + [i[0] for i in INDIRECT] + \
    ["entry:" + s for s in ("connect_scn", "sense_scn", "listen_scn",
                            "stale_scn", "lifecycle_scn")] + \
    ["contended:%s:waits" % op for op in CONTENDED_OPS] + \
    ["contended:connect:waits-for-lock"] + \
    ["interrupt:%s:%s" % (op, w) for op in INTERRUPT_OPS for w in ("slept", "interrupted")] + \
    ["close-race:%s:closed-before-lock" % op for op in RACE_OPS]

BOUNDS = {
    "quick": "every driver call on every path of the C18 scenarios (quick "
             "bounds of harness/c18_connect.py: connect() with all option "
             "subsets, callback results, terminate polls, tag/reader/peer/"
             "fault scripts; sense/listen/exchange/stale-target/open/close/"
             "size scenarios) plus connect() on a frontend built by the real "
             "open(); per driver call: clf.lock.locked() and clf.device is "
             "the called driver (for device.connect(): no driver installed); "
             "per scenario: lock released at the end, never acquired while "
             "held; per syntactic call site of nfc/clf/__init__.py: reached.  "
             "CONTENDED family: the harness holds clf.lock as 'another thread' "
             "(GuardLock owner tag) and calls each of sense, listen, exchange "
             "(both directions), max_send/recv_data_size, close, __exit__, "
             "open, connect(rdwr/llcp/card): the entry point must try to take "
             "the lock (would block) and enter no driver method; and in "
             "connect() conversations (rdwr/card/llcp both roles) the other "
             "thread grabs the lock after any one of the first 6 (8) "
             "callbacks/terminate polls: no driver call until it is released. "
             "'Held' means held by the caller: a failed acquire(False) does "
             "not count.  The frontend lock is ONE object: clf.lock must be "
             "the GuardLock installed at construction at every driver call "
             "and after every scenario (frontend-lock-replaced), and the "
             "other thread always holds that original object; open() of an "
             "open and of a closed frontend are among the contended entry "
             "points.  Call sites are named by function/method/ordinal, not "
             "by line.  INTERRUPTED family: in sense(iterations=3) and "
             "connect(rdwr) every time.sleep() of the entry point is a point "
             "where another thread takes the lock if the entry point has let "
             "go of it and where KeyboardInterrupt may arrive (first three "
             "sleeps): the entry point releases only a lock it holds, enters "
             "no driver method while the other thread owns the lock, leaves "
             "no lock held.  CLOSE-RACE family: close() by another "
             "thread is ordered immediately before the first lock acquisition "
             "of sense, listen, exchange (both directions), the size "
             "properties and close: no driver call on the closed driver, "
             "IOError(ENODEV) or a normal return, no other exception; __exit__ with KeyboardInterrupt/IOError/ValueError as the exception that leaves the with-block",
    "thorough": "as quick with the thorough bounds of harness/c18_connect.py",
}
OUTSIDE = [
    "the lock implementation itself and real multi-thread schedules: the claim is 'lock held and device current at every driver call site/path', from which mutual exclusion follows by the lock's contract",
    "drivers used directly by an application, and attribute reads of the driver in ContactlessFrontend.__str__ (vendor_name/product_name/path, no device I/O)",
    "what a real driver does inside device.connect()/close() (transport open/close) - only that the frontend calls them under the lock",
    "paths outside the C18 bounds (tag types other than a generic Type 2 Tag, LLCP traffic beyond SYMM/DISC)",
]
ASSUMPTIONS = [
    "single harness thread: the lock owner tag of GuardLock ('caller' = taken by the code under test, 'other' = taken by the harness standing for a second thread) decides 'held by the calling thread' at the entry of a driver method",
    "clf.lock is env.recdevice.GuardLock wrapping a threading.Lock (same semantics; raises instead of blocking on self-deadlock)",
    "nfc.clf.device.connect is replaced by a stub that hands out the RecDevice (recorded as driver call 'connect')",
    "scenarios, environment scripts and fault model of harness/c18_connect.py / env/recdevice.py",
]
