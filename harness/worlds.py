"""Tag 'worlds': a simulator with a well-formed NDEF layout built from a few
parameters, plus what the harness needs to judge the implementation
independently of it: where the NDEF message area is, what the layout can
really hold, what was stored before.

Used by C01 (round trip), C02 (power cut), C03 (area preservation), C16
(transient faults).
"""
import nfc
import nfc.clf
import nfc.tag
from env import tags


def lenbytes(n):
    return 1 if n < 255 else 3


def real_capacity(count):
    """largest n with 1 (T) + lenbytes(n) + n <= count"""
    if count - 2 <= 254:
        return max(count - 2, 0)
    return max(count - 4, 254)


class World(object):
    """common interface"""
    kind = "?"

    def fresh_tag(self):
        """a new tag object from a fresh activation on the same simulator"""
        self.sim.mute = False
        if hasattr(self.sim, "sector"):
            # Type 2: sector 0 is selected after every activation
            self.sim.sector = 0
            self.sim.sector_pending = False
        self.clf.target = True       # found by a fresh sense
        return nfc.tag.activate(self.clf, self.target())

    def snapshot(self):
        return list(self.sim.mem)


# ----------------------------------------------------------------------------
# Type 2
# ----------------------------------------------------------------------------
OVERLAPPING_ENCODINGS = [False]      # set by a harness function for one path


def _ctl_encodings(frm):
    """(page_addr, byte_offs, exponent) triples that express address frm =
    page_addr * 2**exponent + byte_offs.  By default byte_offs is smaller than
    the page size; with OVERLAPPING_ENCODINGS also the encodings whose byte
    offset reaches into the following pages (the only way to address e.g.
    bytes 128..135 with 8-byte pages: page 15, offsets 8..15)"""
    out = []
    for e in range(0, 16):
        pa, bo = frm >> e, frm & ((1 << e) - 1)
        if pa <= 15 and bo <= 15:
            out.append((pa, bo, e))
        if OVERLAPPING_ENCODINGS[0]:
            for pa2 in range(0, 16):
                bo2 = frm - pa2 * (1 << e)
                if (1 << e) <= bo2 <= 15 and (pa2, bo2, e) not in out:
                    out.append((pa2, bo2, e))
    return out


class T2World(World):
    """Type 2 Tag, structured layout.

    S          data area size in bytes (CC byte 2 = S/8)
    prefix     string over N (NULL TLV), L (lock control), M (memory control)
    rsv        for each L/M in prefix: (from, size) absolute byte range that the
               control TLV reserves (size in bytes; lock TLVs declare size*8 bits)
    oldlen     length of the NDEF message stored before (None: pick)
    All other bytes (previous message, free space, bytes beyond the data
    area, identifier/lock/OTP bytes) are symbolic.
    """
    kind = "tt2"

    def __init__(self, sx, S, prefix="", rsv=(), oldlen=0, extra=16,
                 old_lt_80=False, symbolic_window=None, terminator=None, nxp=None,
                 rsv_on_len=False, plen=()):
        self.sx = sx
        self.nxp = nxp
        pi = 0
        self.hdr_rsv = False
        if nxp is not None:
            # NXP product: sizes from the data sheet, the vendor class is what
            # nfc.tag.activate() returns (GET_VERSION answer, UID starts 04h)
            version, pages, ccsize = tags.NXP_PRODUCTS[nxp]
            S = ccsize * 8
            extra = pages * 4 - 16 - S
        self.S = S
        phys = 16 + S + extra
        self.phys = phys
        mem = [None] * phys      # None: previous contents, made symbolic below
        mem[12:16] = [0xE1, 0x10, S // 8, 0x00]
        R = set()
        rsv = list(rsv)
        ri = 0
        p = 16
        self.ctl = []
        for c in prefix:
            while p in R:
                p += 1
            if c == 'N':
                mem[p] = 0x00
                p += 1
                continue
            if c == 'P':
                # proprietary TLV (FDh) with plen value bytes; its T, L and V
                # bytes take the next bytes that are not reserved so far
                k = plen[pi]
                pi += 1
                pos = [b for b in range(p, 16 + S) if b not in R][:k + 2]
                mem[pos[0]], mem[pos[1]] = 0xFD, k
                if pos[-1] - pos[0] != k + 1:
                    sx.reach("rsv_inside_proprietary_tlv")
                    self.hdr_rsv = True
                p = pos[-1] + 1
                continue
            frm, size = rsv[ri]
            ri += 1
            encs = _ctl_encodings(frm)
            pa, bo, e = sx.pick("enc%d" % ri, encs) if len(encs) > 1 else encs[0]
            hi_nibble = sx.int("ctlhi%d" % ri, 0, 15)   # upper nibble of byte 3 is not used by the reader
            if c == 'L':
                nbits = size * 8 - sx.int("lockbits_slack%d" % ri, 0, 7)
                third = (hi_nibble << 4) | e
                mem[p:p + 5] = [0x01, 0x03, (pa << 4) | bo, nbits & 0xFF, third]
            else:
                mem[p:p + 5] = [0x02, 0x03, (pa << 4) | bo, size & 0xFF,
                                (hi_nibble << 4) | e]
            self.ctl.append((c, frm, size))
            R.update(range(frm, frm + size))
            p += 5
        while p in R:
            p += 1
        self.R = R
        self.T = p
        mem[p] = 0x03
        end = 16 + S
        self.usable = [b for b in range(p, end) if b not in R]
        self.count = len(self.usable)
        self.cap = real_capacity(self.count)
        self.oldlen = oldlen
        assert oldlen <= self.cap, (oldlen, self.cap)
        lfield = [oldlen] if oldlen < 255 else [0xFF, oldlen >> 8, oldlen & 0xFF]
        lpos = self.usable[1:1 + len(lfield)]
        for b, v in zip(lpos, lfield):
            mem[b] = v
        vstart = lpos[-1] + 1
        if not rsv_on_len:
            for b in range(p + 1, vstart):
                assert b not in R, "reserved range on the length field"
        elif any(b in R for b in range(p + 1, vstart)):
            sx.reach("rsv_on_length_field")
            self.hdr_rsv = True
        vals = [b for b in range(vstart, end) if b not in R]
        self.old_positions = vals[:oldlen]
        if oldlen < len(vals) and (sx.pick("old_terminator", [1, 0]) if terminator is None else terminator):
            mem[vals[oldlen]] = 0xFE
        valset = set(vals)
        for i in range(phys):
            if mem[i] is None:
                if symbolic_window is not None and not (
                        symbolic_window[0] <= i < symbolic_window[1]):
                    mem[i] = (i * 7 + (i >> 7) * 13 + 3) & 0x7F      # position dependent, no 1 KiB period
                elif old_lt_80 and i in valset:
                    # long-message runs: previous contents of the message area
                    # below 0x80, new message bytes at or above (removes the
                    # 2^pages "page unchanged?" forks; short runs are unrestricted)
                    mem[i] = sx.int("m[%d]" % i, 0, 0x7F)
                else:
                    mem[i] = sx.byte("m[%d]" % i)
        self.old = sx.mkbytes([mem[b] for b in self.old_positions], False)
        # the NDEF message area: L byte(s) .. end of data area minus reserved
        self.area = set(b for b in range(p + 1, end) if b not in R)
        if nxp is not None:
            self.uid = b"\x04\x51\x7C\xA1\xE1\xED\x25"
            self.sim = tags.Tt2Sim(mem, uid=self.uid, version=tags.NXP_PRODUCTS[nxp][0])
        else:
            self.uid = b"\x01\x02\x03\x04\x05\x06\x07"
            self.sim = tags.Tt2Sim(mem)
        self.clf = tags.SimClf(self.sim)
        self.unit = 4

    def target(self):
        return tags.tt2_target(self.uid)

    def geometry(self, n):
        """reach labels describing where the reserved ranges fall relative to
        a new message of length n"""
        labels = []
        if lenbytes(n) >= len(self.usable):
            return labels
        vstart = self.usable[lenbytes(n)] + 1
        vals = [b for b in range(vstart, 16 + self.S) if b not in self.R]
        if n > len(vals):
            return labels
        last = vals[n - 1] if n else vstart - 1
        for c, frm, size in self.ctl:
            rng = range(frm, frm + size)
            if frm + size <= self.T:
                labels.append("rsv_before_ndef_tlv")
            elif n and any(vstart <= b <= last for b in rng):
                labels.append("rsv_inside_message")
            elif any(b > last and b < 16 + self.S for b in rng):
                nxt = last + 1
                labels.append("rsv_directly_after_message" if frm == nxt
                              else "rsv_after_message")
            if frm >= 16 + self.S:
                labels.append("rsv_beyond_data_area")
            if frm + size == 16 + self.S:
                labels.append("rsv_at_end_of_data_area")
        if (self.T + 1) % 4 == 3 and lenbytes(n) == 3:
            labels.append("length_field_straddles_write_unit")
        if (self.T + 1) % 4 in (2, 3) and lenbytes(n) == 3:
            labels.append("length_field_straddles_write_unit")
        return labels


# ----------------------------------------------------------------------------
# Type 1
# ----------------------------------------------------------------------------
class T1World(World):
    """Type 1 Tag, structured layout.  hr = (HR0, HR1): (0x11,0x48) Topaz,
    (0x12,0x4C) Topaz-512, others generic.  size = 120 (static) or 512.
    TLVs start at byte 12; bytes 104..119 (static) / 104..127 (dynamic) are
    reserved by the specification."""
    kind = "tt1"

    def __init__(self, sx, hr, size, prefix="", rsv=(), oldlen=0, old_lt_80=False,
                 exact=False, symbolic_window=None, terminator=None, phys=None,
                 rsv_on_len=False, plen=()):
        self.sx = sx
        self.size = size
        pi = 0
        self.hdr_rsv = False
        # physical memory may be larger than the data area the capability
        # container declares (guard bytes: the model must not enforce the
        # end of the data area on behalf of the code)
        phys = phys or size
        mem = [None] * phys
        mem[8:12] = [0xE1, 0x10, size // 8 - 1, 0x00]
        base = set(range(104, 120 if size == 120 else 128))
        R = set(base)
        rsv = list(rsv)
        ri = 0
        p = 12
        self.ctl = []
        for c in prefix:
            while p in R:
                p += 1
            if c == 'N':
                mem[p] = 0x00
                p += 1
                continue
            if c == 'P':
                k = plen[pi]
                pi += 1
                pos = [b for b in range(p, size) if b not in R][:k + 2]
                mem[pos[0]], mem[pos[1]] = 0xFD, k
                if pos[-1] - pos[0] != k + 1:
                    sx.reach("rsv_inside_proprietary_tlv")
                    self.hdr_rsv = True
                p = pos[-1] + 1
                continue
            frm, sz = rsv[ri]
            ri += 1
            encs = _ctl_encodings(frm)
            if not exact:
                pa, bo, e = sx.pick("enc%d" % ri, encs) if len(encs) > 1 else encs[0]
            if exact:
                # the vendor's standard layout, byte for byte
                pa, bo, e = [x for x in encs if x[2] == 3][0]
                hi_nibble = 3 if c == 'L' else 0
                nbits = sz * 8
            else:
                hi_nibble = sx.int("ctlhi%d" % ri, 0, 15)
                nbits = sz * 8 - sx.int("lockbits_slack%d" % ri, 0, 7)
            if c == 'L':
                mem[p:p + 5] = [0x01, 0x03, (pa << 4) | bo, nbits & 0xFF,
                                (hi_nibble << 4) | e]
            else:
                mem[p:p + 5] = [0x02, 0x03, (pa << 4) | bo, sz & 0xFF,
                                (hi_nibble << 4) | e]
            self.ctl.append((c, frm, sz))
            R.update(range(frm, frm + sz))
            p += 5
        while p in R:
            p += 1
        self.R = R
        self.T = p
        mem[p] = 0x03
        end = size
        self.end = end
        self.usable = [b for b in range(p, end) if b not in R]
        self.count = len(self.usable)
        self.cap = real_capacity(self.count)
        self.oldlen = oldlen
        assert oldlen <= self.cap, (oldlen, self.cap)
        lfield = [oldlen] if oldlen < 255 else [0xFF, oldlen >> 8, oldlen & 0xFF]
        lpos = self.usable[1:1 + len(lfield)]
        for b, v in zip(lpos, lfield):
            mem[b] = v
        vstart = lpos[-1] + 1
        if not rsv_on_len:
            for b in range(p + 1, vstart):
                assert b not in R, "reserved range on the length field"
        elif any(b in R for b in range(p + 1, vstart)):
            sx.reach("rsv_on_length_field")
            self.hdr_rsv = True
        vals = [b for b in range(vstart, end) if b not in R]
        self.old_positions = vals[:oldlen]
        if oldlen < len(vals) and (sx.pick("old_terminator", [1, 0]) if terminator is None else terminator):
            mem[vals[oldlen]] = 0xFE
        valset = set(vals)
        for i in range(phys):
            if mem[i] is None:
                if symbolic_window is not None and not (
                        symbolic_window[0] <= i < symbolic_window[1]):
                    mem[i] = ((i * 7 + 3) & 0x7F) if i >= 8 else i + 1
                elif old_lt_80 and i in valset:
                    mem[i] = sx.int("m[%d]" % i, 0, 0x7F)
                else:
                    mem[i] = sx.byte("m[%d]" % i)
        self.old = sx.mkbytes([mem[b] for b in self.old_positions], False)
        self.area = set(b for b in range(p + 1, end) if b not in R)
        self.sim = tags.Tt1Sim(mem, hr[0], hr[1])
        self.clf = tags.SimClf(self.sim)
        self.unit = 8 if self.sim.dynamic else 1
        self.S = size - 16      # for geometry()

    def target(self):
        return tags.tt1_target(self.sim)

    def geometry(self, n):
        labels = []
        if lenbytes(n) >= len(self.usable):
            return labels
        vstart = self.usable[lenbytes(n)] + 1
        vals = [b for b in range(vstart, self.end) if b not in self.R]
        if n > len(vals):
            return labels
        last = vals[n - 1] if n else vstart - 1
        for c, frm, size in self.ctl:
            rng = range(frm, frm + size)
            if n and any(vstart <= b <= last for b in rng):
                labels.append("rsv_inside_message")
        if n and any(vstart <= b <= last for b in range(104, 128)):
            labels.append("t1_message_spans_reserved_blocks")
        if lenbytes(n) == 3 and (self.T + 1) // self.unit != (self.T + 3) // self.unit:
            labels.append("length_field_straddles_write_unit")
        return labels


# ----------------------------------------------------------------------------
# Type 3
# ----------------------------------------------------------------------------
class T3World(World):
    """Type 3 Tag with attribute block: Nbr, Nbw, Nmaxb, old length; data
    blocks 1..Nmaxb and `extra` blocks behind them hold symbolic bytes.
    emulated=True: the tag is nfc.tag.tt3.Type3TagEmulation itself."""
    kind = "tt3"

    def __init__(self, sx, nbr, nbw, nmaxb, oldlen=0, extra=2, emulated=False,
                 ic_code=0xEE, writef=0x00, rwflag=0x01, fill=None, standard=False, pmm_tail=None):
        self.sx = sx
        nblk = 1 + nmaxb + extra
        mem = [None] * (nblk * 16)
        attr = [0x10, nbr, nbw, nmaxb >> 8, nmaxb & 255, 0, 0, 0, 0, writef, rwflag,
                (oldlen >> 16) & 255, (oldlen >> 8) & 255, oldlen & 255]
        cs = sum(attr)
        mem[0:16] = attr + [cs >> 8, cs & 255]
        for i in range(16, len(mem)):
            mem[i] = sx.byte("m[%d]" % i) if fill is None else (fill + i * 5 + i // 16) & 0xFF
        self.nmaxb = nmaxb
        self.cap = nmaxb * 16
        self.oldlen = oldlen
        self.old = sx.mkbytes(mem[16:16 + oldlen], False)
        self.area = set(range(0, (1 + nmaxb) * 16))
        idm = [0x02, 0xFE, 1, 2, 3, 4, 5, 6]
        pmm = [0x03, ic_code] + list(pmm_tail or [0x4B, 0x02, 0x4F, 0x49, 0x93, 0xFF])
        if emulated:
            self.kind = "tt3emu"
            self.sim = tags.Tt3EmuSim(mem, idm, pmm)
        else:
            # standard=True: FeliCa Standard command set (the vendor class is
            # selected by ic_code, e.g. 01h/20h FeliCa Standard, 10h Mobile)
            self.sim = tags.Tt3Sim(mem, idm, pmm, standard=standard)
        self.clf = tags.SimClf(self.sim)
        self.unit = 16

    def target(self):
        return tags.tt3_target(self.sim)

    def geometry(self, n):
        labels = []
        if self.nmaxb > 255 and n > 255 * 16:
            labels.append("t3_three_byte_block_numbers")
        return labels


# ----------------------------------------------------------------------------
# Type 4
# ----------------------------------------------------------------------------
class T4World(World):
    """Type 4 Tag: CC file E103h, NDEF file E104h of mfs bytes.  ver 0x20
    (NLEN 2 bytes, control TLV 04) or 0x30 (NLEN 4 bytes, TLV 06).  MLe/MLc
    may be symbolic integers."""
    kind = "tt4"

    def __init__(self, sx, ver, mle, mlc, mfs, oldlen=0, typ="A", fsci=8, fwi=4,
                 aid_v=2, tx_size=None, wtx_at=(), fill=None, guard=0, fid=0xE104,
                 more_tlvs=()):
        self.sx = sx
        nl = 2 if ver >> 4 < 3 else 4
        self.nl = nl
        b2 = lambda v: [v >> 8, v & 0xFF]
        # fid: identifier of the NDEF file (any value but the reserved ones
        # may be used); more_tlvs: further TLV blocks behind the NDEF File
        # Control TLV (proprietary file control TLVs, 05h)
        if nl == 2:
            tlv = [0x04, 0x06] + b2(fid) + b2(mfs) + [0x00, 0x00]
        else:
            tlv = [0x06, 0x08] + b2(fid) + [0, 0] + b2(mfs) + [0x00, 0x00]
        for t in more_tlvs:
            tlv = tlv + list(t)
        cc = b2(7 + len(tlv)) + [ver] + b2(mle) + b2(mlc) + tlv
        # `guard` bytes of the card's file lie behind the size the CC declares
        nfile = [None] * (mfs + guard)
        if nl == 2:
            nfile[0:2] = b2(oldlen)
        else:
            nfile[0:4] = [0, 0] + b2(oldlen)
        for i in range(nl, mfs + guard):
            nfile[i] = sx.byte("f[%d]" % i) if fill is None else (fill + i * 3) & 0xFF
        self.cap = mfs - nl
        self.oldlen = oldlen
        self.old = sx.mkbytes(nfile[nl:nl + oldlen], False)
        self.fid = fid
        files = {0xE103: cc, fid: nfile}
        for t in more_tlvs:
            files[(t[2] << 8) | t[3]] = [0x5A] * 8        # the proprietary file
        self.sim = tags.Tt4Card(files, mle, mlc, fsci=fsci,
                                fwi=fwi, typ=typ, aid_v=aid_v, tx_size=tx_size,
                                wtx_at=wtx_at)
        base = self.sim.base[fid]
        self.area = set(range(base, base + mfs))
        self.clf = tags.SimClf(self.sim)
        self.unit = 1

    def fresh_tag(self):
        # a fresh activation: the card is deselected / re-powered
        c = self.sim
        c.mute = False
        c.activated = False
        c.bn = 1
        c.last, c.rx, c.tx, c.pending = None, [], [], None
        c.app, c.cur = False, None
        self.clf.target = True       # found by a fresh sense
        return nfc.tag.activate(self.clf, self.target())

    def target(self):
        return tags.tt4_target(self.sim)

    def geometry(self, n):
        return []
