"""C06 over the real LLCP stack - SNEP and handover client/server on two real
LogicalLinkControllers.

Real code executed: nfc.snep.client.SnepClient (connect by service name,
put_octets, get_octets, close), nfc.snep.server.SnepServer (__init__, _listen,
_serve, process_snep_request), nfc.handover.client.HandoverClient (connect,
send_octets, recv_octets, close), nfc.handover.server.HandoverServer
(__init__, listen, serve, _process_request_data), nfc.llcp.Socket, and under
them nfc.llcp.llc.LogicalLinkController (bind by name, listen, accept,
connect by name through the service discovery SAP, send, recv, poll, close,
collect with aggregation, dispatch) and nfc.llcp.tco.DataLinkConnection
(CONNECT/CC negotiation of MIU and RW, send window, RR/RNR, recv_buf, DISC/DM),
nfc.llcp.pdu encode/decode of every frame.

Environment: env.coop.ThreadSched.  The application threads (client; server
listen thread; the per-connection thread the listen thread starts) are real
call stacks of which one runs at a time; the harness's main thread is the
scheduler and the link: one *cycle* = collect() on the initiator side ->
encode -> decode -> dispatch() on the target side and back, as the two run
loops do.  A thread runs when it was notified; a designated *lagging* thread
only after `lag` more link cycles (a reader that is busy while the peer goes
on sending).  A time-out of poll() fires only when nothing else can move.
"""
import errno
from harness.util import same
from env import coop
import ndef as real_ndef
import nfc.clf
import nfc.dep
from env.air import Air, IniClf, TgtClf
import nfc.llcp
import nfc.llcp.llc as llcmod
import nfc.llcp.tco as tco
import nfc.llcp.pdu as pdu
import nfc.snep
import nfc.snep.client
import nfc.snep.server
import nfc.handover
import nfc.handover.client
import nfc.handover.server
from symx.runner import exc_label


class _FixedOs(object):
    """module attribute `os` of nfc.dep: urandom() is a fixed pattern"""

    @staticmethod
    def urandom(n):
        return bytes(bytearray((7 * i + 1) & 255 for i in range(n)))


class NdefStub(object):
    """module attribute `ndef` of nfc.snep.server: octets pass through (as in
    harness.c06_snep)"""
    DecodeError = real_ndef.DecodeError
    EncodeError = real_ndef.EncodeError

    @staticmethod
    def message_decoder(octets, *args, **kwargs):
        yield octets

    @staticmethod
    def message_encoder(records, *args, **kwargs):
        for r in records:
            yield r


class NdefAdapter(object):
    """module attribute `ndef` of the handover modules: the real ndeflib,
    given builtin bytes (concrete contents only)"""

    def __getattr__(self, name):
        return getattr(real_ndef, name)

    def message_decoder(self, data, *args, **kwargs):
        return real_ndef.message_decoder(bytes(data), *args, **kwargs)


class Server(nfc.snep.server.SnepServer):
    def __init__(self, llc, max_len, recv_miu, recv_buf, get_response):
        nfc.snep.server.SnepServer.__init__(
            self, llc, max_acceptable_length=max_len, recv_miu=recv_miu,
            recv_buf=recv_buf)
        self.seen = []
        self.get_response = get_response

    def process_put_request(self, ndef_message):
        self.seen.append(("put", ndef_message[0]
                          if len(ndef_message) == 1 else None))
        return 0x81

    def process_get_request(self, ndef_message):
        self.seen.append(("get", ndef_message[0]
                          if len(ndef_message) == 1 else None))
        return [self.get_response]


class HoServer(nfc.handover.server.HandoverServer):
    def __init__(self, llc, recv_miu, recv_buf, responses):
        nfc.handover.server.HandoverServer.__init__(
            self, llc, recv_miu=recv_miu, recv_buf=recv_buf)
        self.seen = []
        self.responses = list(responses)

    def process_handover_request_message(self, records):
        self.seen.append(encode(records))
        return self.responses[min(len(self.seen), len(self.responses)) - 1]


def handover_message(kind, pad, tag):
    cls = real_ndef.HandoverRequestRecord if kind == "Hr" \
        else real_ndef.HandoverSelectRecord
    r = cls('1.3', 0x1234) if kind == "Hr" else cls('1.3')
    r.add_alternative_carrier('active', 'c1')
    body = bytes(bytearray([(tag + i * 7 + (i >> 7)) & 255
                            for i in range(pad)]))
    c = real_ndef.Record('application/octet-stream', 'c1', body)
    return [r, c]


def encode(records):
    return b"".join(real_ndef.message_encoder(records))


def content(sx, tag, n, miu):
    """n octets: all symbolic up to 260 octets; longer messages concrete and
    non-periodic except for a handful of symbolic octets: first, last, and
    those on both sides of the fragment boundaries"""
    if n <= 260:
        return sx.bytes(tag, n)
    seed = 17 * len(tag) + ord(tag[-1])
    items = [(seed + 31 * i + (i >> 6) * 5 + (i >> 8)) & 255
             for i in range(n)]
    pos = set([0, n - 1])
    for k in (1, 2):
        for hdr in (6, 14, 0):
            pos.update([k * miu - hdr - 1, k * miu - hdr])
    for p in sorted(q for q in pos if 0 <= q < n)[:8]:
        items[p] = sx.byte("%s[%d]" % (tag, p))
    return sx.mkbytes(items, False)


# ----------------------------------------------------------------------------
# two link controllers, the frame pump, the scheduler
# ----------------------------------------------------------------------------
class Stack(object):
    MAX_ROUNDS = 4000

    def __init__(self, sx, miu_c, miu_s, client_role, agf=True, mac='pump'):
        self.sx = sx
        self.cfg = dict(LR_OPTIONS)
        self.S = coop.new_threaded(sx)
        self.S.MAX_WAITS = 100000
        self.saved = [(m, a, getattr(m, a)) for m, a in (
            (tco, 'threading'), (llcmod, 'threading'), (llcmod, 'random'),
            (nfc.snep.server, 'threading'), (nfc.handover.server, 'threading'),
            (nfc.snep.server, 'ndef'), (nfc.handover.server, 'ndef'),
            (nfc.handover.client, 'ndef'))]
        coop.install()
        nfc.snep.server.ndef = NdefStub
        adapter = NdefAdapter()
        nfc.handover.client.ndef = adapter
        nfc.handover.server.ndef = adapter
        self.L = {}
        for side, miu, peer in (('c', miu_c, miu_s), ('s', miu_s, miu_c)):
            L = llcmod.LogicalLinkController(sec=False, miu=miu, agf=agf)
            L.cfg['send-miu'] = peer
            L.cfg['recv-lto'] = 100
            L.cfg['llcp-dpc'] = 0
            L.cfg['send-wks'] = 0x13
            L.mac = None
            L.link.ESTABLISHED = True
            self.L[side] = L
        self.link_miu = {'c': miu_c, 's': miu_s}
        self.order = ('c', 's') if client_role == 'ini' else ('s', 'c')
        self.announced = {}         # (side, sap) -> MIU that socket announced
        self.frames = {'c': [], 's': []}    # (name, info length) sent by side
        self.ipdus = {'c': 0, 's': 0}
        self.cycles = 0
        self.adopted = 0
        self.nserve = 0
        self.dep = None
        self.moved = False
        if mac == 'dep':
            self.start_dep()

    def close(self):
        if self.dep is not None:
            self.dep['air'].abort()
        self.S.current = 'setup'
        self.S.shutdown()
        for m, a, v in self.saved:
            setattr(m, a, v)
        coop.new_sched(self.sx)

    # ---- the link
    def note(self, side, q):
        """PDU q (as decoded by the receiver) sent by `side`"""
        sx = self.sx
        other = 's' if side == 'c' else 'c'
        if q.name in ("CONNECT", "CC"):
            self.announced[(side, q.ssap)] = q.miu
        if q.name == "I":
            self.ipdus[side] += 1
            lim = self.announced.get((other, q.dsap))
            if lim is None:
                sx.check(False, "stack:i-pdu-for-unconnected-sap")
            sx.check(len(q.data) <= lim,
                     "stack:i-pdu-exceeds-announced-recv-miu")
        if q.name == "FRMR":
            sx.check(False, "stack:frame-reject-on-the-link")

    def outbound(self, side, symm=False):
        """what `side` sends next: -> encoded frame or None (nothing but
        SYMM; with symm=True the SYMM PDU is encoded)"""
        sx = self.sx
        other = 's' if side == 'c' else 'c'
        p = self.L[side].collect()
        if p is None:
            return pdu.encode(pdu.Symmetry()) if symm else None
        frame = pdu.encode(p)
        info = len(frame) - p.header_size
        self.frames[side].append((p.name, info))
        sx.check(info <= self.link_miu[other],
                 "stack:frame-exceeds-peer-link-miu:" + p.name)
        self.moved = True
        return frame

    def inbound(self, side, frame):
        """`side` receives a frame sent by the other side"""
        other = 's' if side == 'c' else 'c'
        q = pdu.decode(frame)
        if q.name == "SYMM":
            return
        if q.name == "AGF":
            self.sx.reach("stack:aggregated-frame")
        for x in (q if q.name == "AGF" else [q]):
            self.note(other, x)
        self.L[side].dispatch(q)

    def cycle(self):
        self.cycles += 1
        self.moved = False
        ini, tgt = self.order
        try:
            if self.dep is None:
                for a, b in ((ini, tgt), (tgt, ini)):
                    frame = self.outbound(a)
                    if frame is not None:
                        self.inbound(b, frame)
            else:
                # the initiator's frame goes through the real NFC-DEP pair;
                # the target's half of the cycle runs inside (target_half)
                frame = self.outbound(ini, symm=True)
                rsp = self.dep['ini'].exchange(frame, 2.0)
                self.dep_frames = len(self.dep['air'].frames)
                self.inbound(ini, rsp)
        except coop.LinkBlocked as e:
            self.sx.check(False, "stack:link-thread-blocked:" + e.site)
        return self.moved

    # ---- mac=dep: real nfc.dep.Initiator / Target over env.air (lossless)
    def start_dep(self):
        sx = self.sx
        self.saved.append((nfc.dep, 'os', nfc.dep.os))
        nfc.dep.os = _FixedOs
        air = Air(sx, tech='106A', max_faults=0, max_frames=20000)
        # each device drops NFC-DEP frames longer than the LR it announced
        air.enforce_lr = True
        lri, lrt = self.cfg.get('lri', 3), self.cfg.get('lrt', 3)
        ini = nfc.dep.Initiator(IniClf(air))
        tgt = nfc.dep.Target(TgtClf(air))
        self.dep = dict(air=air, ini=ini, tgt=tgt, end=None)
        tside = self.order[1]

        def target_stack():
            if tgt.activate(timeout=1.0, lrt=lrt, rwt=8,
                            gbt=b"Ffm\x01\x01\x11") is None:
                self.dep['end'] = "not-activated"
                return
            rsp = None
            while True:
                try:
                    req = tgt.exchange(rsp, 30.0)
                except nfc.clf.CommunicationError as e:
                    self.dep['end'] = type(e).__name__
                    return
                if req is None:
                    self.dep['end'] = "None"
                    return
                self.inbound(tside, req)
                rsp = self.outbound(tside, symm=True)
        air.start_target(target_stack)
        gb = ini.activate(None, brs=0, lri=lri, acm=False,
                          gbi=b"Ffm\x01\x01\x11")
        if gb is None:
            sx.check(False, "stack:dep-activation-failed")
        # the DEP_REQ that ends the target's listen(): one SYMM exchange
        self.cycle()
        sx.reach("stack:dep-activated")

    # ---- the scheduler
    def adopt(self):
        """threads started by the server's listen thread"""
        S = self.S
        while self.adopted < len(S.spawned):
            t = S.spawned[self.adopted]
            self.adopted += 1
            self.nserve += 1
            S.spawn("serve%d" % self.nserve, t.run)

    def run(self, lagger, lag, until):
        """let threads and link run until nothing moves and until() holds.
        lagger: prefix of the thread name that lags, or None"""
        S, sx = self.S, self.sx
        waited = {}
        for rnd in range(self.MAX_ROUNDS):
            moved = False
            self.adopt()
            for name in S.runnable():
                if lagger and name.startswith(lagger) and lag and \
                        S.threads[name].state == 'parked':
                    waited[name] = waited.get(name, 0) + 1
                    if waited[name] <= lag:
                        sx.reach("stack:reader-lags")
                        continue
                waited[name] = 0
                self.go(name)
                moved = True
                self.adopt()
            S.current = 'link'
            if self.cycle():
                moved = True
            if moved:
                continue
            late = [n for n in S.runnable()]
            if late:
                for n in late:
                    waited[n] = lag + 1
                continue
            if until():
                return
            timed = [n for n in S.parked() if S.threads[n].timed]
            if timed:
                sx.reach("stack:time-out-fired")
                self.go(timed[0], timeout=True)
                continue
            blocked = ["%s@%s" % (n.rstrip("0123456789"), S.threads[n].site)
                       for n in S.parked()]
            sx.check(False, "stack:blocked:" + "+".join(blocked))
        sx.check(False, "stack:does-not-quiesce")

    def go(self, name, timeout=False):
        S = self.S
        S.current = 'link'
        S.run(name, timeout=timeout)

    def result(self, name):
        rec = self.S.threads[name]
        if rec.state != 'done':
            return ['blocked', rec.site]
        e = rec.exc
        if e is None:
            return ['ret', rec.result]
        if isinstance(e, coop.CoopSignal):
            self.sx.check(False, "stack:%s:%s" % (type(e).__name__, name))
        if isinstance(e, nfc.llcp.Error):
            return ['err', errno.errorcode.get(e.errno, str(e.errno))]
        self.sx.check(False, "stack:thread-raises:%s:%s" % (
            name.rstrip("0123456789"), exc_label(e)[len("uncaught:"):]))

    def finish(self):
        """the exchange is over: both links end; every thread must return"""
        S, sx = self.S, self.sx
        S.current = 'link'
        for side in ('c', 's'):
            self.L[side].terminate(reason="harness: end of exchange")
        for rnd in range(200):
            self.adopt()
            ready = S.runnable()
            if not ready:
                break
            for n in ready:
                self.go(n)
        left = S.parked()
        if left:
            sx.check(False, "stack:left-waiting-after-link-end:" + "+".join(
                "%s@%s" % (n.rstrip("0123456789"), S.threads[n].site)
                for n in left))
        for n in sorted(S.threads):
            r = self.result(n)
            if n not in ('client', 'resolver') and \
                    r not in (['ret', None], ['err', 'EPIPE']):
                sx.check(False, "stack:server-thread-ends-abnormally:%s"
                         % n.rstrip("0123456789"))
        sx.reach("stack:all-threads-returned")
        if max(self.ipdus.values()) > 16:
            sx.reach("stack:sequence-numbers-wrap")
        if self.dep is not None:
            air = self.dep['air']
            chained = [f for f in air.frames if f.kind == "INF+"]
            if len([f for f in chained if f.sender == 'I']) >= 2:
                sx.reach("stack:dep-chained-request")
            if len([f for f in chained if f.sender == 'T']) >= 2:
                sx.reach("stack:dep-chained-response")
            self.dep['ini'].deactivate(release=True)
            air.field_off()
            sx.check(self.dep['end'] == "None", "stack:dep-target-ends-abnormally")


def exchange(sx, st, client_body, lagger, lag, sd=None):
    """client thread + the server's listen thread; -> result of the client.
    sd: service name another thread of the client device resolves meanwhile
    (real service discovery; its SNL PDUs share frames with the connection)"""
    S = st.S
    S.spawn('client', client_body)
    if sd:
        S.spawn('resolver', lambda: st.L['c'].resolve(sd))
    S.current = 'link'
    st.run(lagger, lag, lambda: S.threads['client'].state == 'done' and
           (not sd or S.threads['resolver'].state == 'done'))
    r = st.result('client')
    if sd:
        want = st.L['s'].snl.get(sd, 0)
        sx.check(st.result('resolver') == ['ret', want],
                 "stack:resolve-returns-wrong-address")
        sx.reach("stack:service-resolved")
    # the server side comes to rest (connection released)
    st.run(lagger, lag, lambda: True)
    serving = [n for n in S.parked() if n.startswith('serve')]
    if serving:
        sx.check(False, "stack:serve-thread-still-blocked-after-close:" +
                 S.threads[serving[0]].site)
    return r


# ----------------------------------------------------------------------------
# scenarios
# ----------------------------------------------------------------------------
def pick_cfg(sx, cfgs):
    """cfgs: list of dicts(miu_c, miu_s, rw, srv_miu, role, lagger, lag)"""
    return sx.pick("cfg", cfgs)


def snep_put(sx, cfgs, lens_options, limit):
    cfg = pick_cfg(sx, cfgs)
    lens = sx.pick("lens", lens_options)
    LR_OPTIONS.clear()
    LR_OPTIONS.update(lri=cfg.get('lri', 3), lrt=cfg.get('lrt', 3))
    st = Stack(sx, cfg['miu_c'], cfg['miu_s'], cfg['role'],
               mac=cfg.get('mac', 'pump'))
    try:
        return _snep_put(sx, st, cfg, lens, limit)
    finally:
        st.close()


def _snep_put(sx, st, cfg, lens, limit):
    S = st.S
    n0 = lens[0]
    max_len = n0 + limit if limit is not None else 0x100000
    eff = min(cfg['miu_s'], cfg['srv_miu'])
    server = Server(st.L['s'], max_len, cfg['srv_miu'], cfg['rw'], b"")
    lsock = server._coop_args[-1]
    S.spawn('listen', lambda: server._listen(lsock))
    msgs = [content(sx, "m%d" % i, n, eff) for i, n in enumerate(lens)]
    persistent = len(lens) > 1

    def client():
        c = nfc.snep.client.SnepClient(st.L['c'])
        out = []
        if persistent:
            c.connect("urn:nfc:sn:snep")
        for m in msgs:
            try:
                out.append(c.put_octets(m))
            except nfc.snep.client.SnepError as e:
                out.append(("err", e.errno))
        if persistent:
            c.close()
        return out
    r = exchange(sx, st, client, cfg['lagger'], cfg['lag'],
                 b"urn:nfc:sn:snep" if cfg['sd'] else None)
    if r[0] != 'ret':
        sx.check(False, "stack:put:client-%s" % r[0])
    results = r[1]
    expect = []
    for i, m in enumerate(msgs):
        if len(m) > max_len:
            sx.reach("stack:put:refused")
            ok = (results[i] is False) or \
                (isinstance(results[i], tuple) and results[i][1] == 0xFF)
            sx.check(ok, "stack:put:excess-message-not-refused")
        else:
            sx.reach("stack:put:delivered")
            sx.check(results[i] is True, "stack:put:result-not-true")
            expect.append(m)
    sx.check(len(server.seen) == len(expect),
             "stack:put:handler-calls-differ-from-accepted-messages")
    for got, exp in zip(server.seen, expect):
        sx.check(got[0] == "put" and same(sx, got[1], exp),
                 "stack:put:handler-octets-differ")
    if st.ipdus['c'] > len(msgs) + 1:
        sx.reach("stack:put:fragmented")
    if st.ipdus['c'] > cfg['rw'] + 2:
        sx.reach("stack:more-fragments-than-window")
    st.finish()
    return dict(results=results, frames_c=len(st.frames['c']),
                frames_s=len(st.frames['s']), ic=st.ipdus['c'],
                cycles=st.cycles)


def snep_get(sx, cfgs, len_options, accept, repeat=1):
    """repeat > 1: that many GETs over one kept-open connection"""
    cfg = pick_cfg(sx, cfgs)
    nreq, nrsp = sx.pick("lens", len_options)
    LR_OPTIONS.clear()
    LR_OPTIONS.update(lri=cfg.get('lri', 3), lrt=cfg.get('lrt', 3))
    st = Stack(sx, cfg['miu_c'], cfg['miu_s'], cfg['role'],
               mac=cfg.get('mac', 'pump'))
    try:
        return _snep_get(sx, st, cfg, nreq, nrsp, accept, repeat)
    finally:
        st.close()


def _snep_get(sx, st, cfg, nreq, nrsp, accept, repeat=1):
    S = st.S
    rsp = content(sx, "rsp", nrsp, 128)
    req = content(sx, "req", nreq, min(cfg['miu_s'], cfg['srv_miu']))
    server = Server(st.L['s'], 0x100000, cfg['srv_miu'], cfg['rw'], rsp)
    lsock = server._coop_args[-1]
    S.spawn('listen', lambda: server._listen(lsock))
    acceptable = nrsp + accept if accept is not None else 1024 + nrsp

    def client():
        c = nfc.snep.client.SnepClient(st.L['c'], acceptable)
        if repeat > 1:
            c.connect("urn:nfc:sn:snep")
        out = []
        for k in range(repeat):
            try:
                out.append(c.get_octets(req))
            except nfc.snep.client.SnepError as e:
                out.append(("err", e.errno))
        if repeat > 1:
            c.close()
        return out
    r = exchange(sx, st, client, cfg['lagger'], cfg['lag'],
                 b"urn:nfc:sn:nothing" if cfg['sd'] else None)
    if r[0] != 'ret':
        sx.check(False, "stack:get:client-%s" % r[0])
    sx.check(len(server.seen) == repeat,
             "stack:get:handler-not-called-exactly-once")
    for seen in server.seen:
        sx.check(seen[0] == "get" and same(sx, seen[1], req),
                 "stack:get:handler-octets-differ")
    for got in r[1][:-1]:
        if isinstance(got, tuple) or got is None:
            sx.check(False, "stack:get:no-response-octets")
        sx.check(same(sx, got, rsp), "stack:get:response-octets-differ")
    got = r[1][-1]
    if nrsp > acceptable:
        sx.reach("stack:get:excess-data")
        sx.check(isinstance(got, tuple) and got[1] == 0xC1,
                 "stack:get:excess-response-not-reported")
    else:
        sx.reach("stack:get:returned")
        if isinstance(got, tuple) or got is None:
            sx.check(False, "stack:get:no-response-octets")
        sx.check(same(sx, got, rsp), "stack:get:response-octets-differ")
    if st.ipdus['s'] > 2:
        sx.reach("stack:get:response-fragmented")
    if st.ipdus['s'] > 3:
        sx.reach("stack:more-fragments-than-window")
    st.finish()
    return dict(frames_c=len(st.frames['c']), frames_s=len(st.frames['s']),
                i_s=st.ipdus['s'], cycles=st.cycles)


def handover(sx, cfgs, options):
    """options: [[request pad, response pad], ...] per connection"""
    cfg = pick_cfg(sx, cfgs)
    pads = sx.pick("pads", options)
    LR_OPTIONS.clear()
    LR_OPTIONS.update(lri=cfg.get('lri', 3), lrt=cfg.get('lrt', 3))
    st = Stack(sx, cfg['miu_c'], cfg['miu_s'], cfg['role'],
               mac=cfg.get('mac', 'pump'))
    try:
        return _handover(sx, st, cfg, pads)
    finally:
        st.close()


def _handover(sx, st, cfg, pads):
    S = st.S
    requests = [encode(handover_message("Hr", a, 16 * i))
                for i, (a, b) in enumerate(pads)]
    responses = [handover_message("Hs", b, 16 * i + 7)
                 for i, (a, b) in enumerate(pads)]
    server = HoServer(st.L['s'], cfg['srv_miu'], cfg['rw'], responses)
    lsock = server._coop_args[-1]
    S.spawn('listen', lambda: server.listen(st.L['s'], lsock))

    def client():
        c = nfc.handover.client.HandoverClient(st.L['c'])
        c.connect(recv_miu=cfg['cli_miu'], recv_buf=cfg['cli_rw'])
        sent, got = [], []
        for q in requests:
            sent.append(c.send_octets(q))
            got.append(c.recv_octets(timeout=1.0))
        c.close()
        return [sent, got]
    r = exchange(sx, st, client, cfg['lagger'], cfg['lag'],
                 b"urn:nfc:sn:handover" if cfg['sd'] else None)
    if r[0] != 'ret':
        sx.check(False, "stack:handover:client-%s" % r[0])
    sent, got = r[1]
    for i, q in enumerate(requests):
        which = "first" if i == 0 else "later"
        sx.check(sent[i] is True, "stack:handover:send_octets-not-true:" + which)
        sx.check(len(server.seen) > i and server.seen[i] == q,
                 "stack:handover:request-not-delivered-intact:" + which)
        sx.check(got[i] is not None and
                 bytes(got[i]) == encode(responses[i]),
                 "stack:handover:response-not-returned-intact:" + which)
    sx.check(len(server.seen) == len(requests),
             "stack:handover:handler-calls-differ-from-requests")
    sx.reach("stack:handover:exchanged")
    if st.ipdus['s'] > cfg['cli_rw'] + 1:
        sx.reach("stack:more-fragments-than-window")
    st.finish()
    return dict(frames_c=len(st.frames['c']), frames_s=len(st.frames['s']),
                i_c=st.ipdus['c'], i_s=st.ipdus['s'], cycles=st.cycles)


LR_OPTIONS = {}        # lri / lrt of the mac=dep activation (set from the cfg)


# ----------------------------------------------------------------------------
def cfg(miu_c=128, miu_s=128, rw=15, srv_miu=1984, role='ini', lagger=None,
        lag=0, cli_miu=248, cli_rw=2, sd=0, mac='pump', lri=3, lrt=3):
    return dict(miu_c=miu_c, miu_s=miu_s, rw=rw, srv_miu=srv_miu, role=role,
                lagger=lagger, lag=lag, cli_miu=cli_miu, cli_rw=cli_rw, sd=sd,
                mac=mac, lri=lri, lrt=lrt)


def with_sd(cfgs):
    """the prompt schedules once more with a concurrent service discovery"""
    return cfgs + [dict(c, sd=1) for c in cfgs if c['lagger'] is None]


def partitions(tier):
    parts = []
    quick = tier == "quick"

    def add(fn, name, **kw):
        kw['cfgs'] = with_sd(kw['cfgs'])
        parts.append(dict(name="stack:%s:%s" % (fn, name),
                          fn="stack_" + fn, params=kw))
    lags = [(None, 0), ('serve', 2), ('client', 2)]
    if not quick:
        lags += [('serve', 5), ('client', 1), ('client', 5)]
    roles = ('ini', 'tgt')
    # ---- SNEP PUT: link MIU 128, server window 1 / 2 / 15
    for rw in (1, 2, 15):
        cfgs = [cfg(rw=rw, role=r, lagger=lg, lag=n)
                for r in roles for lg, n in lags]
        ns = [0, 122, 123, 250, 251, 379, 640] if quick else \
            [0, 1, 121, 122, 123, 249, 250, 251, 378, 379, 506, 640, 1300]
        add("snep_put", "128:rw%d" % rw, cfgs=cfgs,
            lens_options=[[n] for n in ns], limit=None)
    cfgs = [cfg(rw=2, role=r, lagger=lg, lag=n) for r in roles
            for lg, n in lags[:2]]
    add("snep_put", "128:two", cfgs=cfgs, limit=None,
        lens_options=[[3, 300], [300, 3], [251, 250]])
    for lim in (-1, 0):
        add("snep_put", "128:limit%d" % lim, cfgs=cfgs, limit=lim,
            lens_options=[[5], [122], [123], [400]])
    # other link MIUs: 248 / 2175, asymmetric, server socket MIU below the link
    for mc, ms, sm in ((248, 248, 1984), (2175, 2175, 1984), (128, 248, 200),
                       (2175, 128, 1984)):
        cfgs = [cfg(miu_c=mc, miu_s=ms, srv_miu=sm, rw=2, role=r, lagger=lg,
                    lag=n) for r in roles for lg, n in lags[:2]]
        e = min(ms, sm)
        ns = [e - 6, e - 5, 2 * e - 6, 2 * e - 5, 3 * e + 1]
        if not quick:
            ns += [0, e - 7, 3 * e - 6, 3 * e - 5, 5 * e]
        add("snep_put", "%d-%d-%d" % (mc, ms, sm), cfgs=cfgs,
            lens_options=[[n] for n in ns], limit=None)
    # ---- SNEP GET: the client socket has MIU 128 and RW 1 (no parameters)
    for mc in (128, 248):
        cfgs = [cfg(miu_c=mc, miu_s=128, rw=2, role=r, lagger=lg, lag=n)
                for r in roles for lg, n in lags]
        ns = [0, 122, 123, 250, 400] if quick else \
            [0, 1, 121, 122, 123, 250, 251, 378, 400, 900]
        add("snep_get", "%d" % mc, cfgs=cfgs, accept=None,
            len_options=[[3, n] for n in ns] + [[200, 7], [300, 300]])
        add("snep_get", "%d:accept" % mc, cfgs=cfgs[:4], accept=-1,
            len_options=[[3, 5], [3, 200]])
    # ---- handover: client socket recv_miu / recv_buf are arguments
    for cm, cr in ((128, 1), (128, 2), (248, 2), (248, 15)):
        cfgs = [cfg(miu_c=248, miu_s=248, rw=cr, srv_miu=cm, cli_miu=cm,
                    cli_rw=cr, role=r, lagger=lg, lag=n)
                for r in roles for lg, n in lags]
        a = cm - 53
        b = cm - 46
        opts = [[[0, 0]], [[a, b]], [[a + 1, 2 * b + 1]], [[2 * a + 1, 3 * b + 40]],
                [[40, 5 * cm]]]
        if not quick:
            opts += [[[a - 1, b - 1]], [[3 * a, b + 1]], [[a, 8 * cm]],
                     [[3 * cm, 3 * cm]]]
        add("handover", "%d:rw%d" % (cm, cr), cfgs=cfgs, options=opts)
    cfgs = [cfg(miu_c=248, miu_s=248, rw=2, srv_miu=128, cli_miu=128, cli_rw=1,
                role=r, lagger=lg, lag=n) for r in roles for lg, n in lags[:3]]
    add("handover", "two", cfgs=cfgs,
        options=[[[0, 0], [1, 1]], [[100, 300], [200, 130]]])
    # ---- more than 16 I PDUs in one direction of one connection: the
    # sequence numbers N(S)/N(R) wrap around
    prompt = [cfg(rw=1, role=r) for r in roles]
    add("snep_put", "wrap:rw1", cfgs=prompt, limit=None,
        lens_options=[[18 * 128 + 40]])
    add("snep_get", "wrap", cfgs=[cfg(rw=2, role=r) for r in roles],
        accept=None, len_options=[[3, 17 * 128 + 70]])
    for cr in (1, 2):
        add("handover", "wrap:rw%d" % cr, options=[[[10, 18 * 128]]],
            cfgs=[cfg(miu_c=248, miu_s=248, rw=cr, srv_miu=128, cli_miu=128,
                      cli_rw=cr, role=r) for r in roles])
    if not quick:
        lagging = [cfg(rw=15, role=r, lagger=lg, lag=n)
                   for r in roles for lg, n in lags[:4]]
        add("snep_put", "wrap:rw15", cfgs=lagging, limit=None,
            lens_options=[[33 * 128 + 9], [47 * 128 + 122]])
        kept = [cfg(rw=rw, role=r, lagger=lg, lag=n) for rw in (1, 15)
                for r in roles for lg, n in lags[:3]]
        add("snep_put", "wrap:18-puts", cfgs=kept, limit=None,
            lens_options=[[5] * 18, [3, 130, 1] * 6])
        add("snep_get", "wrap:18-gets", cfgs=kept, accept=None, repeat=18,
            len_options=[[3, 7], [2, 140]])
        add("snep_get", "wrap:lag", accept=None,
            cfgs=[cfg(rw=2, role=r, lagger=lg, lag=n) for r in roles
                  for lg, n in lags[1:4]],
            len_options=[[3, 20 * 128 + 1]])
        add("handover", "wrap:lag", options=[[[10, 20 * 128]], [[2400, 30]]],
            cfgs=[cfg(miu_c=248, miu_s=248, rw=1, srv_miu=128, cli_miu=128,
                      cli_rw=1, role=r, lagger=lg, lag=n) for r in roles
                  for lg, n in lags[1:4]])
    # ---- mac=dep: every LLC frame through the real NFC-DEP Initiator/Target
    # pair; link MIU 1024 / 2175 = 5 / 9 DEP frames of 251 octets per frame
    for m in (1024, 2175):
        cfgs = [cfg(miu_c=m, miu_s=m, rw=2, role=r, lagger=lg, lag=n,
                    mac='dep') for r in roles for lg, n in lags[:2]]
        e = min(m, 1984)
        ns = [e - 6, 2 * e + 40] if quick else \
            [5, e - 7, e - 6, e - 5, 2 * e + 40, 4 * e]
        add("snep_put", "dep:%d" % m, cfgs=cfgs,
            lens_options=[[n] for n in ns], limit=None)
    # ... with differing length reduction values (LR 254 one way, 128 the other)
    cfgs = [cfg(miu_c=248, miu_s=248, rw=2, role=r, mac='dep', lri=a, lrt=b)
            for r in roles for a, b in ((3, 1), (1, 3))]
    add("snep_put", "dep:lr", cfgs=cfgs, lens_options=[[242], [500]], limit=None)
    cfgs = [cfg(miu_c=2175, miu_s=2175, rw=2, srv_miu=1984, cli_miu=2175,
                cli_rw=2, role=r, lagger=lg, lag=n, mac='dep')
            for r in roles for lg, n in (lags[:1] + lags[2:3])]
    add("handover", "dep:2175", cfgs=cfgs,
        options=[[[700, 2300]], [[2500, 600]]] +
        ([] if quick else [[[1931, 2129]], [[5000, 5000]]]))
    if not quick:
        cfgs = [cfg(miu_c=1024, miu_s=1024, rw=2, role=r, mac='dep')
                for r in roles]
        add("snep_get", "dep:1024", cfgs=cfgs, accept=None,
            len_options=[[1100, 300], [3, 900]])
    return parts


stack_snep_put, stack_snep_get, stack_handover = snep_put, snep_get, handover


MUST_REACH = ["stack:put:delivered", "stack:put:fragmented",
              "stack:put:refused", "stack:get:returned",
              "stack:get:excess-data", "stack:get:response-fragmented",
              "stack:handover:exchanged", "stack:more-fragments-than-window",
              "stack:reader-lags", "stack:aggregated-frame",
              "stack:service-resolved", "stack:sequence-numbers-wrap",
              "stack:dep-activated",
              "stack:dep-chained-request", "stack:dep-chained-response",
              "stack:all-threads-returned"]
BOUNDS = {
    "quick": "full LLCP stack: two real LogicalLinkControllers joined by a frame pump (collect -> encode -> decode -> dispatch, aggregation on), client on the initiator and on the target side; SNEP client (socket MIU 128, RW 1 - it has no parameters) against a real SnepServer with recv_buf 1, 2, 15 and link MIU 128/128, 248/248, 2175/2175, 128/248 (server socket MIU 200 below the link MIU), 2175/128: PUT of 5-7 lengths around k*MIU-6 (k<=5, more fragments than the window), two PUTs on one connection, max_acceptable_length = length-1 / length; GET with responses of 0..400 octets (up to 4 fragments into RW 1), acceptable length below the response; handover client (recv_miu 128/248, recv_buf 1, 2, 15) and HandoverServer with requests/responses of 1..6 fragments, two requests on one connection; schedules: every thread runs as soon as it is notified, or the per-connection server thread / the client lags 2 link cycles behind every notification; SNEP octets all symbolic up to 260 octets, longer messages concrete non-periodic with up to 8 symbolic octets (first, last, both sides of the fragment boundaries), handover messages concrete; sequence wrap-around: one PUT of 19 fragments to a server with RW 1, one GET answer of 18 fragments into the client's RW 1, handover select messages of 18+ fragments into recv_buf 1 and 2 (prompt readers); mac=dep: three partitions (SNEP PUT at link MIU 1024 and 2175, handover at 2175 with client recv_miu 2175; client on initiator and on target; prompt and lagging reader) in which every LLC frame, SYMM included, passes through a real activated nfc.dep.Initiator.exchange / nfc.dep.Target.exchange pair over the lossless env.air (LR 254: 5 resp. 9 chained DEP frames per LLC frame in both directions)",
    "thorough": "as quick with more lengths (up to 8 fragments / 5*MIU), lags of 1, 2 and 5 cycles; sequence wrap-around also with RW 15 and 34 / 48 fragments, 18 PUTs and 18 GETs over one kept-open connection, lagging readers; mac=dep with more lengths and a SNEP GET partition",
}
OUTSIDE = ["the drivers below NFC-DEP (C13) and NFC-DEP faults (loss, corruption, retransmission: C04): the frame pump and, in the mac=dep partitions, the air are lossless and strictly alternating; NFC-DEP only at 106A passive, LR 254, without DID/NAD",
           "preemption of application threads anywhere but where they block; several clients at once; more than one lagging thread",
           "LLCP security; link MIU values other than 128, 248, 2175"]
ASSUMPTIONS = ["env.coop.ThreadSched: application threads are OS threads in strict alternation with the main thread (link + scheduler); a thread runs when notified (the lagging one `lag` link cycles later); a poll() time-out fires only when no thread is runnable and the link has nothing but SYMM to move",
               "one link cycle = collect()/dispatch() in the order of the two run loops (initiator first); the run loops themselves (SYMM counting, delays) are not executed; at the end both controllers are terminated directly",
               "mac=dep: the target's half of a link cycle (dispatch, collect) runs in the target stack thread of env.air inside the initiator's exchange(); both MACs are activated through their real activate() against env.air (IniClf.sense / ListenStub), nfc.dep's os.urandom is a fixed pattern",
               "ndef inside nfc.snep.server replaced by pass-through stubs; the handover modules get ndeflib through an adapter (concrete octets)"]
