"""C01 - NDEF write then read round-trips on every tag type and layout."""
from harness import worlds, ndefflow

PROPERTY = "C01"


def t2(sx, S, prefix, rsv, oldlens, lens, long, nxp=None, rsv_on_len=False, plen=(), concrete=False,
       again=None, overlap=False, extra=None):
    oldlen = sx.pick("oldlen", oldlens)
    worlds.OVERLAPPING_ENCODINGS[0] = bool(overlap)
    kw = {}
    if extra is not None:
        # physical memory ends `extra` bytes behind the data area (0: the
        # 64 byte static tag; pages behind it are answered with NAK)
        kw["extra"] = extra
        sx.reach("memory_ends_with_data_area")
    w = worlds.T2World(sx, S, prefix, [tuple(r) for r in rsv], oldlen,
                       old_lt_80=long, nxp=nxp, rsv_on_len=rsv_on_len, plen=plen,
                       symbolic_window=(0, 0) if concrete else None, **kw)
    if w.hdr_rsv:
        # reserved bytes between the T, L and V bytes of a TLV or inside a
        # TLV that is jumped over: labels of their own (known finding)
        w.kind += "+rsv-in-tlv-header"
    if nxp is not None:
        sx.reach("nxp_vendor_class")
    w.long_trick = long
    w.again = again
    n = sx.pick("n", [x for x in lens_for(w.cap, lens)])
    return ndefflow.roundtrip(sx, w, n)


def t1(sx, hr, size, prefix, rsv, oldlens, lens, long, rsv_on_len=False, plen=(), concrete=False,
       again=None, overlap=False):
    oldlen = sx.pick("oldlen", oldlens)
    worlds.OVERLAPPING_ENCODINGS[0] = bool(overlap)
    if overlap:
        sx.reach("ctl_tlv_byte_offset_beyond_page_size")
    w = worlds.T1World(sx, tuple(hr), size, prefix, [tuple(r) for r in rsv], oldlen,
                       old_lt_80=long, phys=512 if size == 296 else None,
                       rsv_on_len=rsv_on_len, plen=plen,
                       symbolic_window=(0, 0) if concrete else None)
    if w.hdr_rsv:
        w.kind += "+rsv-in-tlv-header"
    w.long_trick = long
    w.again = again
    n = sx.pick("n", [x for x in lens_for(w.cap, lens)])
    return ndefflow.roundtrip(sx, w, n)


def t3(sx, nbr, nbw, nmaxb, oldlens, lens, emulated, ic_code=0xEE, concrete=False, again=None):
    oldlen = sx.pick("oldlen", [o for o in oldlens if o <= nmaxb * 16])
    w = worlds.T3World(sx, nbr, nbw, nmaxb, oldlen, emulated=emulated, ic_code=ic_code,
                       fill=0x21 if concrete else None)
    w.concrete_msg = concrete
    w.again = again
    if again is not None:
        w.long_trick = True
    if ic_code != 0xEE:
        sx.reach("felica_vendor_class")
    n = sx.pick("n", [x for x in lens_for(w.cap, lens)])
    return ndefflow.roundtrip(sx, w, n)


def t4(sx, ver, mle, mlc, mfs, oldlens, lens, typ, fsci, aid_v=2, again=None, fid=0xE104, more_tlvs=()):
    oldlen = sx.pick("oldlen", oldlens)
    mle = sx.int("mle", mle[0], mle[1])
    mlc = sx.int("mlc", mlc[0], mlc[1])
    w = worlds.T4World(sx, ver, mle, mlc, mfs, oldlen, typ=typ, fsci=fsci, aid_v=aid_v,
                       fid=fid, more_tlvs=[tuple(t) for t in more_tlvs])
    if fid != 0xE104:
        sx.reach("t4_other_file_identifier")
    w.again = again
    if again is not None:
        w.long_trick = True
    n = sx.pick("n", [x for x in lens_for(w.cap, lens)])
    return ndefflow.roundtrip(sx, w, n)


def lens_for(cap, lens, slack=1):
    out = []
    for x in lens:
        if isinstance(x, str):
            x = cap + int(x[3:] or 0) if x.startswith("cap") else int(x)
        if 0 <= x <= cap + slack and x not in out:
            out.append(x)
    return out


T2_LAYOUTS_48 = [
    ("", []),
    ("N", []),
    ("NN", []),
    ("L", [(64, 2)]),                 # dynamic lock bytes right behind the data area
    ("L", [(23, 1)]),                 # first value byte
    ("M", [(26, 2)]),                 # inside a short message
    ("M", [(21, 2)]),                 # where the NDEF TLV would start
    ("M", [(60, 4)]),                 # last bytes of the data area
    ("M", [(40, 9)]),
    ("NL", [(64, 2)]),
    ("LM", [(64, 2), (36, 8)]),
    ("ML", [(30, 1), (66, 1)]),
    ("LNM", [(72, 1), (33, 2)]),
    # more than one control TLV of a kind
    ("MM", [(36, 2), (48, 3)]),
    ("LLM", [(64, 2), (66, 1), (40, 8)]),
]


THOROUGH_ONLY = ("LLM",)        # 4 x 4 x 5 encodings of the control TLVs


def partitions(tier):
    parts = []
    for i, (prefix, rsv) in enumerate(T2_LAYOUTS_48):
        if tier == "quick" and prefix in THOROUGH_ONLY:
            continue
        olds = [0, 3] if tier == "quick" else [0, 1, 3, 7]
        # unrestricted contents for short messages (the write-back skipping
        # paths), separated old/new value ranges for the rest
        parts.append(dict(name="t2:48:%s:%d:free" % (prefix or "-", i), fn="t2",
                          params=dict(S=48, prefix=prefix, rsv=rsv, oldlens=olds,
                                      lens=[0, 1, 2, 3] if tier == "quick" else [0, 1, 2, 3, 4, 5, 6],
                                      long=False)))
        lens = [5, 8, 11, 14, "cap-1", "cap", "cap+1"] if tier == "quick" \
            else list(range(4, 47)) + ["cap+1"]
        parts.append(dict(name="t2:48:%s:%d:sep" % (prefix or "-", i), fn="t2",
                          params=dict(S=48, prefix=prefix, rsv=rsv, oldlens=olds,
                                      lens=lens, long=True)))
    # the tag's memory ends with the data area (the 64 byte static tag, a
    # 144 byte tag whose lock bytes are announced elsewhere): nothing behind
    # the last data byte may be touched, a NAK there fails the write
    for S, prefix, rsv in ((48, "", []), (48, "N", []), (128, "L", [(8, 2)])):
        parts.append(dict(name="t2:%d:%s:memory-ends-with-data-area" % (S, prefix or "-"), fn="t2",
                          params=dict(S=S, prefix=prefix, rsv=rsv, oldlens=[0, 3],
                                      lens=[0, 5, "cap-1", "cap", "cap+1"], long=True, extra=0)))
    # a reserved range that separates the NDEF TLV's T, L and V bytes
    # (TL: known finding, previous contents concrete so that the misread
    # length does not multiply the paths)
    for nm, rsv in (("TL", (22, 1)), ("LV", (23, 2))):
        parts.append(dict(name="t2:48:M:lenrsv:%s" % nm, fn="t2",
                          params=dict(S=48, prefix="M", rsv=[rsv], oldlens=[0, 3] if nm == "LV" else [3],
                                      lens=[0, 1, 5, "cap", "cap+1"] if nm == "LV" else [1],
                                      long=True, rsv_on_len=True, concrete=nm == "TL")))
    # proprietary TLVs (FDh) in front of the NDEF TLV; the last one with a
    # reserved range inside its value field
    for nm, prefix, rsv, plen in (("P0", "P", [], [0]), ("P3", "P", [], [3]), ("NPN", "NPN", [], [2]),
                                  ("PP", "PP", [], [1, 5]), ("LP", "LP", [(64, 2)], [4]),
                                  ("MP-rsv", "MP", [(24, 2)], [4])):
        known = nm == "MP-rsv"
        parts.append(dict(name="t2:48:prop:%s" % nm, fn="t2",
                          params=dict(S=48, prefix=prefix, rsv=rsv, plen=plen, oldlens=[3] if known else [0, 3],
                                      lens=[1] if known else [0, 1, 5, "cap", "cap+1"], long=True,
                                      rsv_on_len=True, concrete=known)))
    for S in ([496] if tier == "quick" else [496, 872, 2032]):
        for prefix, rsv in [("", []), ("L", [(896 if S == 872 else 16 + S, (S - 48 + 63) // 64)]),
                            ("NM", [(320, 8)])]:
            parts.append(dict(name="t2:%d:%s:long" % (S, prefix or "-"), fn="t2",
                              params=dict(S=S, prefix=prefix, rsv=rsv, oldlens=[0, 254, 255],
                                          lens=[253, 254, 255, 256, "cap-1", "cap", "cap+1"],
                                          long=True)))
            parts.append(dict(name="t2:%d:%s:short" % (S, prefix or "-"), fn="t2",
                              params=dict(S=S, prefix=prefix, rsv=rsv, oldlens=[0, 255],
                                          lens=[0, 1, 5], long=False)))
    # control TLVs whose size byte is 00h: 256 reserved bytes / 256 lock bits
    parts.append(dict(name="t2:872:M256", fn="t2",
                      params=dict(S=872, prefix="M", rsv=[(384, 256)], oldlens=[0],
                                  lens=[5, 370, 380, "cap", "cap+1"], long=True, concrete=True)))
    parts.append(dict(name="t2:872:L256", fn="t2",
                      params=dict(S=872, prefix="L", rsv=[(384, 32)], oldlens=[0],
                                  lens=[5, 370, 380, "cap", "cap+1"], long=True, concrete=True)))
    # room for the NDEF TLV on both sides of 254+3 bytes (where the capacity
    # calculation switches to the three-byte length format): a 264 byte data
    # area with 5..9 bytes of other TLVs in front
    pre264 = ["NNNNNN", "NNNNNNN", "LN", "LNN"]
    if tier != "quick":
        pre264 += ["NNNNN", "NNNNNNNN", "NNNNNNNNN", "L", "LNNN"]
    for prefix in pre264:
        parts.append(dict(name="t2:264:%s:edge" % prefix, fn="t2",
                          params=dict(S=264, prefix=prefix,
                                      rsv=[(288, 2)] if "L" in prefix else [],
                                      oldlens=[0, 200], lens=[253, 254, 255, 256, 257, "cap", "cap+1"],
                                      long=True)))
    # two sectors: a message that crosses the 1 KiB sector boundary (SECTOR SELECT
    # in the read and in the write path)
    parts.append(dict(name="t2:2032:-:sector", fn="t2",
                      params=dict(S=2032, prefix="", rsv=[], oldlens=[0], lens=[1003, 1004, 1100],
                                  long=True)))
    # ---- NXP products: the vendor class from activate() (GET_VERSION), with
    # the factory lock control TLV (dynamic lock bytes behind the data area)
    for nxp, rsv in (("NTAG213", (160, 2)), ("NTAG215", (520, 2)), ("NTAG216", (896, 2)),
                     ("MF0UL21", (144, 2)), ("NTAG203", (160, 2))):
        if tier == "quick" and nxp in ("NTAG216",):
            continue
        parts.append(dict(name="t2:%s:short" % nxp, fn="t2",
                          params=dict(S=0, prefix="L", rsv=[rsv], oldlens=[0, 3], lens=[0, 1, 4],
                                      long=False, nxp=nxp)))
        parts.append(dict(name="t2:%s:long" % nxp, fn="t2",
                          params=dict(S=0, prefix="L", rsv=[rsv], oldlens=[0],
                                      lens=[9, 254, 255, "cap-1", "cap", "cap+1"], long=True, nxp=nxp)))
    # ---- two writes through the same NDEF object, then a fresh read
    parts.append(dict(name="t2:48:LM:twice", fn="t2",
                      params=dict(S=48, prefix="LM", rsv=[(64, 2), (36, 8)], oldlens=[3], lens=[0, 9, "cap"],
                                  long=True, again=[0, 2, 12])))
    parts.append(dict(name="t2:496:NM:twice", fn="t2",
                      params=dict(S=496, prefix="NM", rsv=[(320, 8)], oldlens=[0], lens=[5, 254, 255, 300],
                                  long=True, again=[3, 254, 255, 256])))
    parts.append(dict(name="t1:dynamic:twice", fn="t1",
                      params=dict(hr=(0x12, 0x00), size=512, prefix="NLM", rsv=[(122, 6), (200, 9)],
                                  oldlens=[5], lens=[4, 254, 300], long=True, again=[3, 255, 260])))
    parts.append(dict(name="t1:static:twice", fn="t1",
                      params=dict(hr=(0x11, 0x48), size=120, prefix="M", rsv=[(40, 8)],
                                  oldlens=[5], lens=[0, 30, "cap"], long=True, again=[0, 7, 50])))
    parts.append(dict(name="t3:4:3:5:twice", fn="t3",
                      params=dict(nbr=4, nbw=3, nmaxb=5, oldlens=[17], lens=[0, 16, 33, "cap"], emulated=False,
                                  again=[0, 15, 17, 80])))
    parts.append(dict(name="t3emu:4:3:5:twice", fn="t3",
                      params=dict(nbr=4, nbw=3, nmaxb=5, oldlens=[17], lens=[16, 33], emulated=True,
                                  again=[0, 17, 80])))
    for ver in (0x20, 0x30):
        parts.append(dict(name="t4:%02x:twice" % ver, fn="t4",
                          params=dict(ver=ver, mle=[15, 15], mlc=[1, 9], mfs=24, oldlens=[3],
                                      lens=[0, 7, "cap"], typ="A", fsci=8, again=[0, 5, 20])))
    # ---- Type 1
    T1 = [("topaz", (0x11, 0x48), 120, "", []),
          ("static", (0x11, 0x00), 120, "N", []),
          ("static-m", (0x11, 0x48), 120, "M", [(40, 8)]),
          ("topaz512", (0x12, 0x4C), 512, "LM", [(122, 6), (120, 2)]),
          ("dynamic", (0x12, 0x00), 512, "NLM", [(122, 6), (200, 9)]),
          ("dynamic-bare", (0x12, 0x4C), 512, "", []),
          # dynamic memory tags other than Topaz-512 (HR0 = 1yh, y != 1, 2)
          ("dyn256:13", (0x13, 0x00), 256, "", []),
          ("dyn512:1f", (0x1F, 0x00), 512, "LM", [(122, 6), (120, 2)]),
          # 257 / 258 bytes left for the NDEF TLV (capacity calculation edge)
          ("dyn296:NNN", (0x13, 0x00), 296, "NNN", []),
          ("dyn296:NN", (0x13, 0x00), 296, "NN", [])]
    # proprietary TLVs on Type 1; on a dynamic tag one that ends right in
    # front of the reserved blocks 104..127 (NDEF TLV T at 103, L at 128) and
    # one that spans them
    for nm, hr, size, plen in (("static:P2", (0x11, 0x48), 120, [2]), ("dyn:P2", (0x12, 0x4C), 512, [2]),
                               ("dyn:P89", (0x12, 0x4C), 512, [89]), ("dyn:P95", (0x12, 0x4C), 512, [95])):
        known = plen[0] > 80
        parts.append(dict(name="t1:prop:%s" % nm, fn="t1",
                          params=dict(hr=hr, size=size, prefix="P", rsv=[], plen=plen, oldlens=[5] if known else [0, 5],
                                      lens=[1] if known else [0, 1, 9, "cap", "cap+1"], long=True,
                                      rsv_on_len=True, concrete=known)))
    parts.append(dict(name="t1:dyn1024:L256+M256", fn="t1",
                      params=dict(hr=(0x12, 0x00), size=1024, prefix="LM", rsv=[(128, 32), (512, 256)],
                                  oldlens=[0], lens=[9, 400, "cap", "cap+1"], long=True, concrete=True)))
    # control TLVs whose byte offset is not smaller than the page size (page
    # address and byte offset "overlap": address = page * 2^n + offset all the same)
    parts.append(dict(name="t1:dyn512:overlapping-encodings", fn="t1",
                      params=dict(hr=(0x12, 0x00), size=512, prefix="LM", rsv=[(128, 2), (130, 6)],
                                  oldlens=[0], lens=[9, 100, "cap", "cap+1"], long=True, concrete=True,
                                  overlap=True)))
    parts.append(dict(name="t2:496:overlapping-encodings", fn="t2",
                      params=dict(S=496, prefix="LM", rsv=[(130, 2), (200, 5)], oldlens=[0],
                                  lens=[9, 150, "cap", "cap+1"], long=True, concrete=True, overlap=True)))
    # the largest dynamic memory (TMS FFh, 2 KiB, sixteen segments): messages
    # that reach into the last segment (previous contents concrete)
    parts.append(dict(name="t1:dyn2048:last-segment", fn="t1",
                      params=dict(hr=(0x12, 0x00), size=2048, prefix="LM", rsv=[(122, 6), (120, 2)],
                                  oldlens=[0, 1900], lens=[1870, "cap-1", "cap", "cap+1"], long=True,
                                  concrete=True)))
    for name, hr, size, prefix, rsv in T1:
        parts.append(dict(name="t1:%s:free" % name, fn="t1",
                          params=dict(hr=hr, size=size, prefix=prefix, rsv=rsv, oldlens=[0, 2],
                                      lens=[0, 1, 2] if tier == "quick" else [0, 1, 2, 3, 4],
                                      long=False)))
        lens = [3, 9, "cap-1", "cap", "cap+1"]
        if size > 300:
            lens = [9, 100, 253, 254, 255, 256, "cap-1", "cap", "cap+1"]
        elif size == 296:
            lens = [253, 254, 255, 256, 257, "cap", "cap+1"]
        elif size > 120:
            lens = [9, 79, 80, 100, "cap-1", "cap", "cap+1"]
        if tier != "quick" and size == 120:
            lens = list(range(3, 92))
        parts.append(dict(name="t1:%s:sep" % name, fn="t1",
                          params=dict(hr=hr, size=size, prefix=prefix, rsv=rsv,
                                      oldlens=[0, 5] if size == 120 else ([0, 5, 200] if size < 400 else [0, 5, 255]),
                                      lens=lens, long=True)))
    # ---- Type 3 (and the library's own Type 3 Tag emulation as the tag)
    for emulated in (False, True):
        combos = [(1, 1, 1), (1, 1, 3), (4, 3, 5), (15, 13, 14), (3, 2, 4), (12, 8, 20),
                  (15, 13, 17)]        # one READ with the maximum of 15 blocks
        if tier != "quick":
            combos += [(nbr, nbw, 6) for nbr in (2, 5, 7, 15) for nbw in (1, 4, 6, 13)]
        for nbr, nbw, nmaxb in combos:
            parts.append(dict(name="t3%s:%d:%d:%d" % ("emu" if emulated else "", nbr, nbw, nmaxb),
                              fn="t3", params=dict(nbr=nbr, nbw=nbw, nmaxb=nmaxb, oldlens=[0, 5, 17],
                                                   lens=[0, 1, 15, 16, 17, 32, 224, 225, 241, "cap-1", "cap", "cap+1"],
                                                   emulated=emulated)))
    # a data area of 64 KiB and more: Ln needs its third byte (contents are
    # concrete here, the subject is the length arithmetic)
    parts.append(dict(name="t3:64k", fn="t3",
                      params=dict(nbr=15, nbw=12, nmaxb=4100, oldlens=[0], emulated=False,
                                  lens=[65535, 65536, "cap"], concrete=True)))
    # FeliCa Lite / Lite-S vendor classes (from the IC code in the polling response)
    for ic in (0xF0, 0xF1):
        parts.append(dict(name="t3:felica-lite:%02x" % ic, fn="t3",
                          params=dict(nbr=4, nbw=1, nmaxb=13, oldlens=[0, 17], emulated=False,
                                      lens=[0, 1, 16, 17, "cap-1", "cap", "cap+1"], ic_code=ic)))
    # ---- Type 4: MLe, MLc symbolic over their whole valid range (one at a
    # time for the large file; both for the small one)
    small = [(0x20, "A", 8), (0x30, "B", 5), (0x20, "A", 2)]
    if tier != "quick":
        small += [(0x30, "A", 8), (0x20, "B", 5), (0x30, "A", 2)]
    for ver, typ, fsci in small:
        parts.append(dict(name="t4:%02x:%s:%d:small" % (ver, typ, fsci), fn="t4",
                          params=dict(ver=ver, mle=[15, 0xFFFF], mlc=[1, 0xFFFF], mfs=16,
                                      oldlens=[0, 3], lens=[0, 1, 7, "cap", "cap+1"],
                                      typ=typ, fsci=fsci)))
    # other file identifiers than E104h; a proprietary file control TLV behind
    # the NDEF File Control TLV
    for fid, more in ((0x0001, []), (0xE105, [[0x05, 0x06, 0xE1, 0x06, 0x00, 0x08, 0x00, 0x00]]),
                      (0x8F3E, [])):
        for ver in (0x20, 0x30):
            parts.append(dict(name="t4:%02x:fid=%04X" % (ver, fid), fn="t4",
                              params=dict(ver=ver, mle=[15, 15], mlc=[1, 9], mfs=24, oldlens=[0, 3],
                                          lens=[0, 5, "cap", "cap+1"], typ="A", fsci=8, fid=fid,
                                          more_tlvs=more)))
    # NDEF application version 1 (AID ...00): selected after the version 2 AID failed
    parts.append(dict(name="t4:aid-v1", fn="t4",
                      params=dict(ver=0x10, mle=[15, 0xFFFF], mlc=[1, 0xFFFF], mfs=16, oldlens=[0, 3],
                                  lens=[0, 1, 7, "cap", "cap+1"], typ="A", fsci=8, aid_v=1)))
    parts.append(dict(name="t4:20:A:8:big:mlc", fn="t4",
                      params=dict(ver=0x20, mle=[255, 255], mlc=[250, 0xFFFF], mfs=300,
                                  oldlens=[0], lens=[256, "cap"], typ="A", fsci=8)))
    parts.append(dict(name="t4:20:A:8:big:mle", fn="t4",
                      params=dict(ver=0x20, mle=[250, 0xFFFF], mlc=[255, 255], mfs=300,
                                  oldlens=[0], lens=[256, "cap"], typ="A", fsci=8)))
    if tier != "quick":
        parts.append(dict(name="t3:big", fn="t3", params=dict(nbr=12, nbw=8, nmaxb=300, oldlens=[0],
                                                             lens=[4081, "cap"], emulated=False)))
    return parts


MUST_REACH = ["memory_ends_with_data_area", "t4_other_file_identifier", "ctl_tlv_byte_offset_beyond_page_size", "second_write_on_same_object", "second_write_changes_length_format", "oversize_rejected", "empty_message_written", "three_byte_length",
              "message_fills_capacity", "rsv_inside_message", "rsv_before_ndef_tlv",
              "rsv_beyond_data_area", "rsv_at_end_of_data_area", "rsv_after_message",
              "t1_message_spans_reserved_blocks", "nxp_vendor_class", "felica_vendor_class"]
BOUNDS = {
    "quick": "Type 2: data areas of 48 bytes (13 control-TLV layouts, lengths from boundary sets), 264 bytes with 5..9 bytes of TLVs in front (capacity edge at 254/255), 496 bytes (plain, lock TLV, NULL+memory TLV) with lengths around 254/255/256 and the capacity, one two-sector tag (2032 bytes) written across the sector boundary, NXP products NTAG213/215/203 and Ultralight EV1 through their vendor classes; Type 1: Topaz, static with NULL/memory TLV, Topaz-512, generic dynamic tags (HR0 12h/13h/1Fh; 256, 296, 512 bytes); Type 3: seven (Nbr, Nbw, Nmaxb) triples incl. Nbr 15, a 64 KiB data area, FeliCa Lite/Lite-S vendor classes, and the library's own Type 3 emulation as the tag; Type 4: mapping versions 2 and 3, Type 4A/4B, FSCI 2/5/8, MLe and MLc symbolic over 1..FFFFh, AID versions.  All message bytes and all previous tag contents symbolic (except the 64 KiB and sector-crossing partitions); added later: proprietary TLVs and two control TLVs of a kind, reserved ranges between T/L/V bytes (known finding), a 2 KiB Type 1 tag, two writes through one NDEF object, control TLVs with size byte 00h, control-TLV encodings whose byte offset reaches into the next pages, Type 4 files with identifiers other than E104h and further CC TLVs, Type 2 tags whose memory ends with the data area",
    "thorough": "as quick, plus every message length for the 48-byte Type 2 and 120-byte Type 1 areas, data areas 872/2032, more Type 3 triples, NTAG216, further Type 4 combinations"}
OUTSIDE = ["data area sizes and layouts other than listed", "more than two lock- or memory-control TLVs of a kind",
           "message contents of the 64 KiB / sector-crossing partitions (concrete there: the subject is the length and address arithmetic)"]
ASSUMPTIONS = ["a fresh activation finds a Type 2 tag with sector 0 selected", "the tag simulators of env/tags.py: plain memory, NAK beyond the physical size (which is larger than the declared data area where a partition says so), Type 4: ISO/IEC 14443-4 PICC rules + ISO/IEC 7816-4 NDEF application with strict Le/Lc/file-size checks",
               "capacity oracle: the harness computes what the layout it generated can hold (harness/worlds.py real_capacity)"]
