"""C17 - LLCP addressing: binding, discovery and delivery reach the right socket.

Real code executed: nfc.llcp.llc.LogicalLinkController (socket, bind and its
three variants, listen, accept, close, sendto, recvfrom, poll, resolve,
connect, collect, dispatch, getsockname), ServiceAccessPoint, ServiceDiscovery,
nfc.llcp.tco sockets, nfc.llcp.pdu.  Two controllers: A (under test, owns the
address table) and B (the remote device; a fresh one per exchange), linked by
B.collect() -> encode -> decode -> A.dispatch() and back.

Oracle: RefTable below - an address table written from the property text.
"""
import errno
from harness.util import same
from env import llcp as envl
import nfc.llcp
import nfc.llcp.llc as llcmod
import nfc.llcp.tco as tco
import nfc.llcp.pdu as pdu

envl.install()

PROPERTY = "C17"
DONTWAIT = nfc.llcp.MSG_DONTWAIT
LDL, DLC = nfc.llcp.LOGICAL_DATA_LINK, nfc.llcp.DATA_LINK_CONNECTION
RAW = llcmod.RAW_ACCESS_POINT
TYPES = {"LDL": LDL, "DLC": DLC, "RAW": RAW}

# name alphabet: (bytes, well-formed?, well-known address)
NAMES = {
    "snep": (b"urn:nfc:sn:snep", True, 4),
    "sdp": (b"urn:nfc:sn:sdp", True, 1),
    "a": (b"urn:nfc:sn:a", True, None),
    "b": (b"urn:nfc:xsn:b.org:svc", True, None),
    "c": (b"urn:nfc:sn:c-1_2", True, None),
    "bad1": (b"urn:nfc:sn:", False, None),
    "bad2": (b"urn:nfc:sn:9a", False, None),
    "bad3": (b"sn:a", False, None),
}


WKS_NAMES = [v[0] for v in NAMES.values() if v[2] is not None]


def filler(j):
    return b"urn:nfc:sn:fill%d" % j


# ----------------------------------------------------------------------------
# reference address table
# ----------------------------------------------------------------------------
class RefSock(object):
    def __init__(self, kind):
        self.kind = kind
        self.addr = None
        self.name = None
        self.open = True
        self.listen = False
        self.accepted = False
        self.peer = None
        self.dead = False   # shut down by the stack (frame reject), still bound


class RefTable(object):
    def __init__(self):
        self.owner = {0: [], 1: []}     # addr -> socket ids (0, 1: the stack)
        self.names = {NAMES["sdp"][0]: 1}
        self.socks = []
        self.released = set()           # names whose last socket was closed

    def new(self, kind):
        self.socks.append(RefSock(kind))
        return len(self.socks) - 1

    def free(self, lo, hi):
        return [a for a in range(lo, hi + 1) if a not in self.owner]

    def bound(self, i, addr, name=None):
        r = self.socks[i]
        r.addr, r.name = addr, name
        self.owner.setdefault(addr, []).append(i)
        if name is not None:
            self.names[name] = addr
            self.released.discard(name)

    def close(self, i):
        r = self.socks[i]
        r.open = False
        if r.addr is None:
            return
        self.owner[r.addr].remove(i)
        if not self.owner[r.addr]:
            del self.owner[r.addr]
            for n, a in list(self.names.items()):
                if a == r.addr and a != 1:
                    del self.names[n]
                    self.released.add(n)

    def at(self, addr):
        """open sockets bound at addr"""
        return [i for i in self.owner.get(addr, []) if i is not None]


class Net(object):
    def __init__(self, sx):
        self.sx = sx
        self.A = self.mk()
        self.ref = RefTable()
        self.socks = []
        self.nB = 0

    def mk(self):
        llc = llcmod.LogicalLinkController(sec=False)
        llc.cfg['send-miu'] = 248
        llc.cfg['send-agf'] = True
        return llc

    # ---- sockets
    def socket(self, tname):
        s = self.A.socket(TYPES[tname])
        if tname != "DLC":
            self.A.setsockopt(s, nfc.llcp.SO_RCVBUF, 2)
        self.socks.append(s)
        return self.ref.new(tname)

    def errno_of(self, fn, *args):
        """-> None on success, errno of nfc.llcp.Error otherwise"""
        try:
            fn(*args)
        except nfc.llcp.Error as e:
            return e.errno
        return None

    # ---- operations, each followed by the table invariants
    def bind_none(self, i, ctx="bind-none"):
        sx, ref = self.sx, self.ref
        s, r = self.socks[i], ref.socks[i]
        e = self.errno_of(self.A.bind, s)
        if r.addr is not None:
            sx.check(e is not None, ctx + ":bound-socket-bound-again")
            return "rebind-refused"
        free = ref.free(32, 63)
        if e is not None:
            sx.check(not free, ctx + ":refused-although-dynamic-address-free")
            sx.check(e == errno.EAGAIN, ctx + ":exhausted-but-not-EAGAIN")
            sx.reach("EAGAIN")
            return "EAGAIN"
        a = self.A.getsockname(s)
        sx.check(a is not None and a in free,
                 ctx + ":address-not-a-free-dynamic-one")
        ref.bound(i, a)
        return a

    def bind_addr(self, i, addr, ctx="bind-addr"):
        sx, ref = self.sx, self.ref
        s, r = self.socks[i], ref.socks[i]
        taken = sorted(ref.owner)
        is_taken = sx.any([addr == a for a in taken])
        in_range = sx.all([addr >= 0, addr <= 63])
        allowed = sx.any([addr >= 32, r.kind == "RAW"])
        e = self.errno_of(self.A.bind, s, addr)
        if r.addr is not None:
            sx.check(e is not None, ctx + ":bound-socket-bound-again")
            return "rebind-refused"
        if e is None:
            sx.check(in_range, ctx + ":accepted-out-of-range")
            sx.check(sx.neg(is_taken), ctx + ":accepted-taken-address")
            sx.check(allowed, ctx + ":accepted-reserved-address-for-non-raw")
            a = sx.concrete(addr)
            sx.check(self.A.getsockname(s) == a, ctx + ":bound-elsewhere")
            ref.bound(i, a)
            sx.reach("bind-addr-ok")
            return "ok"
        if e == errno.EFAULT:
            sx.check(sx.neg(in_range), ctx + ":EFAULT-for-valid-address")
        elif e == errno.EACCES:
            sx.check(sx.all([in_range, sx.neg(allowed)]),
                     ctx + ":EACCES-for-permitted-address")
        elif e == errno.EADDRINUSE:
            sx.check(sx.all([in_range, is_taken]),
                     ctx + ":EADDRINUSE-for-free-address")
        else:
            sx.check(False, ctx + ":unexpected-errno")
        sx.reach("bind-addr:" + errno.errorcode[e])
        return errno.errorcode[e]

    def bind_name(self, i, key, ctx="bind-name"):
        sx, ref = self.sx, self.ref
        s, r = self.socks[i], ref.socks[i]
        if isinstance(key, str) and key.startswith("__malformed__:"):
            name, valid, wka = key[len("__malformed__:"):].encode("latin1"), False, None
        elif isinstance(key, str):
            name, valid, wka = NAMES[key]
        else:
            name, valid, wka = key, True, None
        # (names "b"/"c" go in as text, the others as bytes)
        arg = name.decode("latin1") if key in ("b", "c") else name
        e = self.errno_of(self.A.bind, s, arg)
        if r.addr is not None:
            sx.check(e is not None, ctx + ":bound-socket-bound-again")
            return "rebind-refused"
        if not valid:
            sx.check(e is not None, ctx + ":malformed-name-accepted")
            sx.check(e == errno.EFAULT, ctx + ":malformed-name-not-EFAULT")
            sx.reach("bind-name:EFAULT")
            return "EFAULT"
        if name in ref.names:
            sx.check(e is not None, ctx + ":name-bound-twice")
            sx.check(e == errno.EADDRINUSE, ctx + ":name-in-use-not-EADDRINUSE")
            sx.reach("bind-name:EADDRINUSE")
            return "EADDRINUSE"
        late = ":name-of-closed-socket" if name in ref.released else ""
        if wka is not None:
            if wka in ref.owner:
                sx.check(e is not None,
                         ctx + ":well-known-address-handed-out-twice")
                sx.check(e == errno.EADDRINUSE,
                         ctx + ":well-known-address-in-use-not-EADDRINUSE")
                return "EADDRINUSE"
            sx.check(e is None, ctx + ":free-well-known-name-refused" + late)
            sx.check(self.A.getsockname(s) == wka,
                     ctx + ":well-known-name-not-at-its-address")
            ref.bound(i, wka, name)
            sx.reach("bind-name:well-known")
            return wka
        free = ref.free(16, 31)
        if not free:
            sx.check(e is not None, ctx + ":named-range-exhausted-but-bound")
            sx.reach("bind-name:exhausted")
            return "exhausted"
        sx.check(e is None, ctx + ":free-name-refused" + late)
        a = self.A.getsockname(s)
        sx.check(a is not None and a in free,
                 ctx + ":address-not-a-free-named-one")
        ref.bound(i, a, name)
        sx.reach("bind-name:ok")
        return a

    def listen(self, i):
        sx, ref = self.sx, self.ref
        s, r = self.socks[i], ref.socks[i]
        e = self.errno_of(self.A.listen, s, 2)
        if r.kind != "DLC":
            sx.check(e is not None, "listen:accepted-on-connectionless-socket")
            return "refused"
        if r.listen or r.accepted:
            sx.check(e is not None, "listen:accepted-twice")
            return "refused"
        if r.addr is None:
            free = ref.free(32, 63)
            if e is not None:
                sx.check(not free, "listen:refused-although-dynamic-address-free")
                return "EAGAIN"
            a = self.A.getsockname(s)
            sx.check(a is not None and a in free,
                     "listen:address-not-a-free-dynamic-one")
            ref.bound(i, a)
        else:
            sx.check(e is None, "listen:refused")
        r.listen = True
        return "ok"

    def close(self, i):
        sx, ref = self.sx, self.ref
        s, r = self.socks[i], ref.socks[i]
        try:
            self.A.close(s)
        except envl.WouldBlock:
            # connected socket: DISC is on its way; the application calls
            # close() again after the link exchange
            while self.A.collect() is not None:
                pass
            self.A.close(s)
        addr = r.addr
        ref.close(i)
        if addr is not None and addr not in ref.owner:
            sx.check(self.A.sap[addr] is None, "close:address-not-released")
            sx.reach("close:last-socket")
        elif addr is not None:
            sx.check(self.A.sap[addr] is not None,
                     "close:address-released-while-sockets-remain")
            sx.reach("close:not-last-socket")
        return "closed"

    def close_again(self, i):
        """close() of a socket that is closed already: whatever sits at its
        old address now is not its business (invariants() compares the
        table afterwards)"""
        sx, ref = self.sx, self.ref
        s, r = self.socks[i], ref.socks[i]
        if r.open:
            return "skip"
        try:
            self.A.close(s)
        except nfc.llcp.Error:
            pass
        sx.reach("close:again")
        return "closed-again"

    # ---- exchanges with the remote device
    def remote(self):
        self.nB += 1
        return self.mk()

    def transfer(self, src, dst, what):
        """all frames src has to send -> dst (through encode/decode)"""
        n = 0
        out = []
        while True:
            p = src.collect()
            if p is None:
                break
            out.append(p)
            dst.dispatch(pdu.decode(pdu.encode(p)))
            n += 1
            if n > 20:
                self.sx.check(False, what + ":link-does-not-quiesce")
        return out

    def pending(self, i):
        """is something waiting to be received on socket i (public poll for
        connection-less and raw sockets, the backlog for listening ones)"""
        s, r = self.socks[i], self.ref.socks[i]
        if r.kind == "DLC":
            return len(s.recv_queue) > 0
        return bool(self.A.poll(s, "recv", 0.0))

    def quiet_except(self, keep, what):
        for j, r in enumerate(self.ref.socks):
            if r.open and r.addr is not None and j != keep:
                self.sx.check(not self.pending(j),
                              what + ":delivered-to-wrong-socket")

    def datagram(self, dsap, lens, tag):
        """B sends len(lens) datagrams to address dsap of A"""
        sx, ref = self.sx, self.ref
        B = self.remote()
        sb = B.socket(LDL)
        B.bind(sb, 40)      # (connections come from B's address 32)
        src = B.getsockname(sb)
        msgs = [sx.bytes("%s.m%d" % (tag, j), n) for j, n in enumerate(lens)]
        for m in msgs:
            B.sendto(sb, m, dsap, DONTWAIT)
        self.transfer(B, self.A, "datagram")
        d = sx.concrete(dsap)
        return self.delivered(d, src, msgs, "datagram")

    def datagram_raw(self, dsap, ssap, n, tag):
        """a UI frame with arbitrary address octets arrives at A"""
        sx = self.sx
        m = sx.bytes(tag + ".m", n)
        peers = sorted(set(r.peer for r in self.ref.socks
                           if r.open and r.accepted and not r.dead))
        if peers:
            sx.assume(sx.all([ssap != p for p in peers]),
                      "no UI frame from the SSAP of an established connection "
                      "(DataLinkConnection.enqueue() then waits inside close() "
                      "in the link thread - a C07 matter)")
        frame = sx.mkbytes([(dsap << 2) | 0, 0xC0 | ssap] + list(m), False)
        self.A.dispatch(pdu.decode(frame))
        d = sx.concrete(dsap)
        return self.delivered(d, ssap, [m], "datagram-raw")

    def delivered(self, d, src, msgs, what):
        sx, ref = self.sx, self.ref
        target = [i for i in ref.at(d) if ref.socks[i].open]
        kinds = sorted(set(ref.socks[i].kind for i in target))
        if len(kinds) > 1:
            sx.check(False, what + ":different-socket-kinds-on-one-address")
        if not target or kinds[0] == "DLC":
            self.quiet_except(None, what)
            for i in target:
                # a connection-mode socket answers a UI PDU with a frame
                # reject and shuts down; it keeps its address until closed
                if self.socks[i].state.SHUTDOWN:
                    ref.socks[i].dead = True
                    ref.socks[i].listen = False
            sx.reach("datagram:no-receiver")
            return "dropped"
        i = target[0]
        self.quiet_except(i, what)
        s = self.socks[i]
        for m in msgs:
            if not self.pending(i):
                sx.check(False, what + ":lost")
            got, sender = self.A.recvfrom(s)
            if kinds[0] == "RAW":
                sx.check(sender is None and got.name == "UI",
                         what + ":raw-receiver")
                got, sender = got.data, got.ssap
            sx.check(same(sx, got, m), what + ":payload-or-boundaries-changed")
            sx.check(sender == src, what + ":source-address-changed")
        sx.check(not self.pending(i), what + ":duplicated")
        sx.reach("datagram:delivered")
        return "delivered"

    def resolve_remote(self, name):
        """the remote device looks the name up at A: an SDREQ arrives, the
        SDRES that leaves must say 'no such service' (address 0)"""
        sx = self.sx
        req = pdu.ServiceNameLookup(1, 1)
        req.sdreq = [(7, name)]
        self.A.dispatch(pdu.decode(pdu.encode(req)))
        ans = None
        for k in range(4):
            p = self.A.collect()
            if p is None:
                break
            for q in (p if p.name == "AGF" else [p]):
                if q.name == "SNL":
                    for tid, sap in q.sdres:
                        if tid == 7:
                            ans = sap
        if ans is None:
            sx.check(False, "malformed-name:lookup-not-answered")
        sx.check(ans == 0, "malformed-name:lookup-finds-a-service")
        return ans

    def resolve(self, key):
        sx, ref = self.sx, self.ref
        name = NAMES[key][0] if isinstance(key, str) else key
        B = self.remote()
        wellformed = NAMES[key][1] if isinstance(key, str) else True
        if wellformed and name not in WKS_NAMES and sx.pick(
                "r%d.local" % self.nB, [0, 1]):
            # the resolving device has a service of the same name itself,
            # at another address than A can have given it
            for j, n in enumerate([filler(90), filler(91), name]):
                B.bind(B.socket(LDL), n)
            sx.reach("resolve:name-also-local")
        try:
            got = B.resolve(name)
            # (a cached/own answer instead of asking: judged below)
        except envl.WouldBlock:
            self.transfer(B, self.A, "resolve")
            self.transfer(self.A, B, "resolve")
            try:
                got = B.resolve(name)
            except envl.WouldBlock:
                sx.check(False, "resolve:no-answer")
        want = ref.names.get(name, 0)
        late = ":name-of-closed-socket" if name in ref.released else ""
        sx.check(got == want, "resolve:wrong-address" + late)
        sx.reach("resolve:found" if want else "resolve:absent")
        return got

    def connect_by_name(self, key):
        sx, ref = self.sx, self.ref
        name = NAMES[key][0] if isinstance(key, str) else key
        B = self.remote()
        sb = B.socket(DLC)
        try:
            B.connect(sb, name)
            sx.check(False, "connect:setup")
        except envl.WouldBlock:
            pass
        src = B.getsockname(sb)
        self.transfer(B, self.A, "connect")
        addr = ref.names.get(name)
        target = None
        if addr is not None:
            for i in ref.at(addr):
                if ref.socks[i].open and ref.socks[i].listen \
                        and not ref.socks[i].dead:
                    target = i
        late = ":name-of-closed-socket" if name in ref.released else ""
        self.quiet_except(target, "connect")
        if target is None:
            # absence is reported: a DM for the caller, nobody got a request
            frames = self.transfer(self.A, B, "connect")
            dms = [q for f in frames for q in (f if f.name == "AGF" else [f])
                   if q.name == "DM" and q.dsap == src]
            sx.check(len(dms) == 1, "connect:absence-not-reported" + late)
            sx.reach("connect:absent")
            return "refused"
        if not self.pending(target):
            sx.check(False, "connect:request-did-not-reach-the-named-socket" + late)
        c = self.A.accept(self.socks[target])
        sx.check(c.addr == addr and c.peer == src, "connect:accepted-wrong-peer")
        self.socks.append(c)
        j = ref.new("DLC")
        ref.socks[j].accepted = True
        ref.socks[j].peer = src
        ref.bound(j, addr)
        frames = self.transfer(self.A, B, "connect")
        ccs = [q for f in frames for q in (f if f.name == "AGF" else [f])
               if q.name == "CC" and q.dsap == src and q.ssap == addr]
        sx.check(len(ccs) == 1, "connect:no-connection-complete")
        sx.reach("connect:accepted")
        return "accepted"

    # ---- invariants after every operation
    def invariants(self, step):
        sx, ref, A = self.sx, self.ref, self.A
        for i, (s, r) in enumerate(zip(self.socks, ref.socks)):
            if not r.open:
                continue
            a = A.getsockname(s)
            if a != r.addr:
                sx.check(False, "invariant:socket-address-differs-from-table")
            if a is not None:
                sap = A.sap[a]
                if sap is None or not any(x is s for x in sap.sock_list):
                    sx.check(False, "invariant:bound-socket-not-reachable-at-its-address")
        for a in range(2, 64):
            sap = A.sap[a]
            mine = ref.owner.get(a)
            if (sap is None) != (mine is None):
                sx.check(False, "invariant:address-table-differs")
            if sap is not None:
                if len(set(type(x) for x in sap.sock_list)) > 1:
                    sx.check(False, "invariant:different-socket-kinds-on-one-address")
                if len(sap.sock_list) != len(mine):
                    sx.check(False, "invariant:socket-count-on-address-differs")


# ----------------------------------------------------------------------------
# generic histories
# ----------------------------------------------------------------------------
WINDOWS = [(-1, 0), (31, 33), (63, 64)]
WINDOWS_RAW = [(-1, 1), (3, 5), (31, 33), (63, 64)]
WINDOWS_DSAP = [(0, 1), (4, 4), (16, 17), (32, 34), (63, 63)]

OPS_QUICK = [
    ["new_none", "LDL"], ["new_none", "DLC"], ["new_none", "RAW"],
    ["new_addr", "LDL"], ["new_addr", "RAW"],
    ["new_name", "DLC", "snep"], ["new_name", "DLC", "a"],
    ["new_name", "LDL", "a"], ["new_name", "DLC", "bad1"],
    ["new_name", "DLC", "sdp"],
    ["rebind", "none"], ["rebind", "name"], ["listen"], ["close"],
    ["datagram"], ["resolve", "a"], ["resolve", "snep"],
    ["connect", "a"], ["connect", "snep"],
]
OPS_THOROUGH = OPS_QUICK + [
    ["new_addr", "DLC"], ["new_name", "RAW", "snep"], ["new_name", "LDL", "b"],
    ["new_name", "DLC", "bad2"], ["new_name", "DLC", "bad3"],
    ["new_name", "DLC", "c"], ["rebind", "addr"], ["resolve", "bad1"],
    ["resolve", "b"], ["connect", "bad3"], ["datagram_raw"], ["unbound_new", "DLC"],
    ["close_again"],
]


OPS_TAIL = [
    ["new_none", "LDL"], ["new_addr", "RAW"], ["new_name", "DLC", "snep"],
    ["new_name", "DLC", "a"], ["rebind", "name"], ["listen"], ["close"],
    ["close_again"],
    ["datagram"], ["resolve", "a"], ["connect", "a"], ["connect", "snep"],
]


OPS_SECOND = [
    ["new_none", "LDL"], ["new_addr", "RAW"], ["new_name", "DLC", "a"],
    ["listen"], ["close"], ["datagram"], ["connect", "a"],
]


def needs_socket(op):
    return op[0] in ("rebind", "listen", "close", "close_again")


def do_op(n, step, op, narrow=False):
    sx = n.sx
    tag = "s%d" % step
    k = op[0]
    if needs_socket(op) and k != "close_again":
        live = [i for i, r in enumerate(n.ref.socks)
                if r.open and (k == "close" or not r.dead)]
        if not live:
            return "skip"
        # the most recent socket, or (picked) the oldest one
        cands = [live[-1]] + ([live[0]] if len(live) > 1 else [])
        i = sx.pick(tag + ".sock", cands)
    if k == "new_none":
        return n.bind_none(n.socket(op[1]))
    if k == "unbound_new":
        n.socket(op[1])
        return "socket"
    if k == "new_addr":
        wins = WINDOWS_RAW if op[1] == "RAW" else WINDOWS
        lo, hi = (31, 33) if narrow else sx.pick(tag + ".win", wins)
        addr = sx.int(tag + ".addr", lo, hi)
        return n.bind_addr(n.socket(op[1]), addr)
    if k == "new_name":
        return n.bind_name(n.socket(op[1]), op[2])
    if k == "rebind":
        if op[1] == "none":
            return n.bind_none(i, "rebind")
        if op[1] == "addr":
            return n.bind_addr(i, sx.int(tag + ".addr", 39, 41), "rebind")
        return n.bind_name(i, "c", "rebind")
    if k == "listen":
        return n.listen(i)
    if k == "close":
        return n.close(i)
    if k == "close_again":
        dead = [j for j, r in enumerate(n.ref.socks) if not r.open]
        if not dead:
            return "skip"
        return n.close_again(dead[-1])
    if k == "datagram":
        lo, hi = (32, 34) if narrow else sx.pick(tag + ".win", WINDOWS_DSAP)
        return n.datagram(sx.int(tag + ".dsap", lo, hi), [1], tag)
    if k == "datagram_raw":
        lo, hi = (32, 34) if narrow else sx.pick(tag + ".win", WINDOWS_DSAP)
        return n.datagram_raw(sx.int(tag + ".dsap", lo, hi),
                              sx.int(tag + ".ssap", 0, 63), 2, tag)
    if k == "resolve":
        return n.resolve(op[1])
    if k == "connect":
        return n.connect_by_name(op[1])
    raise ValueError(op)


def history(sx, prefix, k, ops):
    """prefix: fixed operations; then up to k picked ones"""
    table = {"quick": OPS_QUICK, "thorough": OPS_THOROUGH, "tail": OPS_TAIL}[ops]
    n = Net(sx)
    out = []
    step = 0
    for op in prefix:
        out.append(do_op(n, step, op, narrow=True))
        n.invariants(step)
        step += 1
    for j in range(k):
        op = sx.pick("op%d" % step, [None] + table)
        if op is None:
            break
        out.append([op, do_op(n, step, op)])
        n.invariants(step)
        step += 1
    sx.reach("history-end")
    return out


# ----------------------------------------------------------------------------
# targeted prefixes
# ----------------------------------------------------------------------------
def sweep(sx, scenario, tname):
    """bind(addr) with addr symbolic over -1..64 after a scenario prefix"""
    n = Net(sx)
    if scenario == "fresh":
        pass
    elif scenario == "some":
        n.bind_none(n.socket("LDL"))
        n.bind_name(n.socket("DLC"), "a")
        n.bind_name(n.socket("DLC"), "snep")
        n.bind_addr(n.socket("RAW"), 7)
        n.bind_addr(n.socket("LDL"), 63)
    elif scenario == "closed":
        i = n.socket("LDL")
        n.bind_addr(i, 40)
        j = n.socket("DLC")
        n.bind_name(j, "a")
        n.close(i)
        n.close(j)
    elif scenario == "full":
        for j in range(32):
            n.bind_none(n.socket("LDL"))
        for j in range(16):
            n.bind_name(n.socket("DLC"), filler(j))
    n.invariants(0)
    addr = sx.int("addr", -1, 64)
    i = n.socket(tname)
    r = n.bind_addr(i, addr)
    n.invariants(1)
    # the same address again from a second socket: taken now iff bound now
    r2 = n.bind_addr(n.socket(tname), addr, "bind-addr-again")
    n.invariants(2)
    if r == "ok":
        n.close(i)
        r3 = n.bind_addr(n.socket("RAW"), addr, "bind-addr-after-close")
        n.invariants(3)
        sx.check(r3 == "ok", "address-not-reusable-after-close")
        sx.reach("reuse-after-close")
    return [r, r2]


def exhaust_dynamic(sx, tname, k, ops):
    """all 32 dynamic addresses taken; then a picked suffix"""
    n = Net(sx)
    got = []
    for j in range(32):
        got.append(n.bind_none(n.socket(tname if j % 3 else "LDL")))
    sx.check(sorted(got) == list(range(32, 64)), "dynamic-range-not-filled")
    n.invariants(0)
    r = n.bind_none(n.socket(tname))
    sx.check(r == "EAGAIN", "exhaust:33rd-anonymous-bind")
    victim = sx.pick("victim", [0, 13, 31])
    n.close(victim)
    n.invariants(1)
    out = [r]
    va = 32 + victim
    step = 2
    for j in range(k):
        op = sx.pick("op%d" % step, [None, "new_none", "new_addr", "listen",
                                     "datagram", "close"])
        if op is None:
            break
        if op == "new_none":
            r = n.bind_none(n.socket("DLC"))
        elif op == "new_addr":
            r = n.bind_addr(n.socket("LDL"),
                            sx.int("s%d.addr" % step, max(va - 1, 31), min(va + 1, 64)))
        elif op == "listen":
            r = n.listen(n.socket("DLC"))
        elif op == "datagram":
            r = n.datagram(sx.int("s%d.dsap" % step, va - 1, min(va + 1, 63)),
                           [1], "s%d" % step)
        else:
            live = [i for i, x in enumerate(n.ref.socks) if x.open and x.addr]
            r = n.close(live[(7 * step) % len(live)])
        out.append([op, r])
        n.invariants(step)
        step += 1
    sx.reach("exhaust-dynamic-end")
    return out


def exhaust_named(sx, k):
    """all 16 named addresses taken; then reuse after close"""
    n = Net(sx)
    got = []
    for j in range(16):
        got.append(n.bind_name(n.socket("DLC" if j % 2 else "LDL"), filler(j)))
    sx.check(sorted(got) == list(range(16, 32)), "named-range-not-filled")
    n.invariants(0)
    r = n.bind_name(n.socket("DLC"), filler(16))
    sx.check(r == "exhausted", "exhaust:17th-named-bind")
    # well-known names do not depend on the named range
    n.bind_name(n.socket("DLC"), "snep")
    victim = sx.pick("victim", [0, 7, 15])
    n.close(victim)
    n.invariants(1)
    out = []
    step = 2
    for j in range(k):
        op = sx.pick("op%d" % step, [None, "new", "same", "resolve-closed",
                                     "resolve-open", "connect-closed"])
        if op is None:
            break
        if op == "new":
            out.append(n.bind_name(n.socket("DLC"), filler(20 + step)))
        elif op == "same":
            out.append(n.bind_name(n.socket("DLC"), filler(victim)))
        elif op == "resolve-closed":
            out.append(n.resolve(filler(victim)))
        elif op == "resolve-open":
            out.append(n.resolve(filler((victim + 1) % 16)))
        elif op == "connect-closed":
            out.append(n.connect_by_name(filler(victim)))
        n.invariants(step)
        step += 1
    sx.reach("exhaust-named-end")
    return out


def raw_in_named_range(sx, k):
    """raw access points bound BY NUMBER to addresses of the named range
    16..31 (and to a well-known address), then named binds: a named service
    never gets an address that is in use, whoever uses it; datagrams for the
    raw access point's address still reach it"""
    n = Net(sx)
    a1 = sx.int("raw.addr1", 16, 19)
    a2 = sx.int("raw.addr2", 16, 19)
    n.bind_addr(n.socket("RAW"), a1, "raw-in-named-range")
    n.bind_addr(n.socket("RAW"), a2, "raw-in-named-range")
    if sx.pick("wks", [0, 1]):
        n.bind_addr(n.socket("RAW"), 4, "raw-in-named-range")       # address of 'snep'
    n.invariants(0)
    out = []
    for j in range(k):
        key = sx.pick("name%d" % j, ["a", "b", "snep", filler(40 + j)])
        out.append(n.bind_name(n.socket("DLC" if j % 2 else "LDL"), key))
        n.invariants(j + 1)
    out.append(n.datagram(sx.int("dsap", 16, 19), [2], "d"))
    n.invariants(k + 1)
    sx.reach("raw-in-named-range-end")
    return out


MALFORMED = [b"urn:nfc:sn:demo service", b"urn:nfc:sn:demo/x", b"urn:nfc:sn:demo\x00", b"urn:nfc:sn:demo?",
             b"urn:nfc:sn:demo\n", b"urn:nfc:sn:demo\r\n", b" urn:nfc:sn:demo", b"urn:nfc:sn:d\xe9mo",
             b"urn:nfc:xsn:", b"URN:NFC:SN:demo", b"urn:nfc:sn:demo,x"]


def malformed_names(sx, tname):
    """names that begin like a service name but are not one (illegal octets
    in the middle or at the end, a line end included): bind() refuses them
    with EFAULT, they take no address, and the peer's lookup reports absence"""
    n = Net(sx)
    name = sx.pick("name", MALFORMED)
    i = n.socket(tname)
    r = n.bind_name(i, name if False else "__malformed__:" + name.decode("latin1"))
    n.invariants(0)
    out = [r, n.resolve_remote(name)]
    sx.reach("malformed-names-end")
    return out


def delivery(sx, scenario):
    """datagrams with symbolic DSAP, SSAP and payload against a populated
    table"""
    n = Net(sx)
    n.bind_addr(n.socket("LDL"), 32)
    n.bind_name(n.socket("LDL"), "a")
    i = n.socket("DLC")
    n.bind_addr(i, 33)
    n.listen(i)
    n.bind_addr(n.socket("RAW"), 5)
    n.bind_addr(n.socket("LDL"), 63)
    n.bind_name(n.socket("DLC"), "snep")
    n.invariants(0)
    dsap = sx.int("dsap", 0, 63)
    if scenario == "via-B":
        lens = sx.pick("lens", [[0], [2], [1, 0], [3, 2]])
        return n.datagram(dsap, lens, "d")
    ssap = sx.int("ssap", 0, 63)
    r = n.datagram_raw(dsap, ssap, sx.pick("n", [0, 3]), "d")
    # a second one to another address must not disturb the first receiver
    r2 = n.datagram_raw(sx.int("dsap2", 31, 33), sx.int("ssap2", 0, 63), 1, "e")
    return [r, r2]


def lifecycle(sx, key, k):
    """a named listening socket, a connection accepted on its address, then
    closes in picked order: the address stays taken until the last socket on
    it is closed"""
    n = Net(sx)
    ls = n.socket("DLC")
    a = n.bind_name(ls, key)
    n.listen(ls)
    n.invariants(0)
    sx.check(n.connect_by_name(key) == "accepted", "lifecycle:first-connect")
    acc = len(n.socks) - 1
    n.invariants(1)
    out = []
    step = 2
    for j in range(k):
        op = sx.pick("op%d" % step, [None, "close-listener", "close-accepted",
                                     "connect", "resolve", "bind-addr",
                                     "bind-same-name", "datagram",
                                     "close-again"])
        if op is None:
            break
        if op == "close-listener":
            if not n.ref.socks[ls].open:
                break
            out.append(n.close(ls))
        elif op == "close-accepted":
            if not n.ref.socks[acc].open:
                break
            out.append(n.close(acc))
        elif op == "close-again":
            dead = [j for j in (ls, acc) if not n.ref.socks[j].open]
            if not dead:
                break
            out.append(n.close_again(dead[-1]))
        elif op == "connect":
            out.append(n.connect_by_name(key))
        elif op == "resolve":
            out.append(n.resolve(key))
        elif op == "bind-addr":
            out.append(n.bind_addr(n.socket("RAW"), sx.int("s%d.addr" % step, a - 1, a + 1)))
        elif op == "bind-same-name":
            out.append(n.bind_name(n.socket("DLC"), key))
        elif op == "datagram":
            out.append(n.datagram(sx.int("s%d.dsap" % step, a - 1, a + 1), [2], "s%d" % step))
        n.invariants(step)
        step += 1
    sx.reach("lifecycle-end")
    return out


def reclose(sx, t1, t2):
    """close() twice on one socket while its old address has been handed to
    another socket in between"""
    n = Net(sx)
    first = sx.pick("first", ["none", "addr", "name"])
    s1 = n.socket(t1)
    if first == "none":
        n.bind_none(s1)
    elif first == "addr":
        n.bind_addr(s1, 32 if t1 != "RAW" else sx.pick("a1", [20, 32]))
    else:
        n.bind_name(s1, "a")
    a1 = n.ref.socks[s1].addr
    n.invariants(0)
    n.close(s1)
    s2 = n.socket(t2)
    # the successor asks for the same address / the next free one
    if first == "name":
        n.bind_name(s2, sx.pick("n2", ["a", "b"]))
    elif sx.pick("how2", ["none", "addr"]) == "none" and a1 >= 32:
        n.bind_none(s2)
    else:
        n.bind_addr(s2, a1) if (a1 >= 32 or t2 == "RAW") else n.bind_none(s2)
    if t2 == "DLC" and sx.pick("listen2", [0, 1]):
        n.listen(s2)
    n.invariants(1)
    out = [n.close_again(s1)]
    n.invariants(2)
    # the successor is still there, for the peer and for the table
    a2 = n.ref.socks[s2].addr
    step = 3
    for j in range(2):
        op = sx.pick("op%d" % step, [None, "datagram", "bind-none", "bind-addr",
                                     "resolve", "connect", "bind-name",
                                     "close-again", "close2"])
        if op is None:
            break
        if op == "datagram":
            out.append(n.datagram(a2 if a2 is not None else 32, [2], "s%d" % step))
        elif op == "bind-none":
            out.append(n.bind_none(n.socket("LDL")))
        elif op == "bind-addr":
            out.append(n.bind_addr(n.socket("RAW"), a1))
        elif op == "resolve":
            out.append(n.resolve("a"))
        elif op == "connect":
            out.append(n.connect_by_name("a"))
        elif op == "bind-name":
            out.append(n.bind_name(n.socket("DLC"), "a"))
        elif op == "close-again":
            out.append(n.close_again(s1))
        elif op == "close2":
            if not n.ref.socks[s2].open:
                break
            out.append(n.close(s2))
        n.invariants(step)
        step += 1
    sx.reach("reclose-end")
    return out


def cross_resolve(sx, kind):
    """both devices have a service of the same (not well-known) name, at
    different addresses: A resolves the name and talks to what it got"""
    n = Net(sx)
    A, B = n.A, n.mk()
    X = NAMES["a"][0]
    mine = sx.pick("mine", ["same", "other", "nothing"])
    if mine == "same":
        n.bind_name(n.socket("LDL"), "a")
    elif mine == "other":
        n.bind_name(n.socket("LDL"), "b")
    # B: another named service first, then X (or not at all)
    theirs = sx.pick("theirs", ["second", "first", "absent"])
    if theirs == "second":
        B.bind(B.socket(LDL), filler(70))
    bx = None
    if theirs != "absent":
        bx = B.socket(DLC if kind == "connect" else LDL)
        B.bind(bx, X)
        if kind == "connect":
            B.listen(bx, 1)
        else:
            B.setsockopt(bx, nfc.llcp.SO_RCVBUF, 2)
    other = B.socket(LDL)
    B.bind(other)
    want = B.getsockname(bx) if bx is not None else 0
    try:
        got = A.resolve(X)
    except envl.WouldBlock:
        n.transfer(A, B, "cross-resolve")
        n.transfer(B, A, "cross-resolve")
        try:
            got = A.resolve(X)
        except envl.WouldBlock:
            sx.check(False, "cross-resolve:no-answer")
    sx.check(got == want, "cross-resolve:not-the-remote-address")
    n.invariants(0)
    if not got:
        sx.reach("cross-resolve:absent")
        return [mine, theirs, 0]
    sx.reach("cross-resolve:found")
    if kind == "sendto":
        sa = A.socket(LDL)
        A.bind(sa)
        m = sx.bytes("m", sx.pick("len", [0, 3]))
        A.sendto(sa, m, got, DONTWAIT)
        n.transfer(A, B, "cross-sendto")
        sx.check(not B.poll(other, "recv", 0.0), "cross-sendto:delivered-to-wrong-socket")
        if not B.poll(bx, "recv", 0.0):
            sx.check(False, "cross-sendto:did-not-reach-the-named-socket")
        data, sender = B.recvfrom(bx)
        sx.check(same(sx, data, m), "cross-sendto:payload-changed")
        sx.check(sender == A.getsockname(sa), "cross-sendto:source-address-changed")
    else:
        sa = A.socket(DLC)
        try:
            A.connect(sa, got)
            sx.check(False, "cross-connect:setup")
        except envl.WouldBlock:
            pass
        n.transfer(A, B, "cross-connect")
        if len(bx.recv_queue) != 1:
            sx.check(False, "cross-connect:did-not-reach-the-named-socket")
        c = B.accept(bx)
        sx.check(c.peer == A.getsockname(sa) and c.addr == want,
                 "cross-connect:accepted-wrong-peer")
    return [mine, theirs, got]


def send_side(sx, how):
    """the local device sends: a connection-less socket of A, optionally
    connect()ed to a remote address, sends a datagram to a (symbolic)
    destination.  Either the call fails with an Error and nothing arrives at
    the remote device, or the datagram arrives exactly at the remote socket
    bound at the destination that was named (payload, boundaries, source
    address intact) and nowhere else."""
    n = Net(sx)
    A, B = n.A, n.mk()
    sa = A.socket(LDL)
    if how != "unbound":
        A.bind(sa)
    rx = {}
    for addr in (33, 40, 41):
        b = B.socket(LDL)
        B.setsockopt(b, nfc.llcp.SO_RCVBUF, 2)
        B.bind(b, addr)
        rx[addr] = b
    peer = None
    if how == "connected":
        peer = sx.pick("peer", [40, 41, 50])
        A.connect(sa, peer)
        sx.reach("send-side:connected")
    m = sx.bytes("m", sx.pick("len", [0, 3]))
    if how == "connected" and sx.pick("call", ["sendto", "send"]) == "send":
        dest = peer
        try:
            ok = A.send(sa, m, DONTWAIT)
            failed = None
        except nfc.llcp.Error as e:
            failed = e.errno
    else:
        dest = sx.int("dest", 32, 42)
        try:
            ok = A.sendto(sa, m, dest, DONTWAIT)
            failed = None
        except nfc.llcp.Error as e:
            failed = e.errno
    n.transfer(A, B, "send-side")
    if failed is not None:
        sx.reach("send-side:refused")
        for addr, b in rx.items():
            sx.check(not B.poll(b, "recv", 0.0), "send-side:refused-datagram-delivered")
        if peer is not None:
            sx.check(sx.neg(sx.eq(dest, peer)), "send-side:datagram-to-connected-peer-refused")
        return ["refused", failed]
    d = sx.concrete(dest)
    for addr, b in rx.items():
        if addr == d:
            if not B.poll(b, "recv", 0.0):
                sx.check(False, "send-side:did-not-reach-the-destination-socket")
            data, sender = B.recvfrom(b)
            sx.check(same(sx, data, m), "send-side:payload-or-boundaries-changed")
            sx.check(sender == A.getsockname(sa), "send-side:source-address-changed")
            sx.check(not B.poll(b, "recv", 0.0), "send-side:duplicated")
            sx.reach("send-side:delivered")
        else:
            sx.check(not B.poll(b, "recv", 0.0), "send-side:delivered-to-wrong-socket")
    return ["sent", d]


def reset(sx):
    envl.WhileWaiting.fn = None


# request classes of the batched lookups: what B's table says about the name
BATCH = ["bound1", "bound2", "unbound", "sdp", "empty"]


def batched_resolve(sx, count, direct):
    """several service name lookups travel in ONE SNL PDU; every request is
    answered from B's table for that very name (0 when the name is not
    bound) and the answers come back under the right transaction ids"""
    n = Net(sx)
    A, B = n.A, n.mk()
    names = {"bound1": NAMES["a"][0], "bound2": NAMES["b"][0],
             "unbound": NAMES["c"][0], "sdp": NAMES["sdp"][0], "empty": b""}
    B.bind(B.socket(LDL), filler(60))
    B.bind(B.socket(DLC), names["bound1"])
    B.bind(B.socket(LDL), names["bound2"])
    table = {"bound1": 17, "bound2": 18, "unbound": 0, "sdp": 1, "empty": 0}
    sx.check(B.snl.get(names["bound1"]) == 17 and B.snl.get(names["bound2"]) == 18,
             "batch:setup")
    order = []
    left = list(BATCH)
    for j in range(count):
        c = sx.pick("req%d" % j, left)
        left.remove(c)
        order.append(c)
    if direct:
        # a hand-built SNL PDU with arbitrary transaction ids arrives at B
        tids = [sx.int("tid%d" % j, 0, 255) for j in range(count)]
        B.dispatch(pdu.decode(pdu.encode(pdu.ServiceNameLookup(
            1, 1, sdreq=[(t, names[c]) for t, c in zip(tids, order)]))))
        ans = B.collect()
        if ans is None or ans.name != "SNL" or len(ans.sdres) != count:
            sx.check(False, "batch:answers-missing")
        for j, c in enumerate(order):
            sx.check(same(sx, [ans.sdres[j][0], ans.sdres[j][1]],
                          [tids[j], table[c]]),
                     "batch:wrong-answer:%s-after-%s" % (
                         c, order[j - 1] if j else "nothing"))
        sx.reach("batch:direct")
        return order
    for c in order:
        try:
            A.resolve(names[c])
            sx.check(False, "batch:resolve-setup")
        except envl.WouldBlock:
            pass
    req = A.collect()
    if req is None or req.name != "SNL" or len(req.sdreq) != count:
        sx.check(False, "batch:requests-not-in-one-snl-pdu")
    B.dispatch(pdu.decode(pdu.encode(req)))
    if A.collect() is not None:
        sx.check(False, "batch:requests-sent-twice")
    n.transfer(B, A, "batch")
    for j, c in enumerate(order):
        try:
            got = A.resolve(names[c])
        except envl.WouldBlock:
            sx.check(False, "batch:no-answer:" + c)
        sx.check(got == table[c], "batch:wrong-answer:%s-after-%s" % (
            c, order[j - 1] if j else "nothing"))
    sx.reach("batch:resolved")
    return order


def churn(sx, keep):
    """the dynamic range after many anonymous bind/close cycles: an
    anonymous bind succeeds iff an address in 32..63 is free (all concrete)"""
    n = Net(sx)
    k1 = sx.pick("k1", [1, 30, 31, 32, 33])
    kept = []
    for j in range(k1):
        i = n.socket("LDL")
        n.bind_none(i)
        if j >= k1 - keep:
            kept.append(i)
        else:
            n.close(i)
    n.invariants(0)
    k2 = sx.pick("k2", [0, 1, 29, 30, 31, 32])
    for j in range(k2):
        i = n.socket("DLC" if j % 2 else "LDL")
        n.bind_none(i)
        n.close(i)
    n.invariants(1)
    out = [k1, k2]
    step = 2
    for j in range(3):
        op = sx.pick("op%d" % step, [None, "bind", "bind-raw", "close-kept",
                                     "listen", "bind-addr"])
        if op is None:
            break
        if op == "bind":
            out.append(n.bind_none(n.socket("LDL")))
        elif op == "bind-raw":
            out.append(n.bind_none(n.socket("RAW")))
        elif op == "listen":
            out.append(n.listen(n.socket("DLC")))
        elif op == "bind-addr":
            out.append(n.bind_addr(n.socket("LDL"), 32 + (k1 + k2) % 32))
        else:
            if not kept:
                break
            out.append(n.close(kept.pop(0)))
        n.invariants(step)
        step += 1
    sx.reach("churn-end")
    return out


def cross_connect_after_rebind(sx, pre):
    """A knows (or does not know) the address of a remote service name from
    an earlier resolve(); the peer then closes and re-binds its services so
    that the name moves; connect(name) must reach the socket bound under the
    name NOW (reference: B's table at connect time) or be refused."""
    n = Net(sx)
    A, B = n.A, n.mk()
    X, Y = NAMES["a"][0], NAMES["b"][0]
    table = {}          # name -> listening socket of B

    def serve(name):
        s = B.socket(DLC)
        B.bind(s, name)
        B.listen(s, 1)
        table[name] = s
        return s

    first = sx.pick("first", ["X", "Y"])
    for nm in ([X, Y] if first == "X" else [Y, X]):
        serve(nm)
    if pre == "resolve":
        try:
            got = A.resolve(X)
            sx.check(False, "rebind:resolve-setup")
        except envl.WouldBlock:
            n.transfer(A, B, "rebind")
            n.transfer(B, A, "rebind")
            got = A.resolve(X)
        sx.check(got == B.getsockname(table[X]), "rebind:first-resolve")
        sx.reach("rebind:resolved-before")
    change = sx.pick("change", ["swap", "move", "unbind", "takeover", "nothing"])
    if change == "swap":
        B.close(table[X])
        B.close(table[Y])
        serve(Y) if first == "X" else serve(X)
        serve(X) if first == "X" else serve(Y)
    elif change == "move":
        # the old address goes to an anonymous listener, the name elsewhere
        old = B.getsockname(table[X])
        B.close(table[X])
        o = B.socket(DLC)
        B.bind(B.socket(LDL), filler(80))
        serve(X)
        table["other"] = o
    elif change == "unbind":
        B.close(table.pop(X))
    elif change == "takeover":
        # the name is gone, its old address serves another name
        B.close(table.pop(X))
        B.close(table.pop(Y))
        serve(Y) if first == "X" else serve(filler(81))
    want = table.get(X)
    sa = A.socket(DLC)
    hit = []

    def run_loops():
        n.transfer(A, B, "rebind")
        for key in sorted(table, key=str):
            s = table[key]
            if s.state.LISTEN and len(s.recv_queue):
                hit.append(key)
                s_acc = B.accept(s)
                hit.append(s_acc)
        n.transfer(B, A, "rebind")
    envl.while_waiting(run_loops)
    try:
        A.connect(sa, X)
        refused = None
    except nfc.llcp.Error as e:
        refused = e
    keys = [h for h in hit if isinstance(h, (str, bytes))]
    if want is None:
        sx.check(keys == [], "rebind:connect-reached-a-socket-not-bound-under-the-name")
        if refused is None:
            sx.check(False, "rebind:connect-to-unbound-name-succeeded")
        sx.check(isinstance(refused, nfc.llcp.ConnectRefused)
                 and refused.errno == errno.ECONNREFUSED,
                 "rebind:unbound-name-not-reported-as-refused")
        sx.reach("rebind:refused")
        return [pre, first, change, "refused"]
    if keys != [X]:
        sx.check(False, "rebind:connect-reached-the-wrong-socket" if keys
                 else "rebind:connect-reached-no-socket")
    if refused is not None:
        sx.check(False, "rebind:connect-to-bound-name-failed")
    acc = hit[1]
    now = B.getsockname(want)
    sx.check(A.getpeername(sa) == now and acc.addr == now
             and acc.peer == A.getsockname(sa),
             "rebind:connected-to-another-address-than-the-name-has")
    sx.reach("rebind:connected")
    return [pre, first, change, now]


# ----------------------------------------------------------------------------
def partitions(tier):
    parts = []
    if tier == "quick":
        for j, op in enumerate(OPS_QUICK):
            if needs_socket(op):
                continue
            parts.append(dict(name="hist:%s" % "-".join(op), fn="history",
                              params=dict(prefix=[op], k=2, ops="tail")))
    else:
        for op in OPS_THOROUGH:
            if needs_socket(op):
                continue
            for op2 in OPS_SECOND:
                parts.append(dict(name="hist:%s:%s" % ("-".join(op), "-".join(op2)),
                                  fn="history",
                                  params=dict(prefix=[op, op2], k=2, ops="tail")))
    for sc in ("fresh", "some", "closed", "full"):
        for t in ("LDL", "DLC", "RAW"):
            parts.append(dict(name="sweep:%s:%s" % (sc, t), fn="sweep",
                              params=dict(scenario=sc, tname=t)))
    for t in ("LDL", "DLC", "RAW"):
        parts.append(dict(name="exhaust-dynamic:" + t, fn="exhaust_dynamic",
                          params=dict(tname=t, k=2 if tier == "quick" else 3,
                                      ops="quick")))
    parts.append(dict(name="exhaust-named", fn="exhaust_named",
                      params=dict(k=2 if tier == "quick" else 4)))
    for t in ("DLC", "LDL"):
        parts.append(dict(name="malformed-names:" + t, fn="malformed_names", params=dict(tname=t)))
    parts.append(dict(name="raw-in-named-range", fn="raw_in_named_range",
                      params=dict(k=2 if tier == "quick" else 3)))
    for sc in ("via-B", "raw"):
        parts.append(dict(name="delivery:" + sc, fn="delivery",
                          params=dict(scenario=sc)))
    for t1 in ("LDL", "DLC", "RAW"):
        for t2 in ("LDL", "DLC"):
            parts.append(dict(name="reclose:%s:%s" % (t1, t2), fn="reclose",
                              params=dict(t1=t1, t2=t2)))
    for how in ("bound", "unbound", "connected"):
        parts.append(dict(name="send-side:" + how, fn="send_side", params=dict(how=how)))
    for kind in ("sendto", "connect"):
        parts.append(dict(name="cross-resolve:" + kind, fn="cross_resolve",
                          params=dict(kind=kind)))
    for count in ((2,) if tier == "quick" else (2, 3)):
        for direct in (0, 1):
            parts.append(dict(name="batched-resolve:%d:%s" % (
                count, "direct" if direct else "via-A"), fn="batched_resolve",
                params=dict(count=count, direct=direct)))
    for keep in (0, 1, 2):
        parts.append(dict(name="churn:keep=%d" % keep, fn="churn",
                          params=dict(keep=keep)))
    for pre in ("resolve", "none"):
        parts.append(dict(name="cross-connect-after-rebind:" + pre,
                          fn="cross_connect_after_rebind", params=dict(pre=pre)))
    for key in ("a", "snep"):
        parts.append(dict(name="lifecycle:" + key, fn="lifecycle",
                          params=dict(key=key, k=3 if tier == "quick" else 4)))
    return parts


MUST_REACH = ["malformed-names-end", "raw-in-named-range-end", "send-side:connected", "send-side:refused", "send-side:delivered", "history-end", "EAGAIN", "bind-addr-ok", "bind-addr:EFAULT",
              "bind-addr:EACCES", "bind-addr:EADDRINUSE", "bind-name:EFAULT",
              "bind-name:EADDRINUSE", "bind-name:well-known", "bind-name:ok",
              "bind-name:exhausted", "close:last-socket", "close:not-last-socket",
              "datagram:delivered", "datagram:no-receiver", "resolve:found",
              "resolve:absent", "connect:accepted", "connect:absent",
              "reuse-after-close", "exhaust-dynamic-end", "exhaust-named-end",
              "lifecycle-end", "close:again", "reclose-end",
              "resolve:name-also-local", "cross-resolve:found",
              "cross-resolve:absent", "rebind:resolved-before",
              "rebind:refused", "rebind:connected", "batch:direct",
              "batch:resolved", "churn-end"]
BOUNDS = {
    "quick": "histories of 1 fixed operation (15 kinds) + up to 2 picked from 11 (socket+bind none/address/name for the three socket kinds, second bind of a bound socket, listen, close, datagram from a second controller, resolve and connect-by-name through collect()/dispatch()), addresses symbolic inside windows {-1..1, 3..5, 31..33, 63..64}; bind(address) with the address symbolic over -1..64 after four table prefixes (fresh, populated, after close, all 48 bindable addresses taken) for each socket kind, bound twice and re-bound after close; all 32 dynamic / 16 named addresses taken, one closed, then a suffix of up to 2 operations; datagrams with symbolic DSAP 0..63, SSAP 0..63 and payload octets (lengths 0..3, one or two datagrams) against a populated table; named listener + accepted connection closed in any order (also twice) with up to 3 operations; close() repeated on a socket whose address was re-assigned in between (3 x 2 socket kinds, bind by none/address/name) + up to 2 operations; both devices binding the same service name at different addresses, A resolving it and sending a datagram / connecting to the answer; resolve with the name also bound on the resolving device; two (thorough: three) lookups in one SNL PDU for names from {bound, bound elsewhere, unbound, sdp, empty} in every order, through resolve() on A and as a hand-built PDU with symbolic transaction ids; 1/30/31/32/33 anonymous bind+close cycles keeping the last 0..2 sockets, 0/1/29..32 further cycles, then up to 3 operations; connect(name) through the real connect() after the peer closed and re-bound its two named listeners (swap, move, unbind, take-over, nothing), with and without an earlier resolve() of the name; names from a fixed alphabet of 8 (+ 17 filler names), given as bytes or text; added later: datagrams sent from a bound, unbound or connect()ed connection-less socket to a symbolic destination; raw access points bound by number at 16..19 and at a well-known address before named binds",
    "thorough": "as quick with histories of 2 fixed (26 x 7) + up to 2 picked operations, suffixes of up to 3/4 operations after exhaustion and up to 4 in the listener life cycle",
}
OUTSIDE = ["operations on closed sockets", "service names outside the alphabet (the name syntax check is a regular expression on concrete bytes)",
           "address windows {-1..1, 3..5, 30..33, 62..64} instead of -1..64 inside generic histories (the full range is swept after the targeted prefixes)",
           "established connections beyond accept(); data transfer on them is C05", "link MIU effects (C10)"]
ASSUMPTIONS = ["env.llcp: Condition.wait() without time-out raises WouldBlock; random.choice returns the first element",
               "reference address table RefTable (harness) is the independent reading of the property; errno pinned for EADDRINUSE/EACCES/EFAULT/EAGAIN only, a second bind of a bound socket and exhaustion of 16-31 only require an nfc.llcp.Error",
               "the remote controller B is a fresh LogicalLinkController per exchange, linked by collect()/encode/decode/dispatch()"]
LIMITS = {"quick": dict(max_time=120), "thorough": dict(max_time=1500)}
