"""helpers shared by harnesses (run in both modes)"""


def is_bytes(x):
    return isinstance(x, (bytes, bytearray)) or type(x).__name__ == 'SymBytes'


def same(sx, a, b):
    """structural equality of two values as one (possibly symbolic) condition;
    never forks on data."""
    if a is None or b is None:
        return a is None and b is None
    if is_bytes(a) or is_bytes(b):
        if not (is_bytes(a) and is_bytes(b)):
            return False
        if len(a) != len(b):
            return False
        return sx.eq(a, b)
    if isinstance(a, (list, tuple)) or isinstance(b, (list, tuple)):
        if not (isinstance(a, (list, tuple)) and isinstance(b, (list, tuple))):
            return False
        if len(a) != len(b):
            return False
        return sx.all([same(sx, x, y) for x, y in zip(a, b)])
    if isinstance(a, dict) or isinstance(b, dict):
        if not (isinstance(a, dict) and isinstance(b, dict)):
            return False
        if sorted(a.keys()) != sorted(b.keys()):
            return False
        return sx.all([same(sx, a[k], b[k]) for k in a])
    if isinstance(a, str) or isinstance(b, str):
        return a == b
    return sx.eq(a, b)


def first_diff(sx, a, b, path=""):
    """name of a component that can differ (diagnostics for labels only when
    values are concrete dict keys)"""
    if isinstance(a, dict) and isinstance(b, dict):
        for k in a:
            if k not in b:
                return path + "." + k
        return path
    return path


def blen(x):
    return len(x)
