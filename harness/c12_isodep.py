"""C12 - ISO-DEP exchanges each APDU exactly once or reports a tag error.

Real code: Type4ATag/Type4BTag.__init__ (RATS/ATTRIB evaluation),
IsoDepInitiator.exchange, Type4Tag.transceive/send_apdu.  Card: env.tags.Tt4Card
(ISO/IEC 14443-4 PICC rules written from the standard) with a scripted test
applet.  Faults per block: command lost or garbled (the card ignores it, the
reader times out), response lost (card has executed, reader times out),
response garbled (reader sees a transmission error)."""
import nfc
import nfc.clf
import nfc.tag
import nfc.tag.tt4
from harness import worlds

PROPERTY = "C12"


class Faults(object):
    def __init__(self, sx, budget, kinds):
        self.sx, self.budget, self.kinds = sx, budget, kinds
        self.k = 0
        self.used = 0
        self.run = 0            # current number of consecutive faulty blocks
        self.maxrun = 0
        self.log = []
        self.dep = None         # the reader's IsoDepInitiator (set by the harness)
        self.pos = 0            # blocks the reader has completed so far
        self.last_pni = None
        self.per_pos = {}       # faults while the reader transfers block #pos

    def __call__(self, sim, cmd):
        sx = self.sx
        if not sim.activated:
            return None          # activation frames are not part of the exchange
        self.k += 1
        if self.dep is not None:
            # the reader toggles its block number exactly once per completed
            # block and exchanges at least once in between
            if self.last_pni is not None and self.dep.pni != self.last_pni:
                self.pos += 1
            self.last_pni = self.dep.pni
        f = "ok"
        if self.used < self.budget and self.k <= 24:
            f = sx.pick("fault_at_block_%d" % self.k, ["ok"] + self.kinds)
        self.log.append(f)
        if f == "ok":
            self.run = 0
            return None
        self.used += 1
        self.per_pos[self.pos] = self.per_pos.get(self.pos, 0) + 1
        self.run += 1
        self.maxrun = max(self.maxrun, self.run)
        if f == "cmd-lost":
            raise nfc.clf.TimeoutError("command lost")
        if f == "rsp-lost":
            return nfc.clf.TimeoutError("response lost")
        if f == "rsp-garbled":
            return nfc.clf.TransmissionError("response garbled")
        raise ValueError(f)


def conversation(sx, typ, fsci, fwi, tx_size, clens, rlens, wtx, budget, kinds, go_on=False,
                 wtx_in_chain=False, wtx_counts=(1,), ats_layouts=None, wtx_in_cmd_chain=False):
    w = worlds.T4World(sx, 0x20, 255, 255, 16, 3, typ=typ, fsci=fsci, fwi=fwi,
                       tx_size=tx_size, wtx_at=wtx, fill=0x41)
    card = w.sim
    if ats_layouts:
        # any subset of TA(1)/TB(1)/TC(1) in the ATS; the card takes 60 % of
        # the frame waiting time it announced (or of the default) per command
        card.ats_layout = sx.pick("ats_layout", list(ats_layouts))
        card.busy_fraction = 0.6
        sx.reach("ats_layout_varied")
    tag = w.fresh_tag()
    if tag is None:
        sx.check(False, "activate-returned-none")
    card.wtx_in_chain = wtx_in_chain
    card.wtx_in_cmd_chain = wtx_in_cmd_chain
    if wtx_in_cmd_chain:
        sx.reach("wtx_during_command_chaining")
    if wtx:
        # number of consecutive waiting-time extensions the card asks for
        card.wtx_count = sx.pick("wtx_count", list(wtx_counts))
        # power level indication in the two upper bits of the S(WTX) INF byte
        # (the card is free to set them), WTXM from both ends of its range
        card.wtx_power = sx.pick("wtx_power", [0, 1, 3])
        card.wtx_wtxm = sx.pick("wtx_wtxm", [1, 59] if fwi <= 4 else [1])
        if card.wtx_power:
            sx.reach("wtx_with_power_level_bits")
        if card.wtx_count > 1:
            sx.reach("wtx_repeated")
    if wtx_in_chain:
        sx.reach("wtx_during_response_chaining")
    fsc = tags_fsc(fsci)
    m = fsc - 3
    # APDUs: proprietary class 80h, data and responses symbolic
    napdu = len(clens)
    cmds, rsps = [], []
    for i in range(napdu):
        cl = size_of(clens[i], m)
        rl = size_of(rlens[i], tx_size if tx_size else 253)
        cmds.append(sx.mkbytes([0x80, 0x10 + i] + list(sx.bytes("c%d" % i, cl)), True))
        rsps.append(list(sx.bytes("r%d" % i, rl)))
    card.script = rsps
    faults = Faults(sx, budget, kinds)
    card.hook = faults
    faults.dep = tag._dep
    outcome = []
    failed = False
    retry = tag._dep.n_retry_nak
    reached = True
    for i in range(napdu):
        seen_before = len(card.script_seen)
        used_before = faults.used
        blocks_before = len(card.blocks_seen)
        try:
            got = tag.transceive(cmds[i])
        except nfc.tag.tt4.Type4TagCommandError as e:
            sx.reach("tag_command_error")
            outcome.append("error")
            if faults.used == 0:
                sx.check(False, "error-without-fault:apdu%d" % i)
            # the reader's retry budget counts failed attempts per block; an
            # exchange hit by no more faults than that budget must complete
            if not failed and faults.used - used_before <= retry and faults.maxrun <= 1:
                sx.check(False, "single-faults-not-absorbed:apdu%d:%s"
                         % (i, "+".join(x for x in faults.log if x != "ok")))
            # ... and the budget is one per block: faults spread over several
            # blocks of a chained exchange, none hit more often than the budget
            if not failed and retry >= 1 and max(faults.per_pos.values()) <= retry:
                sx.check(False, "faults-within-per-block-budget-not-absorbed:apdu%d:%s"
                         % (i, "+".join(x for x in faults.log if x != "ok")))
            n = len(card.script_seen) - seen_before
            sx.check(n <= 1, "apdu-executed-more-than-once:apdu%d" % i)
            if not go_on:
                break
            # the application carries on with the next APDU after the error
            failed = True
            # did any frame of the failed exchange reach the card?  If not,
            # card and reader still agree on the block number
            reached = len(card.blocks_seen) > blocks_before
            if not reached:
                sx.reach("failed_exchange_never_reached_the_card")
            if n == 0:
                # keep the applet's script aligned with the APDU index
                card.script_seen.append(None)
            continue
        n = len(card.script_seen) - seen_before
        after = (":after-failed-exchange" if reached else
                 ":after-failed-exchange-that-never-reached-the-card") if failed else ""
        if failed:
            sx.reach("apdu_after_failed_exchange")
        sx.check(n == 1, "apdu-executed-%s-times:apdu%d%s" % ("no" if n == 0 else "several", i, after))
        if n >= 1:
            sx.check(sx.eq(sx.mkbytes(card.script_seen[seen_before], False), cmds[i]),
                     "card-received-different-command:apdu%d" % i)
        expect = sx.mkbytes(rsps[i] + [0x90, 0x00], True)
        if got is None or len(got) != len(expect):
            sx.check(False, "response-truncated-or-extended:apdu%d%s" % (i, after))
        sx.check(sx.eq(got, expect), "response-differs:apdu%d%s" % (i, after))
        outcome.append("ok")
        sx.reach("apdu_completed")
        if faults.used:
            sx.reach("completed_despite_faults")
    for n in card.blocks_seen:
        sx.check(n + 2 <= fsc, "block-exceeds-card-frame-size")
    if any(c > m for c in [len(c) for c in cmds]):
        sx.reach("command_chained")
    if tx_size and any(len(r) + 2 > tx_size for r in rsps):
        sx.reach("response_chained")
    if wtx:
        sx.reach("wtx")
    return outcome


def tags_fsc(fsci):
    return (16, 24, 32, 40, 48, 64, 96, 128, 256)[fsci]


def size_of(spec, m):
    if isinstance(spec, str):
        if "m" not in spec:
            return int(spec)
        k, d = spec.split("m")
        return max(int(k or 1) * m + int(d or 0), 0)
    return spec


def partitions(tier):
    P = []
    kinds = ["cmd-lost", "rsp-lost", "rsp-garbled"]
    budget = 2 if tier == "quick" else 3
    sizes = [("1", "1"), ("1m", "1m"), ("1m+1", "1m+1"), ("2m+1", "1"), ("1", "2m+1"), ("2m", "2m")]
    for typ, fsci in (("A", 2), ("B", 3), ("A", 0)) + ((("A", 8), ("B", 5)) if tier != "quick" else ()):
        tx = tags_fsc(fsci) - 3 if fsci < 8 else 40
        for cl, rl in sizes:
            P.append(dict(name="%s:fsci%d:%s:%s" % (typ, fsci, cl, rl), fn="conversation",
                          params=dict(typ=typ, fsci=fsci, fwi=4, tx_size=tx, clens=[cl], rlens=[rl],
                                      wtx=[], budget=budget, kinds=kinds)))
    # consecutive APDUs (block number toggles across them), WTX, no retry budget
    P.append(dict(name="A:two-apdus", fn="conversation",
                  params=dict(typ="A", fsci=2, fwi=4, tx_size=29, clens=["1m+1", 3], rlens=[2, "1m+1"],
                              wtx=[], budget=2, kinds=kinds)))
    P.append(dict(name="A:three-apdus", fn="conversation",
                  params=dict(typ="A", fsci=2, fwi=4, tx_size=29, clens=[1, 1, 1], rlens=[1, 1, 1],
                              wtx=[], budget=budget, kinds=kinds)))
    P.append(dict(name="B:wtx", fn="conversation",
                  params=dict(typ="B", fsci=2, fwi=4, tx_size=29, clens=[2, "1m+1"], rlens=["1m+1", 1],
                              wtx=[0, 1], budget=2, kinds=kinds)))
    # several waiting-time extensions for one command, more than the retry
    # budget for lost blocks (5 at FWI 4, 1 at FWI 11, 0 at FWI 14)
    P.append(dict(name="A:wtx-repeated", fn="conversation",
                  params=dict(typ="A", fsci=2, fwi=4, tx_size=29, clens=[2, "1m+1"], rlens=["1m+1", 1],
                              wtx=[0, 1], budget=1, kinds=kinds, wtx_counts=[2, 6, 9])))
    P.append(dict(name="A:wtx-repeated:fwi11", fn="conversation",
                  params=dict(typ="A", fsci=2, fwi=11, tx_size=29, clens=[2], rlens=[1],
                              wtx=[0], budget=1, kinds=kinds, wtx_counts=[1, 2, 3])))
    P.append(dict(name="A:wtx:fwi14", fn="conversation",
                  params=dict(typ="A", fsci=2, fwi=14, tx_size=29, clens=[2], rlens=[1],
                              wtx=[0], budget=0, kinds=kinds, wtx_counts=[1, 2])))
    # retry budget 1 (FWI 11) and an exchange chained over three blocks each
    # way: one fault at each of two different blocks stays within the budget
    P.append(dict(name="A:fwi11:chained", fn="conversation",
                  params=dict(typ="A", fsci=2, fwi=11, tx_size=29, clens=["2m+1"], rlens=["2m+1"],
                              wtx=[], budget=2 if tier == "quick" else 3, kinds=kinds)))
    # activation responses with every subset of interface bytes; the card is
    # slow but within the frame waiting time it announced
    for fwi in (7, 10):
        P.append(dict(name="A:ats-layout:fwi%d" % fwi, fn="conversation",
                      params=dict(typ="A", fsci=2, fwi=fwi, tx_size=29, clens=[2, 1], rlens=[1, 2],
                                  wtx=[], budget=0, kinds=kinds,
                                  ats_layouts=["ABC", "BC", "AB", "B", "", "A", "C", "AC"])))
    # the frame size of the card comes from T0 whatever interface bytes
    # follow: small FSCI with every ATS layout and a command longer than FSC-3
    for fsci in (0, 1, 4):
        P.append(dict(name="A:ats-layout:fsci%d" % fsci, fn="conversation",
                      params=dict(typ="A", fsci=fsci, fwi=4, tx_size=tags_fsc(fsci) - 3,
                                  clens=["2m+1", 1], rlens=[1, "1m+1"],
                                  wtx=[], budget=0, kinds=kinds,
                                  ats_layouts=["", "A", "B", "C", "ABC"])))
    P.append(dict(name="A:no-retry-budget", fn="conversation",
                  params=dict(typ="A", fsci=2, fwi=14, tx_size=29, clens=["1m+1"], rlens=["1m+1"],
                              wtx=[], budget=1, kinds=kinds)))
    P.append(dict(name="A:wtx-in-command-chain", fn="conversation",
                  params=dict(typ="A", fsci=2, fwi=4, tx_size=29, clens=["2m+1", 2], rlens=[2, 1],
                              wtx=[], budget=1, kinds=kinds, wtx_in_cmd_chain=True)))
    P.append(dict(name="A:wtx-in-response-chain", fn="conversation",
                  params=dict(typ="A", fsci=2, fwi=4, tx_size=29, clens=[2], rlens=["2m+1"],
                              wtx=[], budget=1, kinds=kinds, wtx_in_chain=True)))
    # a failed exchange (retry budget 1 exhausted) followed by further APDUs
    P.append(dict(name="A:after-failure", fn="conversation",
                  params=dict(typ="A", fsci=2, fwi=11, tx_size=29, clens=[2, 3, 1], rlens=[3, 2, 1],
                              wtx=[], budget=3, kinds=kinds, go_on=True)))
    return P


MUST_REACH = ["apdu_completed", "completed_despite_faults", "tag_command_error",
              "command_chained", "response_chained", "wtx", "apdu_after_failed_exchange", "failed_exchange_never_reached_the_card", "wtx_during_response_chaining", "wtx_during_command_chaining", "wtx_repeated", "wtx_with_power_level_bits", "ats_layout_varied"]
BOUNDS = {"quick": "<=2 faults per conversation out of {command lost, response lost, response garbled} at each of the first 24 blocks; FSCI 0/2/3; command/response lengths around multiples of FSC-3 (chaining both ways, three blocks each way at FWI 11); 1-3 consecutive APDUs; 1..9 consecutive S(WTX) (more than the retry budget), S(WTX) inside a chained response; FWI 4, 7, 10, 11 and 14 (retry budgets 5, 3, 1, 0); ATS with every subset of TA(1)/TB(1)/TC(1) and a card that needs 60 % of its announced frame waiting time; Type 4A and 4B; APDU and response bytes symbolic.  Absorption is judged per block: no block hit more often than the budget; added later: ATS layouts at FSCI 0/1/4; power level indication 0/1/3 and WTXM 1/59 in S(WTX); S(WTX) while a command is being chained; failed exchanges of which no frame reached the card",
          "thorough": "<=3 faults; FSCI 0/2/3/5/8"}
OUTSIDE = ["CID/NAD", "extended length APDUs", "more than 24 blocks per conversation", "FSD below 256"]
ASSUMPTIONS = ["Tt4Card follows the ISO/IEC 14443-4 PICC rules (env/tags.py)", "a garbled command is ignored by the card (reader sees a time-out)",
               "card timing: with busy_fraction set the card answers only if the reader waits at least that fraction of the announced FWT, and does not listen while busy"]
