"""C03 - NDEF writes touch nothing outside the NDEF message area."""
from harness import worlds, ndefflow
from harness.c01_ndef import lens_for, T2_LAYOUTS_48, THOROUGH_ONLY

PROPERTY = "C03"


def t2_write(sx, S, prefix, rsv, oldlens, lens, long, concrete=False):
    oldlen = sx.pick("oldlen", oldlens)
    w = worlds.T2World(sx, S, prefix, [tuple(r) for r in rsv], oldlen, old_lt_80=long,
                       symbolic_window=(0, 0) if concrete else None)
    w.long_trick = long
    n = sx.pick("n", [x for x in lens_for(w.cap, lens + ["cap+1", "cap+8"], slack=8)])
    return ndefflow.roundtrip(sx, w, n, prop="C03")


def t2_reread(sx, S, prefix, rsv, oldlen, lens):
    w = worlds.T2World(sx, S, prefix, [tuple(r) for r in rsv], oldlen, old_lt_80=True)
    n = sx.pick("n", [x for x in lens_for(w.cap, lens)])
    return ndefflow.reread_then_write(sx, w, n)


def t1_reread(sx, hr, size, prefix, rsv, oldlen, lens):
    w = worlds.T1World(sx, tuple(hr), size, prefix, [tuple(r) for r in rsv], oldlen, old_lt_80=True)
    n = sx.pick("n", [x for x in lens_for(w.cap, lens)])
    return ndefflow.reread_then_write(sx, w, n)


def t2_format(sx, S, prefix, rsv, oldlens, wipe):
    oldlen = sx.pick("oldlen", oldlens)
    w = worlds.T2World(sx, S, prefix, [tuple(r) for r in rsv], oldlen, old_lt_80=True)
    return ndefflow.formatflow(sx, w, wipe)


def t2_format_big(sx, S, oldlen):
    w = worlds.T2World(sx, S, "", [], oldlen, old_lt_80=True, symbolic_window=(0, 0))
    return ndefflow.formatflow(sx, w, 1)


def t1_write(sx, hr, size, prefix, rsv, oldlens, lens, long, concrete=False):
    oldlen = sx.pick("oldlen", oldlens)
    w = worlds.T1World(sx, tuple(hr), size, prefix, [tuple(r) for r in rsv], oldlen,
                       old_lt_80=long, phys=512 if size == 296 else None,
                       symbolic_window=(0, 0) if concrete else None)
    w.long_trick = long
    n = sx.pick("n", [x for x in lens_for(w.cap, lens + ["cap+1", "cap+8"], slack=8)])
    return ndefflow.roundtrip(sx, w, n, prop="C03")


def t1_format(sx, hr, size, prefix, rsv, oldlens, wipe):
    oldlen = sx.pick("oldlen", oldlens)
    w = worlds.T1World(sx, tuple(hr), size, prefix, [tuple(r) for r in rsv], oldlen,
                       old_lt_80=True, exact=True)
    return ndefflow.formatflow(sx, w, wipe)


def t3_write(sx, nbr, nbw, nmaxb, oldlens, lens, emulated):
    oldlen = sx.pick("oldlen", [o for o in oldlens if o <= nmaxb * 16])
    w = worlds.T3World(sx, nbr, nbw, nmaxb, oldlen, emulated=emulated)
    n = sx.pick("n", [x for x in lens_for(w.cap, lens + ["cap+1", "cap+8"], slack=8)])
    return ndefflow.roundtrip(sx, w, n, prop="C03")


def t4_write(sx, ver, mle, mlc, mfs, oldlens, lens, typ, fsci):
    oldlen = sx.pick("oldlen", oldlens)
    # the card's file is 6 bytes longer than the capability container declares
    w = worlds.T4World(sx, ver, sx.int("mle", mle[0], mle[1]), sx.int("mlc", mlc[0], mlc[1]),
                       mfs, oldlen, typ=typ, fsci=fsci, guard=6)
    n = sx.pick("n", [x for x in lens_for(w.cap, lens + ["cap+1", "cap+8"], slack=8)])
    return ndefflow.roundtrip(sx, w, n, prop="C03")


def t4_format(sx, ver, mle, mlc, mfs, oldlens, wipe, typ, fsci):
    oldlen = sx.pick("oldlen", oldlens)
    w = worlds.T4World(sx, ver, sx.int("mle", mle[0], mle[1]), sx.int("mlc", mlc[0], mlc[1]),
                       mfs, oldlen, typ=typ, fsci=fsci, guard=6)
    return ndefflow.formatflow(sx, w, wipe)


T1 = [("topaz", (0x11, 0x48), 120, "", []),
      ("static", (0x11, 0x00), 120, "N", []),
      ("static-m", (0x11, 0x48), 120, "M", [(40, 8)]),
      ("topaz512", (0x12, 0x4C), 512, "LM", [(122, 6), (120, 2)]),
      ("dynamic", (0x12, 0x00), 512, "NLM", [(122, 6), (200, 9)]),
      ("dynamic-bare", (0x12, 0x4C), 512, "", []),
      # 257 / 258 bytes left for the NDEF TLV: both sides of the switch to the
      # three-byte length format in the capacity calculation
      ("dyn296:NNN", (0x13, 0x00), 296, "NNN", []),
      ("dyn296:NN", (0x13, 0x00), 296, "NN", []),
      # reserved bytes up to the last byte of the declared data area, memory
      # goes on behind it: a full message ends right in front of them
      ("dyn296:M-tail", (0x13, 0x00), 296, "M", [(288, 8)])]


def partitions(tier):
    parts = []
    # history: has_changed interrupted at every command, then a write through
    # the same NDEF object; reserved range inside the message / lock bytes
    for nm, prefix, rsv in (("M", "M", [(30, 4)]), ("LM", "LM", [(64, 2), (40, 3)])):
        parts.append(dict(name="t2:48:%s:reread" % nm, fn="t2_reread",
                          params=dict(S=48, prefix=prefix, rsv=rsv, oldlen=5, lens=[3, 20, "cap"])))
    parts.append(dict(name="t1:static-m:reread", fn="t1_reread",
                      params=dict(hr=(0x11, 0x48), size=120, prefix="M", rsv=[(40, 8)], oldlen=5,
                                  lens=[3, 40, "cap"])))
    parts.append(dict(name="t1:dynamic:reread", fn="t1_reread",
                      params=dict(hr=(0x12, 0x00), size=512, prefix="NLM", rsv=[(122, 6), (200, 9)],
                                  oldlen=5, lens=[3, 200])))
    for i, (prefix, rsv) in enumerate(T2_LAYOUTS_48):
        if tier == "quick" and prefix in THOROUGH_ONLY:
            continue
        parts.append(dict(name="t2:48:%s:%d:write" % (prefix or "-", i), fn="t2_write",
                          params=dict(S=48, prefix=prefix, rsv=rsv, oldlens=[0, 3],
                                      lens=[0, 1, 5, 9, "cap-1", "cap"] if tier == "quick"
                                      else list(range(0, 47)), long=True)))
        for wipe in (None, 1):
            parts.append(dict(name="t2:48:%s:%d:format:%s" % (prefix or "-", i, wipe), fn="t2_format",
                              params=dict(S=48, prefix=prefix, rsv=rsv, oldlens=[0, 3], wipe=wipe)))
    for S in ([496] if tier == "quick" else [496, 872, 2032]):
        for prefix, rsv in [("", []), ("L", [(896 if S == 872 else 16 + S, (S - 48 + 63) // 64)]), ("NM", [(320, 8)])]:
            parts.append(dict(name="t2:%d:%s:write" % (S, prefix or "-"), fn="t2_write",
                              params=dict(S=S, prefix=prefix, rsv=rsv, oldlens=[0, 255],
                                          lens=[3, 254, 255, "cap"], long=True)))
            parts.append(dict(name="t2:%d:%s:format" % (S, prefix or "-"), fn="t2_format",
                              params=dict(S=S, prefix=prefix, rsv=rsv, oldlens=[0, 255], wipe=1)))
    for ver, typ, fsci in [(0x20, "A", 8), (0x30, "B", 5)]:
        parts.append(dict(name="t4:%02x:%s:write" % (ver, typ), fn="t4_write",
                          params=dict(ver=ver, mle=[15, 0xFFFF], mlc=[1, 0xFFFF], mfs=16,
                                      oldlens=[0, 3], lens=[0, 1, 7, "cap"], typ=typ, fsci=fsci)))
        for wipe in (None, 1):
            parts.append(dict(name="t4:%02x:%s:format:%s" % (ver, typ, wipe), fn="t4_format",
                              params=dict(ver=ver, mle=[15, 0xFFFF], mlc=[1, 0xFFFF], mfs=16,
                                          oldlens=[0, 3], wipe=wipe, typ=typ, fsci=fsci)))
    for emulated in (False, True):
        for nbr, nbw, nmaxb in [(1, 1, 1), (4, 3, 5), (15, 13, 14), (3, 2, 4)]:
            parts.append(dict(name="t3%s:%d:%d:%d:write" % ("emu" if emulated else "", nbr, nbw, nmaxb),
                              fn="t3_write", params=dict(nbr=nbr, nbw=nbw, nmaxb=nmaxb, oldlens=[0, 17],
                                                         lens=[0, 1, 16, 17, "cap-1", "cap"],
                                                         emulated=emulated)))
    # two sectors: a message (and a wiping format) that reaches beyond the
    # first 1 KiB - pages are written in the sector they belong to
    parts.append(dict(name="t2:2032:sector:write", fn="t2_write",
                      params=dict(S=2032, prefix="", rsv=[], oldlens=[0], lens=[1003, 1100],
                                  long=True, concrete=True)))
    parts.append(dict(name="t2:2032:sector:format", fn="t2_format_big",
                      params=dict(S=2032, oldlen=1100)))
    # control TLVs whose size byte is 00h (256 reserved bytes / 256 lock bits)
    parts.append(dict(name="t1:dyn1024:L256+M256:write", fn="t1_write",
                      params=dict(hr=(0x12, 0x00), size=1024, prefix="LM", rsv=[(128, 32), (512, 256)],
                                  oldlens=[0], lens=[9, 400, "cap"], long=True, concrete=True)))
    for nm, pre, rsv in (("M256", "M", [(384, 256)]), ("L256", "L", [(384, 32)])):
        parts.append(dict(name="t2:872:%s:write" % nm, fn="t2_write",
                          params=dict(S=872, prefix=pre, rsv=rsv, oldlens=[0], lens=[5, 380, "cap"],
                                      long=True, concrete=True)))
    for name, hr, size, prefix, rsv in T1:
        lens = [0, 1, 5, "cap-1", "cap"] if size == 120 else [0, 3, 254, 255, "cap"]
        if size == 296:
            lens = [253, 254, 255, 256, "cap"]
        parts.append(dict(name="t1:%s:write" % name, fn="t1_write",
                          params=dict(hr=hr, size=size, prefix=prefix, rsv=rsv,
                                      oldlens=[0, 4], lens=lens, long=True)))
        if name not in ("topaz", "topaz512", "static"):
            # vendor format() re-creates the management data of the vendor's
            # own standard layout by design: only judged on that layout (and
            # on a generic tag, where format is not available)
            continue
        for wipe in (None, 1):
            parts.append(dict(name="t1:%s:format:%s" % (name, wipe), fn="t1_format",
                              params=dict(hr=hr, size=size, prefix=prefix, rsv=rsv,
                                          oldlens=[0, 4], wipe=wipe)))
    return parts


MUST_REACH = ["reread_with_outage", "format_wipe", "format_no_wipe", "rsv_inside_message", "rsv_beyond_data_area",
              "rsv_at_end_of_data_area", "rsv_before_ndef_tlv"]
BOUNDS = {"quick": "the Type 1/2 structured layouts of C01 (incl. the 296-byte Type 1 layouts with 257/258 bytes left and 216 guard bytes behind the declared area), Type 3 (four triples, emulation too) and Type 4 (6 guard bytes behind the declared file) worlds; message lengths from boundary sets up to capacity+8; format with/without a symbolic wipe byte; all other memory symbolic; added later: has_changed interrupted at every command followed by a write through the same NDEF object; control TLVs with size byte 00h; a two-sector Type 2 tag written and wiped beyond 1 KiB; a 296-byte Type 1 layout whose last 8 declared bytes are reserved (memory goes on behind)",
          "thorough": "as quick with every length for 48-byte areas and larger data areas"}
OUTSIDE = ["layouts with more than two lock- or memory-control TLVs of a kind", "Topaz/Topaz-512 format() on layouts other than the vendor's standard layout (it re-creates that layout by design)", "format(wipe) with a wipe value below 0x80 (value ranges of old and new contents are separated to avoid 2^pages forks)"]
ASSUMPTIONS = ["NDEF message area := bytes from the NDEF TLV's length byte to the end of the data area minus reserved ranges, computed by the harness from the layout it generated"]
