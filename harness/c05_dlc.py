"""C05 - LLCP connections deliver in order, exactly once, within the window.

Real code executed: nfc.llcp.tco.DataLinkConnection (send, recv, enqueue,
_enqueue_state_established, dequeue, sendack, setsockopt, close, poll) and, in
the second layer, nfc.llcp.llc.LogicalLinkController (listen, connect, accept,
send, recvfrom, collect, dispatch) with nfc.llcp.pdu encode/decode in between.

Oracle: Ledger below - a reference sliding-window model per direction.
"""
import errno
from harness.util import same
from env import llcp as envl
import nfc.llcp
import nfc.llcp.llc as llcmod
import nfc.llcp.tco as tco
import nfc.llcp.pdu as pdu
from harness import c05_coop
from harness.c05_coop import two_senders      # noqa: F401 (partition fn)

envl.install()

PROPERTY = "C05"
DONTWAIT = nfc.llcp.MSG_DONTWAIT
OTHER = {"A": "B", "B": "A"}


def message(sx, idx, n):
    """n octets; first = running index (distinct per message), second symbolic"""
    if n == 0:
        return b""
    items = [idx & 255] + [(idx * 5 + i) & 255 for i in range(1, n)]
    if n > 1:
        items[1] = sx.byte("m%d" % idx)
    return sx.mkbytes(items, False)


# ----------------------------------------------------------------------------
# reference model
# ----------------------------------------------------------------------------
class Ledger(object):
    def __init__(self, sx, rw, miu, s0):
        self.sx = sx
        self.rw = rw            # end -> receive window that end announced
        self.miu = miu          # end -> receive MIU that end announced
        self.s0 = s0            # end -> initial V(S) of that end
        self.sent = {"A": [], "B": []}      # messages accepted by send()
        self.tx = {"A": 0, "B": 0}          # I PDUs that crossed the link
        self.got = {"A": [], "B": []}       # messages returned by recv()
        self.ackd = {"A": 0, "B": 0}        # own messages acknowledged
        self.closed = False
        self.closers = []       # ends that called close(), in order
        self.unread_at_close = 0
        self.nmsg = 0

    # ---- application calls
    def send_outcome(self, e, n, accepted, err):
        """check the outcome of send() of n octets on end e against the
        window/MIU state before the call"""
        sx, p = self.sx, OTHER[e]
        if self.closed:
            return
        outstanding = len(self.sent[e]) - self.ackd[e]
        too_long = n > self.miu[p]
        full = outstanding >= self.rw[p]
        if accepted:
            sx.check_all([(sx.neg(too_long), "send-accepts-message-over-miu"),
                          (sx.neg(full), "send-accepted-beyond-window")])
            sx.reach("send:accepted")
        elif err == errno.EMSGSIZE:
            sx.check(too_long, "send-refuses-message-within-miu")
            sx.reach("send:EMSGSIZE")
        elif err in (errno.EWOULDBLOCK, "block"):
            sx.check_all([(sx.neg(too_long), "send-over-miu-not-EMSGSIZE"),
                          (full, "send-blocked-although-window-open")])
            sx.reach("send:window-full")
        else:
            sx.check(False, "send-unexpected-error")

    def recv_outcome(self, e, r):
        sx, p = self.sx, OTHER[e]
        arrived = self.tx[p] - len(self.got[e])
        if r is None:
            if not self.closed:
                sx.check(arrived == 0, "recv-blocks-although-message-arrived")
            sx.reach("recv:nothing")
            return
        k = len(self.got[e])
        if k >= len(self.sent[p]):
            sx.check(False, "recv-returns-message-never-sent")
        sx.check(same(sx, r, self.sent[p][k]), "recv-out-of-order-or-altered")
        if arrived <= 0:
            sx.check(False, "recv-returns-message-before-it-crossed")
        self.got[e].append(r)
        sx.reach("recv:message")

    # ---- link
    def crossing(self, e, q):
        """PDU q (decoded at the receiver) crosses from end e to its peer"""
        sx, p = self.sx, OTHER[e]
        n = q.name
        sx.reach("wire:" + n)
        if n == "FRMR":
            sx.check(False, "frame-reject-between-conforming-ends")
        if n in ("DISC", "DM"):
            if not self.closed:
                sx.check(False, "disconnect-without-close")
            return
        if n not in ("I", "RR", "RNR"):
            sx.check(False, "unexpected-pdu-on-connection:" + n)
        obl = []
        if n == "I":
            k = self.tx[e]
            if k >= len(self.sent[e]):
                sx.check(False, "i-pdu-without-message")
            self.tx[e] = k + 1
            obl = [(q.ns == (self.s0[e] + k) % 16, "wrong-send-sequence-number"),
                   (same(sx, q.data, self.sent[e][k]), "i-pdu-carries-wrong-message"),
                   (len(q.data) <= self.miu[p], "i-pdu-exceeds-connection-miu"),
                   (self.tx[e] - self.ackd[e] <= self.rw[p],
                    "more-i-pdus-outstanding-than-window")]
        # N(R): acknowledges messages of p that reached e and were not yet
        # acknowledged
        new = (q.nr - (self.s0[p] + self.ackd[p])) % 16
        pending = self.tx[p] - self.ackd[p]
        obl.append((new <= pending, "acknowledges-more-than-received:" + n))
        # the receive buffer of an end equals the window it announced, so the
        # buffer cannot overflow iff  unread + in flight + remaining credit
        # = RW + acknowledged - taken <= RW: N(R) may only cover I PDUs the
        # application has taken with recv()
        taken = len(self.got[e]) - self.ackd[p]
        obl.append((new <= taken,
                    "acknowledges-message-not-yet-taken-by-recv:" + n))
        sx.check_all(obl)
        new = sx.concrete(new)
        if new:
            sx.reach("wire:ack")
        self.ackd[p] += new

    def state(self, ends):
        """V(S), V(SA) of the real objects against the ledger"""
        sx = self.sx
        if self.closed:
            return
        obl = []
        for e in "AB":
            d, p = ends[e], OTHER[e]
            out = (d.send_cnt - d.send_ack) % 16
            obl += [(out <= self.rw[p], "outstanding-exceeds-window"),
                    (out == len(self.sent[e]) - self.ackd[e],
                     "sequence-state-differs-from-ledger"),
                    (d.send_cnt == (self.s0[e] + len(self.sent[e])) % 16,
                     "send-state-variable-wrong")]
        sx.check_all(obl)

    def complete(self):
        sx = self.sx
        for e in "AB":
            p = OTHER[e]
            if len(self.got[p]) != len(self.sent[e]):
                sx.check(False, "accepted-message-not-delivered")
            if self.ackd[e] != len(self.sent[e]):
                sx.check(False, "delivered-message-never-acknowledged")
        sx.reach("drained")


# ----------------------------------------------------------------------------
# layer 1: two DataLinkConnection objects
# ----------------------------------------------------------------------------
def established(addr, peer, rw_l, rw_r, miu_l, miu_r, vs, vr):
    """the state connect()/accept() leave a socket in, with the sequence
    variables advanced by vs / vr completed exchanges"""
    d = tco.DataLinkConnection(recv_miu=miu_l, recv_win=rw_l)
    d.addr, d.peer = addr, peer
    d.send_miu, d.send_win = miu_r, rw_r
    d.send_cnt = d.send_ack = vs
    d.recv_cnt = d.recv_ack = vr
    d.state.ESTABLISHED = True
    return d


class Pair(object):
    """two ends and the operations of a history"""

    def __init__(self, sx, ends, led, link_miu=2175):
        self.sx, self.ends, self.led = sx, ends, led
        self.link_miu = link_miu
        self.busy = {"A": False, "B": False}
        self.inflight = 0       # I PDUs of the frame being delivered

    # overridden by the LLC layer
    def do_send(self, e, m, flags):
        return self.ends[e].send(m, flags)

    def do_recv(self, e):
        return self.ends[e].recv()

    def next_pdu(self, e):
        d = self.ends[e]
        p = d.dequeue(self.link_miu, 0)
        if p is None:
            p = d.sendack()
        return [p] if p is not None else []

    def deliver(self, e, q):
        for x in (q if q.name == "AGF" else [q]):
            self.ends[e].enqueue(x)

    # ---- operations
    def send(self, e, n, flags=DONTWAIT):
        sx, led = self.sx, self.led
        m = message(sx, led.nmsg, n)
        led.nmsg += 1
        d = self.ends[e]
        before = len(d.send_queue)
        try:
            r = self.do_send(e, m, flags)
        except nfc.llcp.Error as x:
            if led.closed:
                return "refused-after-close"
            led.send_outcome(e, n, False, x.errno)
            return errno.errorcode[x.errno]
        except envl.WouldBlock:
            # without MSG_DONTWAIT: either waiting for the window (nothing
            # queued) or queued and waiting for transmission
            if len(d.send_queue) == before:
                led.send_outcome(e, n, False, "block")
                return "blocked"
            r = True
        if led.closed:
            led.sent[e].append(m)
            return "sent-after-close"
        led.send_outcome(e, n, True, None)
        sx.check(r is True, "send-returns-false-on-established-connection")
        led.sent[e].append(m)
        return "sent"

    def recv(self, e):
        led = self.led
        try:
            r = self.do_recv(e)
        except envl.WouldBlock:
            r = None
        except nfc.llcp.Error:
            if led.closed:
                return "closed"
            raise
        led.recv_outcome(e, r)
        return "none" if r is None else "msg"

    def transfer(self, e):
        """one link exchange from end e to its peer"""
        out = []
        for p in self.next_pdu(e):
            try:
                enc = pdu.encode(p)
            except pdu.EncodeError:
                # (in the run loop: exchange() logs it, returns None and the
                # link is terminated as disrupted)
                self.sx.check(False, "pdu-not-encodable:%s%s" % (
                    p.name, ":after-close" if self.led.closed else ""))
            q = pdu.decode(enc)
            for x in (q if q.name == "AGF" else [q]):
                self.led.crossing(e, x)
                out.append(x.name)
                if x.name == "I" and not self.led.closed:
                    # enqueue() drops an I PDU (after advancing V(R)) when the
                    # receive queue is full: never between conforming ends
                    d = self.ends[OTHER[e]]
                    room = d.recv_buf - len(d.recv_queue) - self.inflight
                    self.sx.check(room > 0, "i-pdu-discarded-receive-buffer-full")
                    self.inflight += 1
            self.inflight = 0
            self.deliver(OTHER[e], q)
        return out

    def set_busy(self, e):
        self.busy[e] = not self.busy[e]
        self.ends[e].setsockopt(nfc.llcp.SO_RCVBSY, self.busy[e])
        return "busy" if self.busy[e] else "ready"

    def close(self, e):
        try:
            self.do_close(e)
        except envl.WouldBlock:
            pass
        if not self.led.closed:
            # unread messages in the closing socket at the time of close()
            self.led.unread_at_close = \
                self.led.tx[OTHER[e]] - len(self.led.got[e])
        self.led.closed = True
        self.led.closers.append(e)
        self.sx.reach("closed")
        return "close"

    def do_close(self, e):
        self.ends[e].close()

    def burst(self, e):
        """up to 3 messages, each sent as soon as the window allows and
        carried over the link before the peer reads anything"""
        out = []
        for j in range(3):
            r = self.send(e, 1)
            out.append(r)
            if r != "sent":
                break
            self.transfer(e)
        return out

    def finish_close(self):
        """one end closed, the other did not: everything that end's send()
        accepted before is read by the peer before it sees the end of the
        connection (I PDUs leave before the DISC)"""
        led, sx = self.led, self.sx
        if len(led.closers) != 1:
            return
        e = led.closers[0]
        p = OTHER[e]
        for rnd in range(8):
            moved = 0
            for x in "AB":
                n = 0
                while self.transfer(x):
                    moved += 1
                    n += 1
                    if n > 40:
                        sx.check(False, "connection-does-not-quiesce")
            while self.recv(p) == "msg":
                moved += 1
            if not moved:
                break
        if len(led.got[p]) != len(led.sent[e]):
            sx.check(False, "accepted-message-lost-by-close" + (
                ":closer-had-unread-messages" if led.unread_at_close else ""))
        sx.reach("close:all-delivered")

    def acks(self, e):
        """poll('acks'): true at most once per acknowledged message"""
        r = self.ends[e].poll("acks", 0.0)
        if self.led.closed:
            return "closed"
        self.polled = getattr(self, "polled", {"A": 0, "B": 0})
        if r:
            self.polled[e] += 1
            self.sx.check(self.polled[e] <= self.led.ackd[e],
                          "poll-acks-reports-more-than-acknowledged")
            self.sx.reach("acks:yes")
        else:
            self.sx.check(self.polled[e] >= self.led.ackd[e],
                          "poll-acks-misses-an-acknowledgement")
        return "ack" if r else "noack"

    def op(self, name):
        k, e = name[:-1], name[-1]
        if k == "send":
            return self.send(e, 1)
        if k == "sendbig":
            return self.send(e, 129)
        if k == "sendwait":
            return self.send(e, 2, 0)
        if k == "recv":
            return self.recv(e)
        if k == "xfer":
            return self.transfer(e)
        if k == "busy":
            return self.set_busy(e)
        if k == "close":
            return self.close(e)
        if k == "burst":
            return self.burst(e)
        if k == "acks":
            return self.acks(e)
        raise ValueError(name)

    def drain(self):
        """link exchanges and application reads until nothing moves"""
        for rnd in range(80):
            moved = 0
            for e in "AB":
                while self.transfer(e):
                    moved += 1
            for e in "AB":
                while self.recv(e) == "msg":
                    moved += 1
            if not moved:
                return
        self.sx.check(False, "connection-does-not-quiesce")


OPS_CORE = ["sendA", "sendB", "recvA", "recvB", "xferA", "xferB"]
OPS_MORE = OPS_CORE + ["busyB", "sendbigA", "closeA"]
OPS_ALL = OPS_MORE + ["sendwaitA", "acksA", "busyA", "closeB", "sendbigB"]
OPS_ONEWAY = ["sendA", "xferA", "xferB", "recvB"]
OPS_ACKS = ["xferB", "acksA", "sendA", "xferA", "recvB"]
OPS_BUSY = ["busyA", "xferA", "sendB", "xferB", "recvA"]
OPS_CLOSE = ["sendA", "xferA", "recvB", "closeA", "sendB", "xferB"]
TABLES = {"core": OPS_CORE, "more": OPS_MORE, "all": OPS_ALL,
          "oneway": OPS_ONEWAY, "acks": OPS_ACKS, "close": OPS_CLOSE,
          "busy": OPS_BUSY}


def run_history(sx, pair, prefix, k, table):
    trace = []
    step = 0
    for name in prefix:
        trace.append([name, pair.op(name)])
        step += 1
    pair.led.state(pair.ends)
    for j in range(k):
        name = sx.pick("op%d" % step, [None] + TABLES[table])
        if name is None:
            break
        trace.append([name, pair.op(name)])
        if name[:4] in ("send", "xfer"):
            pair.led.state(pair.ends)
        step += 1
    if not pair.led.closed:
        pair.drain()
        pair.led.state(pair.ends)
        pair.led.complete()
    else:
        pair.finish_close()
    return trace


def dlc_pair(sx, prefix, k, table, warm):
    rw = {"A": sx.int("rwA", 0, 15), "B": sx.int("rwB", 0, 15)}
    s0 = {"A": sx.int("s0A", 0, 15), "B": sx.int("s0B", 0, 15)}
    miu = {"A": sx.int("miuA", 128, 2175), "B": sx.int("miuB", 128, 2175)}
    A = established(32, 16, rw["A"], rw["B"], miu["A"], miu["B"], s0["A"], s0["B"])
    B = established(16, 32, rw["B"], rw["A"], miu["B"], miu["A"], s0["B"], s0["A"])
    led = Ledger(sx, rw, miu, s0)
    pair = Pair(sx, {"A": A, "B": B}, led)
    for name in warm:
        pair.op(name)
    return run_history(sx, pair, prefix, k, table)


def reset(sx):
    envl.WhileWaiting.fn = None


def wire(p):
    return pdu.decode(pdu.encode(p))


def handshake_pair(sx, prefix, k, table, s0sym):
    """the pair is produced by the real connect()/listen()/accept() code: A
    (SO_RCVBUF = rwA) connects; while its connect() sleeps, the CONNECT PDU
    reaches the listening socket of B (SO_RCVBUF = rwB), accept() answers
    with CC, the CC reaches A and connect() resumes.  The ledger is
    initialised from what each side ANNOUNCED on the wire."""
    rwA, rwB = sx.int("rwA", 1, 15), sx.int("rwB", 1, 15)
    miuA = sx.pick("miuA", [128, 131])
    miuB = sx.pick("miuB", [128, 2175])
    A = tco.DataLinkConnection(128, 1)
    A.setsockopt(nfc.llcp.SO_RCVBUF, rwA)
    A.setsockopt(nfc.llcp.SO_RCVMIU, miuA)
    A.bind(32)
    L = tco.DataLinkConnection(128, 1)
    L.setsockopt(nfc.llcp.SO_RCVBUF, rwB)
    L.setsockopt(nfc.llcp.SO_RCVMIU, miuB)
    L.bind(16)
    L.listen(1)
    seen = {}

    def link():
        c = wire(A.dequeue(2175, 0))
        seen["CONNECT"] = c
        L.enqueue(c)
        seen["B"] = L.accept()
        cc = wire(L.dequeue(2175, 0))
        seen["CC"] = cc
        A.enqueue(cc)
    envl.while_waiting(link)
    A.connect(16)
    B = seen["B"]
    c, cc = seen["CONNECT"], seen["CC"]
    if c.name != "CONNECT" or cc.name != "CC":
        sx.check(False, "handshake-pdus")
    sx.check_all([(c.rw == rwA, "handshake:connect-announces-other-window"),
                  (cc.rw == rwB, "handshake:cc-announces-other-window"),
                  (c.miu == miuA, "handshake:connect-announces-other-miu"),
                  (cc.miu == miuB, "handshake:cc-announces-other-miu"),
                  (A.send_win == cc.rw, "handshake:connector-send-window"),
                  (B.send_win == c.rw, "handshake:acceptor-send-window"),
                  (A.send_miu == cc.miu, "handshake:connector-send-miu"),
                  (B.send_miu == c.miu, "handshake:acceptor-send-miu")])
    if not (A.state.ESTABLISHED and B.state.ESTABLISHED):
        sx.check(False, "handshake:not-established")
    sx.check(A.peer == 16 and B.peer == 32 and B.addr == 16,
             "handshake-addresses")
    sx.reach("handshake-pair-established")
    rw = {"A": c.rw, "B": cc.rw}
    miu = {"A": c.miu, "B": cc.miu}
    s0 = {"A": 0, "B": 0}
    if s0sym:
        s0 = {"A": sx.int("s0A", 0, 15), "B": sx.int("s0B", 0, 15)}
        A.send_cnt = A.send_ack = B.recv_cnt = B.recv_ack = s0["A"]
        B.send_cnt = B.send_ack = A.recv_cnt = A.recv_ack = s0["B"]
    led = Ledger(sx, rw, miu, s0)
    pair = Pair(sx, {"A": A, "B": B}, led)
    return run_history(sx, pair, prefix, k, table)


# ----------------------------------------------------------------------------
# layer 2: two link controllers, collect()/dispatch() as the link
# ----------------------------------------------------------------------------
class LlcPair(Pair):
    def __init__(self, sx, llcs, ends, led):
        Pair.__init__(self, sx, ends, led)
        self.llcs = llcs

    def do_send(self, e, m, flags):
        return self.llcs[e].send(self.ends[e], m, flags)

    def do_recv(self, e):
        return self.llcs[e].recv(self.ends[e])

    def next_pdu(self, e):
        p = self.llcs[e].collect()
        return [p] if p is not None else []

    def deliver(self, e, q):
        self.llcs[e].dispatch(q)

    def do_close(self, e):
        self.llcs[e].close(self.ends[e])


def pump(src, dst):
    names = []
    while True:
        p = src.collect()
        if p is None:
            return names
        q = pdu.decode(pdu.encode(p))
        names.extend(x.name for x in (q if q.name == "AGF" else [q]))
        dst.dispatch(q)


def llc_pair(sx, prefix, k, table, agf):
    """real passive/active open over collect()/dispatch(): while connect()
    of B sleeps, the link carries CONNECT to A, A accepts, CC comes back and
    connect() resumes"""
    rw = {"A": sx.int("rwA", 0, 15), "B": sx.int("rwB", 0, 15)}
    s0 = {"A": sx.int("s0A", 0, 15), "B": sx.int("s0B", 0, 15)}
    link = sx.int("link_miu", 128, 2175)
    LA = llcmod.LogicalLinkController(sec=False, miu=2175)
    LB = llcmod.LogicalLinkController(sec=False, miu=2175)
    for L in (LA, LB):
        L.cfg['send-miu'] = link
        L.cfg['send-agf'] = bool(agf)
    # A listens, B connects
    ls = LA.socket(nfc.llcp.DATA_LINK_CONNECTION)
    LA.setsockopt(ls, nfc.llcp.SO_RCVBUF, rw["A"])
    LA.setsockopt(ls, nfc.llcp.SO_RCVMIU, 200)
    LA.bind(ls, b"urn:nfc:sn:c05")
    LA.listen(ls, 1)
    sb = LB.socket(nfc.llcp.DATA_LINK_CONNECTION)
    LB.setsockopt(sb, nfc.llcp.SO_RCVBUF, rw["B"])
    LB.setsockopt(sb, nfc.llcp.SO_RCVMIU, 300)
    seen = {}

    def run_loops():
        # what the two run loops do while connect() sleeps
        seen["c"] = pump(LB, LA)
        seen["sa"] = LA.accept(ls)
        seen["cc"] = pump(LA, LB)
    envl.while_waiting(run_loops)
    LB.connect(sb, b"urn:nfc:sn:c05")
    sx.check(seen["c"] == ["CONNECT"], "setup:connect-pdu")
    sx.check(seen["cc"] == ["CC"], "setup:cc-pdu")
    sa = seen["sa"]
    if not (sa.state.ESTABLISHED and sb.state.ESTABLISHED):
        sx.check(False, "handshake:not-established")
    # negotiated parameters as the handshake left them
    sx.check(sx.all([sa.send_win == rw["B"], sb.send_win == rw["A"],
                     sa.recv_win == rw["A"], sb.recv_win == rw["B"]]),
             "handshake-window-values")
    sx.check(sx.all([sa.peer == sb.addr, sb.peer == sa.addr]),
             "handshake-addresses")
    miu = {"A": sa.recv_miu, "B": sb.recv_miu}
    eff = {"A": sx.ite(link < miu["A"], link, miu["A"]),
           "B": sx.ite(link < miu["B"], link, miu["B"])}
    sx.check(sx.all([sa.send_miu == eff["B"], sb.send_miu == eff["A"]]),
             "handshake-miu-values")
    # sequence variables advanced by s0 completed exchanges
    sa.send_cnt = sa.send_ack = sb.recv_cnt = sb.recv_ack = s0["A"]
    sb.send_cnt = sb.send_ack = sa.recv_cnt = sa.recv_ack = s0["B"]
    led = Ledger(sx, rw, eff, s0)
    pair = LlcPair(sx, {"A": LA, "B": LB}, {"A": sa, "B": sb}, led)
    sx.reach("llc-pair-established")
    return run_history(sx, pair, prefix, k, table)


# ----------------------------------------------------------------------------
def partitions(tier):
    parts = []

    def add(fn, prefix, k, table, **kw):
        parts.append(dict(
            name="%s:%s:%s%s" % (fn, table, "+".join(prefix) or "-",
                                 "".join(":%s=%s" % (a, "+".join(b) if isinstance(b, list) else b)
                                         for a, b in sorted(kw.items()))),
            fn=fn, params=dict(prefix=prefix, k=k, table=table, **kw)))
    WARM1 = ["sendA", "sendA", "xferA", "sendB"]
    WARM2 = ["sendB", "xferB", "recvA", "sendB", "xferB"]
    # lagging reader: two messages arrived at B, one taken; what follows
    # includes the voluntary acknowledgement and the next burst
    LAG = ["sendA", "sendA", "xferA", "xferA", "recvB"]
    if tier == "quick":
        for a in OPS_CORE:
            for b in OPS_CORE:
                add("dlc_pair", [a, b], 2, "core", warm=[])
        for a in OPS_MORE:
            add("dlc_pair", [a], 2, "more", warm=[])
        for a in OPS_CORE:
            add("dlc_pair", [a], 2, "core", warm=WARM1)
        for a in OPS_ACKS:
            add("dlc_pair", [a], 2, "acks", warm=["sendA", "xferA", "recvB"])
        for a in OPS_CORE:
            add("dlc_pair", [a], 2, "core", warm=LAG)
        # receiver-busy change while a confirmation is pending (a message
        # was read, its acknowledgement not yet sent)
        CONF = ["sendB", "xferB", "recvA"]
        for pre in (["busyA"], ["busyA", "busyA"], ["busyA", "xferA", "busyA"]):
            add("dlc_pair", pre, 3, "busy", warm=CONF)
            add("llc_pair", CONF + pre, 2, "busy", agf=1)
            add("llc_pair", CONF + pre, 2, "busy", agf=0)
        # real handshake; burst from the acceptor fills the connector's window
        for a in OPS_CORE + ["burstB", "burstA", "closeA"]:
            add("handshake_pair", [a], 1, "core", s0sym=0)
        add("handshake_pair", ["burstB", "burstB"], 1, "core", s0sym=1)
        add("llc_pair", ["burstA"], 1, "core", agf=1)
        add("llc_pair", ["burstA", "recvB"], 1, "core", agf=0)
        # send, close, and what the peer still reads
        for a in ("sendA", "sendwaitA"):
            add("dlc_pair", [a], 2, "close", warm=[])
            add("handshake_pair", [a, "closeA"], 1, "core", s0sym=1)
        add("dlc_pair", ["sendA", "sendA", "closeA"], 2, "core", warm=[])
        add("llc_pair", ["sendA", "sendA", "closeA"], 1, "core", agf=1)
        add("llc_pair", ["sendA", "sendA", "closeA"], 1, "core", agf=0)
        add("llc_pair", LAG + ["xferB"], 1, "core", agf=1)
        add("llc_pair", LAG + ["xferB"], 1, "core", agf=0)
        for a in OPS_CORE:
            add("llc_pair", [a], 2, "core", agf=1)
            add("llc_pair", [a], 1, "core", agf=0)
        for b in ("closeA", "busyB", "sendbigA"):
            add("llc_pair", ["sendA", b], 1 if b == "sendbigA" else 2, "core", agf=1)
    else:
        for a in OPS_ACKS:
            for b in OPS_ACKS:
                add("dlc_pair", [a, b], 3, "acks", warm=["sendA", "xferA", "recvB"])
        for a in OPS_CORE:
            for b in OPS_CORE:
                add("dlc_pair", [a, b], 2, "core", warm=LAG)
        for a in ("xferB", "sendA", "recvB"):
            add("llc_pair", LAG + [a], 3, "core", agf=1)
            add("llc_pair", LAG + [a], 3, "core", agf=0)
        for a in OPS_CORE + ["burstB", "burstA", "closeA"]:
            for b in OPS_CORE + ["burstB"]:
                add("handshake_pair", [a, b], 2, "core", s0sym=1)
        for a in ("burstA", "burstB"):
            add("llc_pair", [a], 3, "core", agf=1)
            add("llc_pair", [a], 3, "core", agf=0)
        for a in OPS_CLOSE:
            for b in OPS_CLOSE:
                add("dlc_pair", [a, b], 3, "close", warm=[])
        CONF = ["sendB", "xferB", "recvA"]
        for a in OPS_BUSY:
            for b in OPS_BUSY:
                add("dlc_pair", [a, b], 3, "busy", warm=CONF)
            add("llc_pair", CONF + ["busyA", a], 3, "busy", agf=1)
            add("llc_pair", CONF + ["busyA", a], 3, "busy", agf=0)
        for a in ("sendA", "sendwaitA", "sendB"):
            add("llc_pair", [a, "sendA", "closeA"], 2, "core", agf=1)
            add("llc_pair", [a, "sendA", "closeA"], 2, "core", agf=0)
        for a in OPS_CORE:
            for b in OPS_CORE:
                add("dlc_pair", [a, b], 3, "core", warm=[])
                add("dlc_pair", [a, b], 3, "core", warm=WARM1)
                add("dlc_pair", [a, b], 3, "core", warm=WARM2)
        for a in OPS_ONEWAY:
            for b in OPS_ONEWAY:
                add("dlc_pair", [a, b], 4, "oneway", warm=[])
        for a in OPS_ALL:
            for b in OPS_MORE:
                add("dlc_pair", [a, b], 2, "more", warm=[])
        for a in OPS_CORE:
            for b in OPS_MORE:
                add("llc_pair", [a, b], 2, "core", agf=1)
                add("llc_pair", [a, b], 2, "core", agf=0)
    parts += c05_coop.partitions(tier)      # two blocking senders (env.coop)
    return parts


MUST_REACH = ["send:accepted", "send:EMSGSIZE", "send:window-full",
              "recv:message", "recv:nothing", "wire:I", "wire:RR", "wire:RNR",
              "wire:ack", "drained", "closed", "llc-pair-established", "acks:yes",
              "handshake-pair-established", "close:all-delivered"]
BOUNDS = {
    "quick": "DataLinkConnection pair: RW of both ends symbolic 0..15, initial sequence variables of both directions symbolic 0..15, connection MIU of both ends symbolic 128..2175; histories of up to 4 operations from the 6 core ones {send on A/B, recv on A/B, link exchange A->B / B->A}, up to 3 from 9 (adds 129-octet send, receiver-busy toggle on B, close on A), up to 3 core operations after a 4-operation warm-up, up to 3 from {xfer, poll('acks'), send, recv} after a 3-operation warm-up, up to 3 core operations after the 5-operation 'lagging reader' warm-up (two messages arrived, one taken); afterwards link exchanges and reads until quiescent; a pair produced by the real connect()/listen()/accept() handshake with SO_RCVBUF of both sides symbolic 1..15 and receive MIUs from {128,131}x{128,2175}, ledger initialised from the announced CONNECT/CC values, up to 3 operations including bursts of up to 3 messages in either direction; up to 4 operations from {busy toggle on A, xfer, send B, recv A} after a message was read on A and its acknowledgement is still pending (DLC pair and LLC pair, aggregation on/off); after close() on one end: link exchanges and peer reads until the end of the connection, everything accepted before close() delivered.  LogicalLinkController pair: real listen/connect/accept handshake over collect()/dispatch(), link MIU symbolic 128..2175, aggregation on/off, up to 3 core operations",
    "thorough": "as quick with up to 5 core operations (also after two warm-up prefixes), up to 6 of the one-direction operations {send A, xfer A, xfer B, recv B}, 2 fixed (14 x 9; adds blocking send, poll('acks'), busy on A, close on B, 129-octet send on B) + 2 from 9, up to 5 of the acknowledgement-counter operations, LLC pair histories of up to 4 operations",
}
OUTSIDE = ["real thread schedules of blocking application calls against the two link run loops (the blocking half of the property's quantifier): a call that reaches Condition.wait() is an event here, not a sleeping thread",
           "histories longer than the bound (sequence wrap-around is covered by the symbolic initial sequence variables, not by length)",
           "message lengths other than 1, 2 and 129 octets (the MIU is symbolic instead)", "retransmission/loss: the link between the two ends is lossless and ordered (NFC-DEP below, C04)",
           "behaviour after close() beyond: no wrong or reordered message is delivered"]
ASSUMPTIONS = ["env.llcp: Condition.wait() without time-out raises WouldBlock, wait(timeout) times out at once",
               "DLC pair: sockets are placed in ESTABLISHED state by setting the fields connect()/accept() set; the LLC pair layer produces the same state through the real handshake and checks the negotiated values",
               "connect() is run for real: while it sleeps in recv() the harness performs the link exchange (CONNECT over, accept(), CC back) inside the wait and the call resumes (env.llcp.while_waiting) - one legal schedule of application thread vs. link thread",
               "initial sequence variables are set directly to a symbolic offset (state after that many acknowledged exchanges)"]

LIMITS = {"quick": dict(max_time=150), "thorough": dict(max_time=1500)}


# two blocking senders under the cooperative scheduler (harness/c05_coop.py)
MUST_REACH = MUST_REACH + c05_coop.MUST_REACH
OUTSIDE = list(OUTSIDE) + list(c05_coop.OUTSIDE)
ASSUMPTIONS = list(ASSUMPTIONS) + list(c05_coop.ASSUMPTIONS)
