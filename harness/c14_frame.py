"""C14 - host-link frames and ISO 14443 CRCs are built and checked correctly.

Real code executed: nfc.clf.pn53x.Chipset.command (through the pn531, pn532,
pn533, rcs956 and arygon chipset classes), nfc.clf.acr122.Chipset.command /
ccid_xfr_block, nfc.clf.rcs380.Frame / Chipset.send_command,
nfc.clf.device.Device.add_crc_a/check_crc_a/add_crc_b/check_crc_b,
calculate_crc (if-converted, symx/ifconv.py), pn53x/rcs380
Device._tt2_send_cmd_recv_rsp.

Independent oracles (this file + env/crc.py): parsers of the PN53x normal /
extended information frame, the CCID PC_to_RDR_XfrBlock / RDR_to_PC_DataBlock
envelope with the ACR122 pseudo APDU, the RC-S380 frame, and the MSB-first
polynomial-division definition of the ISO/IEC 13239 CRC.
"""
import errno
import nfc.clf
import nfc.clf.pn53x
import nfc.clf.rcs380
import nfc.clf.device
from env import crc as crcref
from env.hostlink import ACK, pn53x_frame, Pn53xRfChip, Rcs380RfChip
from env.drivers import make_chipset, make_device, MODEL
from symx import ifconv, core

PROPERTY = "C14"

PN = ['pn531', 'pn532', 'pn533', 'rcs956', 'arygonA', 'arygonB']
NORMAL_ONLY = ('pn531', 'arygonA')     # chips without extended frame support


def reset(sx):
    nfc.clf.device.calculate_crc = crcref.REAL


# ----------------------------------------------------------------------------
# independent readers of the frame formats
# ----------------------------------------------------------------------------
def bsum(items):
    """plain sum (callers reduce modulo 256 once; an intermediate mask makes
    the solver's job needlessly hard on 250-byte sums)"""
    s = 0
    for x in items:
        s = s + x
    return s


def pn53x_read(sx, f):
    """PN53x information frame (PN532 UM 6.2.1.1 / 6.2.1.2) of exactly len(f)
    bytes.  -> list of readings dict(fmt, head, dcs, body): `head` = preamble,
    start code, LEN and LCS agree with the frame length, `dcs` = data
    checksum over TFI..PDn (and nothing else) is right; body = [TFI, PD0..].
    The value of the postamble byte is not looked at."""
    n = len(f)
    out = []
    if 7 <= n <= 255 + 7:
        ln = n - 7
        body = f[5:5 + ln]
        head = sx.all([f[0] == 0, f[1] == 0, f[2] == 0xFF, f[3] == ln,
                       ((f[3] + f[4]) & 0xFF) == 0])
        dcs = ((bsum(body) + f[5 + ln]) & 0xFF) == 0
        out.append(dict(fmt='normal', head=head, dcs=dcs, body=body))
    if n >= 10:
        ln = n - 10
        body = f[8:8 + ln]
        head = sx.all([f[0] == 0, f[1] == 0, f[2] == 0xFF, f[3] == 0xFF,
                       f[4] == 0xFF, f[5] == (ln >> 8), f[6] == (ln & 0xFF),
                       ((f[5] + f[6] + f[7]) & 0xFF) == 0])
        dcs = ((bsum(body) + f[8 + ln]) & 0xFF) == 0
        out.append(dict(fmt='extended', head=head, dcs=dcs, body=body))
    return out


def with_code(readings):
    """readings whose data field has room for TFI and a command code"""
    return [r for r in readings if len(r['body']) >= 2]


def with_tfi(readings):
    """readings with a non-empty data field (LEN >= 1)"""
    return [r for r in readings if len(r['body']) >= 1]


def rcs380_read(sx, f):
    """RC-S380 command frame: 00 00 FF FF FF LENlo LENhi LCS data DCS 00"""
    n = len(f)
    if n < 11:
        return None
    ln = n - 10
    body = f[8:8 + ln]
    head = sx.all([f[0] == 0, f[1] == 0, f[2] == 0xFF, f[3] == 0xFF,
                   f[4] == 0xFF, f[5] == (ln & 0xFF), f[6] == (ln >> 8),
                   ((f[5] + f[6] + f[7]) & 0xFF) == 0])
    dcs = ((bsum(body) + f[8 + ln]) & 0xFF) == 0
    return dict(head=head, dcs=dcs, body=body)


def le32(f, pos):
    return f[pos] | (f[pos + 1] << 8) | (f[pos + 2] << 16) | (f[pos + 3] << 24)


def items_eq(sx, a, b):
    a, b = list(a), list(b)
    if len(a) != len(b):
        return False
    return sx.all([x == y for x, y in zip(a, b)])


# ----------------------------------------------------------------------------
# (a) construction
# ----------------------------------------------------------------------------
def build_pn53x(sx, driver, n, mutable):
    cs, link = make_chipset(sx, driver)
    code = sx.pick("code", sorted(cs.CMD))
    payload = sx.bytes("p", n, mutable=bool(mutable))
    link.begin()
    link.raw = [list(ACK)]             # ACK only; timeout 0 ends the command
    ret = cs.command(code, payload, 0)
    if ret is not None:
        sx.check(False, "command-timeout0-returned-data:" + driver)
    if len(link.written) != 1:
        sx.check(False, "command-wrote-%d-frames:%s" % (len(link.written), driver))
    f = list(link.written[0])
    if driver.startswith("arygon"):
        if f[0] != 0x32:
            sx.check(False, "arygon-prefix-missing:" + driver)
        f = f[1:]
    readings = pn53x_read(sx, f)
    fmts = []
    for r in with_code(readings):
        if driver in NORMAL_ONLY and r['fmt'] != 'normal':
            continue
        if r['fmt'] == 'normal' and n + 2 > 255:
            continue
        fmts.append(r)
    tag = "%s:len=%d" % (driver, n)
    sx.check(sx.any([r['head'] for r in fmts]),
             "command-frame-header-malformed:" + tag)
    sx.check(sx.any([sx.all([r['head'], r['dcs']]) for r in fmts]),
             "command-frame-data-checksum-wrong:" + tag)
    sx.check(sx.any([sx.all([r['head'], r['dcs'], r['body'][0] == 0xD4,
                             r['body'][1] == code,
                             items_eq(sx, r['body'][2:], payload)])
                     for r in with_code(fmts)]),
             "command-frame-content-differs:" + tag)
    sx.check(f[len(f) - 1] == 0, "command-frame-postamble:" + tag)
    sx.reach("built:pn53x:" + ("extended" if n + 2 > 255 else "normal"))
    return "built"


def abort_pn53x(sx, driver, n):
    """the chip acknowledges a command and then does not answer within the
    time-out: the driver cancels the command with an ACK frame - which is a
    frame written to the device like any other (Arygon: with its '2' prefix)"""
    cs, link = make_chipset(sx, driver)
    code = sx.pick("code", sorted(cs.CMD)[:3])
    payload = sx.bytes("p", n)
    link.begin()
    link.raw = [list(ACK)]             # ACK only, then silence
    try:
        cs.command(code, payload, 0.1)
        sx.check(False, "command-returned-without-a-response:" + driver)
    except IOError as e:
        sx.check(e.errno == errno.ETIMEDOUT, "response-timeout-not-ETIMEDOUT:" + driver)
    if len(link.written) != 2:
        sx.check(False, "abort-wrote-%d-frames:%s" % (len(link.written), driver))
    f = list(link.written[1])
    if driver.startswith("arygon"):
        if not f or f[0] != 0x32:
            sx.check(False, "abort-frame-without-arygon-prefix:" + driver)
        f = f[1:]
    sx.check(f == list(ACK), "abort-frame-is-not-an-ack-frame:" + driver)
    sx.reach("aborted:pn53x")
    return "aborted"


def build_ccid(sx, n):
    cs, link = make_chipset(sx, 'acr122')
    code = sx.pick("code", sorted(cs.CMD))
    payload = sx.bytes("p", n)
    link.begin(chip=lambda link, idx, code, data: [])
    before = len(link.written)
    ret = cs.command(code, payload, 0.1)
    if len(ret) != 0:
        sx.check(False, "ccid-empty-response-not-empty")
    if len(link.written) != before + 1:
        sx.check(False, "ccid-command-wrote-%d-frames" % (len(link.written) - before))
    f = list(link.written[-1])
    tag = "acr122:len=%d" % n
    if len(f) != 10 + 5 + 2 + n:
        sx.check(False, "ccid-frame-size:" + tag)
    # PC_to_RDR_XfrBlock: 6F dwLength(4, LE) bSlot bSeq bBWI wLevelParameter(2)
    sx.check(sx.all([f[0] == 0x6F, le32(f, 1) == len(f) - 10]),
             "ccid-header-malformed:" + tag)
    apdu = f[10:]
    # pseudo APDU "Direct Transmit": FF 00 00 00 Lc <Lc bytes>
    sx.check(sx.all([apdu[0] == 0xFF, apdu[1] == 0, apdu[2] == 0, apdu[3] == 0,
                     apdu[4] == len(apdu) - 5]),
             "ccid-apdu-header-malformed:" + tag)
    sx.check(sx.all([apdu[5] == 0xD4, apdu[6] == code,
                     items_eq(sx, apdu[7:], payload)]),
             "ccid-apdu-content-differs:" + tag)
    sx.reach("built:ccid")
    return "built"


def build_rcs380(sx, n):
    cs, link = make_chipset(sx, 'rcs380')
    code = sx.pick("code", sorted(cs.CMD))
    payload = sx.bytes("p", n)
    link.begin()
    before = len(link.written)
    cs.send_command(code, payload)
    if len(link.written) != before + 1:
        sx.check(False, "rcs380-command-wrote-%d-frames" % (len(link.written) - before))
    f = list(link.written[-1])
    tag = "rcs380:len=%d" % n
    r = rcs380_read(sx, f)
    if r is None:
        sx.check(False, "rcs380-frame-too-short:" + tag)
    sx.check(r['head'], "rcs380-frame-header-malformed:" + tag)
    sx.check(r['dcs'], "rcs380-frame-data-checksum-wrong:" + tag)
    sx.check(sx.all([r['body'][0] == 0xD6, r['body'][1] == code,
                     items_eq(sx, r['body'][2:], payload)]),
             "rcs380-frame-content-differs:" + tag)
    sx.check(f[len(f) - 1] == 0, "rcs380-frame-postamble:" + tag)
    # the class on its own
    g = list(bytes(nfc.clf.rcs380.Frame(sx.mkbytes([0xD6, code] + list(payload)))))
    sx.check(items_eq(sx, g, f), "rcs380-Frame-differs-from-send_command:" + tag)
    sx.reach("built:rcs380")
    return "built"


# ----------------------------------------------------------------------------
# (b) acceptance
# ----------------------------------------------------------------------------
def judge_pn53x(sx, cs, code, frame, run, tag):
    """run() calls Chipset.command; frame is the response it is handed.
    Labels separate the ways a frame can be wrongly accepted, so that a known
    finding for one of them does not hide another."""
    f = list(frame)
    n = len(f)
    readings = pn53x_read(sx, f)
    for r in readings:
        # the implementation's known weakness: checksum taken over the data
        # field, DCS *and postamble*
        r['dcs_post'] = ((bsum(r['body']) + f[n - 2] + f[n - 1]) & 0xFF) == 0
    try:
        data = run()
    except IOError:
        sx.reach("rejected:pn53x")
        return "IOError"
    except nfc.clf.pn53x.Chipset.Error as e:
        # allowed for a well-formed error frame only
        sx.check(sx.any([r['head'] for r in readings]),
                 "chipset-error-from-frame-with-invalid-header:" + tag)
        sx.check(sx.any([r['head'] for r in with_tfi(readings)]),
                 "chipset-error-from-frame-with-empty-data-field:" + tag)
        readings = with_tfi(readings)
        sx.check(sx.any([sx.all([r['head'], sx.any([r['dcs'], r['dcs_post']])])
                         for r in readings]),
                 "chipset-error-from-frame-with-wrong-data-checksum:" + tag)
        sx.check(sx.any([sx.all([r['head'], r['dcs']]) for r in readings]),
                 "chipset-error-from-frame-whose-postamble-compensates-dcs:" + tag)
        sx.check(sx.any([sx.all([r['head'], r['dcs'], r['body'][0] == 0x7F])
                         for r in readings]),
                 "chipset-error-from-frame-without-error-code:" + tag)
        sx.reach("errorframe:pn53x")
        return "Chipset.Error"
    except Exception as e:
        # neither data nor IOError: name the exception and the frame length
        sx.check(False, "crash:%s:framelen=%d:%s" % (type(e).__name__, n, tag))
    if data is None:
        sx.check(False, "command-returned-none:" + tag)
    sx.reach("accepted:pn53x")
    sx.check(sx.any([r['head'] for r in readings]),
             "accepted-frame-with-invalid-header:" + tag)
    sx.check(sx.any([r['head'] for r in with_code(readings)]),
             "accepted-frame-without-room-for-response-code:" + tag)
    readings = with_code(readings)
    sx.check(sx.any([sx.all([r['head'], sx.any([r['dcs'], r['dcs_post']])])
                     for r in readings]),
             "accepted-frame-with-wrong-data-checksum:" + tag)
    sx.check(sx.any([sx.all([r['head'], r['dcs']]) for r in readings]),
             "accepted-frame-whose-postamble-compensates-dcs:" + tag)
    sx.check(sx.any([sx.all([r['head'], r['dcs'], r['body'][0] == 0xD5])
                     for r in readings]),
             "accepted-frame-with-wrong-tfi:" + tag)
    sx.check(sx.any([sx.all([r['head'], r['dcs'], r['body'][0] == 0xD5,
                             r['body'][1] == code + 1])
                     for r in with_code(readings)]),
             "accepted-frame-with-wrong-response-code:" + tag)
    sx.check(sx.any([sx.all([r['head'], r['dcs'], r['body'][0] == 0xD5,
                             r['body'][1] == code + 1,
                             items_eq(sx, r['body'][2:], data)])
                     for r in with_code(readings)]),
             "returned-data-differs-from-frame-data:" + tag)
    return "data"


def accept_pn53x(sx, driver, n, mode, allcodes=0):
    cs, link = make_chipset(sx, driver)
    link.begin()
    frame = sx.bytes("r", n, mutable=True)
    tag = "%s:%s" % (driver, mode)
    code = sx.pick("code", sorted(cs.CMD) if allcodes else [0x02, 0x42, 0x8C])
    if mode == 'nocmd':
        # cmd_data None: no command written, the response is read directly
        link.queue = [list(frame)]
        run = lambda: cs.command(code, None, 1.0)
    else:
        link.raw = [list(ACK), list(frame)] if mode == 'ack' else [list(frame)]
        run = lambda: cs.command(code, b"\x01", 1.0)
    return judge_pn53x(sx, cs, code, frame, run, tag)


LONG_POS = ['len', 'lcs', 'x5', 'x6', 'x7', 'tfi', 'code', 'mid', 'last',
            'dcs', 'post']


SINGLES = LONG_POS
PAIRS = ['len+lcs', 'dcs+post', 'last+dcs', 'tfi+dcs', 'code+dcs', 'x5+x6',
         'x6+x7', 'len+dcs', 'mid+post', 'tfi+post', 'code+post', 'lcs+x5']
TRIPLES = ['len+lcs+dcs', 'x5+x6+x7', 'tfi+code+dcs', 'mid+dcs+post',
           'len+lcs+x5', 'last+dcs+post', 'tfi+dcs+post', 'lcs+x6+x7']
EDITS = ['none', 'cut1', 'cut2', 'add1', 'add2'] + SINGLES + PAIRS + TRIPLES
EDITS_SMALL = ['none', 'cut1', 'len+lcs', 'dcs+post', 'tfi+dcs+post']


def accept_long(sx, driver, plen, edits):
    """a valid response frame with plen payload bytes (LEN = plen + 2 straddles
    the normal/extended switch) with up to three positions overwritten by
    arbitrary bytes, or cut / extended by one or two bytes"""
    edit = sx.pick("edit", EDITS if edits == 'all' else EDITS_SMALL)
    cs, link = make_chipset(sx, driver)
    link.begin()
    code = 0x42
    # concrete payload: 250-term symbolic checksums make the solver prove
    # equivalences of adder chains; the edited positions carry the symbols
    payload = [(i * 7 + 3) & 0xFF for i in range(plen)]
    f = pn53x_frame([0xD5, code + 1] + payload)
    n = len(f)
    ext = plen + 2 > 255
    base = 8 if ext else 5
    where = dict(len=3, lcs=4, x5=5, x6=6, x7=7, tfi=base, code=base + 1,
                 mid=base + 2 + plen // 2, last=base + 1 + plen,
                 dcs=n - 2, post=n - 1)
    if edit == 'cut1':
        f = f[:-1]
    elif edit == 'cut2':
        f = f[:-2]
    elif edit == 'add1':
        f = f + [sx.byte("x0")]
    elif edit == 'add2':
        f = f + [sx.byte("x0"), sx.byte("x1")]
    elif edit == 'none':
        pass
    else:
        names = edit.split("+")
        for i, nm in enumerate(names):
            f[where[nm]] = sx.byte("x%d" % i)
    link.raw = [list(ACK), list(f)]
    run = lambda: cs.command(code, b"\x01", 1.0)
    out = judge_pn53x(sx, cs, code, f, run, "%s:long" % driver)
    if edit == 'none':
        if out != "data":
            sx.check(False, "valid-long-frame-rejected:%s:plen=%d" % (driver, plen))
        sx.reach("accepted:long:" + ("extended" if ext else "normal"))
    return out


def accept_valid(sx, driver, plen):
    """completeness twin: a well-formed response is returned intact"""
    cs, link = make_chipset(sx, driver)
    payload = sx.bytes("p", plen)
    link.begin(chip=lambda link, idx, code, data: list(payload))
    code = sx.pick("code", [0x02, 0x42, 0x8C])
    try:
        data = cs.command(code, b"\x01", 1.0)
    except IOError:
        sx.check(False, "valid-response-rejected:%s:plen=%d" % (driver, plen))
    sx.check(items_eq(sx, data, payload),
             "valid-response-data-differs:%s:plen=%d" % (driver, plen))
    sx.reach("valid:accepted")
    return "data"


def accept_ccid(sx, n, via):
    cs, link = make_chipset(sx, 'acr122')
    link.begin()
    frame = sx.bytes("r", n, mutable=True)
    f = list(frame)
    link.queue = []
    code = sx.pick("code", [0x02, 0x42])
    # the reader answers whatever is written next with `frame`
    orig_write = link.write
    link.write = lambda fr, timeout=0: link.queue.append(list(frame))
    tag = "acr122:" + via
    try:
        if via == 'xfr':
            data = cs.ccid_xfr_block(sx.mkbytes([0xFF, 0, 0, 0, 2, 0xD4, code]), 0.1)
        else:
            data = cs.command(code, b"", 0.1)
    except IOError:
        sx.reach("rejected:ccid")
        return "IOError"
    sx.reach("accepted:ccid")
    # RDR_to_PC_DataBlock: 80 dwLength(4, LE) bSlot bSeq bStatus bError bChain
    if n < 10:
        sx.check(False, "ccid-accepted-short-frame:" + tag)
    sx.check(sx.all([f[0] == 0x80, le32(f, 1) == n - 10]),
             "ccid-accepted-invalid-header:" + tag)
    ab = f[10:]
    if via == 'xfr':
        sx.check(items_eq(sx, ab, data), "ccid-returned-data-differs:" + tag)
        return "data"
    if len(ab) < 4:
        sx.check(False, "ccid-accepted-short-response:" + tag)
    sx.check(sx.all([ab[0] == 0xD5, ab[1] == code + 1]),
             "ccid-accepted-wrong-tfi-or-response-code:" + tag)
    sx.check(sx.all([ab[len(ab) - 2] == 0x90, ab[len(ab) - 1] == 0x00]),
             "ccid-accepted-error-status-word:" + tag)
    sx.check(items_eq(sx, ab[2:-2], data), "ccid-returned-data-differs:" + tag)
    return "data"


# ----------------------------------------------------------------------------
# (c) CRC
# ----------------------------------------------------------------------------
def impl_crc(sx, m, k, preset, validate=True):
    """calculate_crc(m, k, preset): symbolic mode -> the if-converted term of
    the current source (validated against the real function on concrete
    vectors when k == len(m)); native mode -> the real function"""
    n = len(m)
    if sx.mode != 'sym':
        return crcref.REAL(m, k, preset)
    kern = crcref.kernel()
    ifs0 = kern.ifs
    term = kern(m, k, preset)
    if validate and k == n:
        # substitution into the very term that is proven
        vecs = [v for kind, v, c in crcref.REPO_VECTORS + crcref.ANNEX_B
                if len(v) == n]
        vecs += ifconv.random_vectors("C14", n, 16)
        vecs += [[0] * n, [255] * n]
        variables = list(m.items) if n else []
        done = ifconv.validate_term(
            term, variables, lambda v: crcref.REAL(bytearray(v), n, preset), vecs)
        if n and (done < 10 or kern.ifs - ifs0 < 8 * n):
            raise core.Unsupported("ifconv: validation did not exercise the term")
    return term


def crc_equiv(sx, kind, n, chain=0):
    """calculate_crc == ISO 13239 reference for every message of n bytes.
    chain=0: one solver query.  chain=1: the same statement proven prefix by
    prefix - the equality for k bytes (just proven by sx.check) is given to the
    solver as a lemma for k+1 bytes, so each query is one byte step; this is
    induction over the byte loop carried out inside the solver."""
    m = sx.bytes("m", n, mutable=True)
    preset = 0x6363 if kind == 'a' else 0xFFFF
    if chain:
        for k in range(1, n):
            ik = impl_crc(sx, m, k, preset)
            rk = crcref.reference(list(m)[:k], preset)
            sx.check(ik == rk, "crc-differs-from-iso13239:%s:prefix" % kind)
            sx.assume(ik == rk, "CRC equality of a proper prefix, proven by the preceding check (lemma)")
    impl = impl_crc(sx, m, n, preset)
    ref = crcref.reference(list(m), preset)
    sx.check(impl == ref, "crc-differs-from-iso13239:%s" % kind)
    sx.reach("crc-proved:%s" % kind)
    return "proved"


def crc_step(sx):
    """one byte from an arbitrary 16-bit register: the function is a left fold
    over the bytes, so this extends the equivalence to any length (that
    induction step is outside the solver)"""
    reg = sx.int("reg", 0, 0xFFFF)
    m = sx.bytes("m", 1, mutable=True)
    if sx.mode == 'sym':
        impl = crcref.kernel()(m, 1, reg)
    else:
        impl = crcref.REAL(m, 1, reg)
    ref = crcref.reference(list(m), reg)
    sx.check(impl == ref, "crc-step-differs-from-iso13239")
    sx.reach("crc-step-proved")
    return "proved"


def crc_api(sx, kind, n):
    """add_crc_x / check_crc_x of the Device class (real code; calculate_crc
    summarised by its if-converted term in symbolic mode)"""
    crcref.install_summary(sx)
    D = nfc.clf.device.Device
    m = sx.bytes("m", n, mutable=True)
    c = sx.bytes("c", 2, mutable=True)
    want = crcref.crc_a(list(m)) if kind == 'a' else crcref.crc_b(list(m))
    add = D.add_crc_a if kind == 'a' else D.add_crc_b
    chk = D.check_crc_a if kind == 'a' else D.check_crc_b
    out = add(m)
    if len(out) != n + 2:
        sx.check(False, "add_crc_%s-length" % kind)
    sx.check(sx.all([items_eq(sx, list(out)[:n], list(m)),
                     out[n] == (want & 0xFF), out[n + 1] == (want >> 8)]),
             "add_crc_%s-differs-from-iso14443" % kind)
    ok = chk(m + c)
    right = sx.all([c[0] == (want & 0xFF), c[1] == (want >> 8)])
    if ok is True:
        sx.check(right, "check_crc_%s-accepts-wrong-crc" % kind)
        sx.reach("crc-accepted:" + kind)
    elif ok is False:
        sx.check(sx.neg(right), "check_crc_%s-rejects-right-crc" % kind)
        sx.reach("crc-rejected:" + kind)
    else:
        sx.check(False, "check_crc_%s-not-a-bool" % kind)
    return bool(ok)


def tt2_crc(sx, driver, n):
    """Type 2 Tag response check in the driver: data is returned only with a
    valid CRC_A (or when it is at most 2 bytes: ACK/NAK)"""
    crcref.install_summary(sx)
    dev, link = make_device(sx, driver)
    rsp = sx.bytes("rsp", n)

    def chip(link, idx, code, data):
        if driver == 'rcs380':
            return [0, 0, 0, 0, 8] + list(rsp)     # InCommRF: status, rx info, data
        return [0] + list(rsp)                     # InCommunicateThru: status, data
    link.begin(chip=chip)
    try:
        if driver == 'rcs380':
            out = dev._tt2_send_cmd_recv_rsp(bytearray(b"\x30\x00"), 100)
        else:
            out = dev._tt2_send_cmd_recv_rsp(bytearray(b"\x30\x00"), 0.1)
    except nfc.clf.TransmissionError:
        sx.reach("tt2:crc-error")
        if n <= 2:
            sx.check(False, "tt2-short-response-rejected:" + driver)
        want = crcref.crc_a(list(rsp)[:n - 2])
        sx.check(sx.neg(sx.all([rsp[n - 2] == (want & 0xFF), rsp[n - 1] == (want >> 8)])),
                 "tt2-valid-crc-rejected:" + driver)
        return "TransmissionError"
    if n <= 2:
        sx.check(items_eq(sx, out, rsp), "tt2-short-response-altered:" + driver)
        sx.reach("tt2:short")
        return "data"
    want = crcref.crc_a(list(rsp)[:n - 2])
    sx.check(sx.all([rsp[n - 2] == (want & 0xFF), rsp[n - 1] == (want >> 8)]),
             "tt2-wrong-crc-accepted:" + driver)
    sx.check(items_eq(sx, out, list(rsp)[:n - 2]), "tt2-data-differs:" + driver)
    sx.reach("tt2:crc-ok")
    return "data"


def tt2_e2e(sx, driver, n):
    """CRC_A of a Type A target's response, end to end: the target is
    activated by the driver's real sense_tta() (PN53x family; this is where
    the driver switches the chip's own CRC check off for SEL_RES b7,b6 = 00)
    and the exchange goes through the real send_cmd_recv_rsp(); the chip model
    checks the CRC itself if and only if the driver left the check enabled.
    SEL_RES is an arbitrary byte, `air` are the n octets the tag sent."""
    crcref.install_summary(sx)
    dev, link = make_device(sx, driver)
    sel = sx.byte("sel_res")
    air = sx.bytes("air", n)
    uid = [0x04, 0x51, 0x2C, 0x6A]
    if driver == 'rcs380':
        chip = Rcs380RfChip(sx, air, crcref.crc_a)
        link.begin(chip=chip)
        target = nfc.clf.RemoteTarget("106A", sens_res=bytearray(b"\x44\x00"),
                                      sel_res=sx.mkbytes([sel]),
                                      sdd_res=bytearray(uid))
    else:
        chip = Pn53xRfChip(sx, MODEL[driver], ([0x44, 0x00], [sel], uid), air,
                           crcref.crc_a)
        link.begin(chip=chip)
        target = dev.sense_tta(nfc.clf.RemoteTarget("106A"))
        if target is None or target.sel_res is None:
            sx.check(False, "sense_tta-did-not-return-the-target:" + driver)
    type2 = (sel & 0x60) == 0           # NFC Forum Type 2 Tag platform
    tag = driver
    outcome = None
    try:
        data = dev.send_cmd_recv_rsp(target, bytearray(b"\x30\x00"), 0.1)
        outcome = "data"
    except nfc.clf.TransmissionError:
        outcome = "TransmissionError"
    checked_by_chip = chip.check_crc_at_exchange if driver == 'rcs380' \
        else chip.rxcrc_at_exchange
    sx.reach("e2e:crc-by-" + ("chip" if checked_by_chip else "driver"))
    valid = False
    if n >= 3:
        want = crcref.crc_a(list(air)[:n - 2])
        valid = sx.all([air[n - 2] == (want & 0xFF), air[n - 1] == (want >> 8)])
    if outcome == "TransmissionError":
        sx.reach("e2e:rejected")
        # a good frame must not be rejected
        sx.check(sx.neg(valid), "e2e-valid-crc-rejected:" + tag)
        if n <= 2:
            # ACK/NAK and other short frames of a Type 2 Tag reach the caller
            sx.check(sx.neg(type2), "e2e-type2-short-response-rejected:" + tag)
        return outcome
    sx.reach("e2e:data")
    if n <= 2:
        # nobody can have checked a CRC: only the Type 2 short-frame rule
        # lets such a response through, unchanged
        sx.check(type2, "e2e-short-response-without-crc-accepted:" + tag)
        sx.check(items_eq(sx, data, air), "e2e-short-response-altered:" + tag)
        return outcome
    sx.check(valid, "e2e-wrong-crc-accepted:" + tag)
    sx.check(items_eq(sx, data, list(air)[:n - 2]),
             "e2e-data-not-the-frame-without-crc:" + tag)
    return outcome


# ----------------------------------------------------------------------------
# ----------------------------------------------------------------------------
# (a') frames written by the module-level init(transport) of the PN532 driver
# on a serial line: they do not go through Chipset.command()
# ----------------------------------------------------------------------------
class _FakeOs(object):
    """`os` of nfc.clf.pn532 during init(): stty succeeds for the baud rates
    in `accept` (os.system -> 0), fails for the others"""

    def __init__(self, real, accept, log):
        self._real, self._accept, self._log = real, accept, log

    def __getattr__(self, name):
        return getattr(self._real, name)

    def system(self, cmd):
        self._log.append(cmd)
        for b in (921600, 460800, 230400, 115200):
            if (" %d " % b) in cmd:
                return 0 if b in self._accept else 256
        return 256


class _FakeSys(object):
    platform = "linux"


def init_pn532_tty(sx, accept, board, port):
    """the real nfc.clf.pn532.init(transport) on a TTY whose stty accepts the
    baud rates in `accept`; board: contents of /proc/device-tree/model or
    None (file absent).  Every frame written to the line (after the optional
    wake-up preamble of zero octets; the bare ACK excepted) must be a
    well-formed PN53x command frame that the chip model then answers."""
    import nfc.clf.pn532 as drv
    from env.hostlink import HostLink, init_chip
    if board is not None and not isinstance(board, bytes):
        board = board.encode("latin1")
    link = HostLink(sx, 'pn53x', init_chip('pn532'))
    link.TYPE = "TTY"
    link.port = port
    frames = []
    opened = []
    raw_write = link.write

    def write(frame, timeout=0):
        items = list(frame)
        k = 0
        while k + 2 < len(items) and items[k] == 0 and items[k + 1] == 0 and items[k + 2] == 0:
            k += 1                      # wake-up preamble: extra zero octets
        items = items[k:]
        frames.append(items)
        return raw_write(sx.mkbytes(items, True), timeout)
    link.write = write
    link.open = lambda port=None, baudrate=115200: opened.append(baudrate)
    syslog = []

    def fake_open(path, mode="r"):
        if path == '/proc/device-tree/model' and board is not None:
            import io
            return io.BytesIO(board)
        raise IOError(errno.ENOENT, "no such file")
    saved = (drv.os, drv.sys, getattr(drv, "open", None))
    drv.os, drv.sys, drv.open = _FakeOs(saved[0], accept, syslog), _FakeSys, fake_open
    try:
        try:
            dev = drv.init(link)
            out = "device"
        except IOError as e:
            dev, out = None, "IOError"
    finally:
        drv.os, drv.sys = saved[0], saved[1]
        if saved[2] is None:
            del drv.open
        else:
            drv.open = saved[2]
    tag = "pn532:init:tty"
    for f in frames:
        if f == list(ACK):
            continue
        readings = [r for r in with_code(pn53x_read(sx, f))]
        if not readings:
            sx.check(False, "init-frame-unreadable:" + tag)
        sx.check(sx.any([r['head'] for r in readings]), "init-frame-header-malformed:" + tag)
        sx.check(sx.any([sx.all([r['head'], r['dcs']]) for r in readings]),
                 "init-frame-data-checksum-wrong:%s:cmd=%02X" % (tag, f[6] if len(f) > 6 else 0))
        sx.check(sx.any([sx.all([r['head'], r['dcs'], r['body'][0] == 0xD4]) for r in readings]),
                 "init-frame-identifier-wrong:" + tag)
        sx.check(f[len(f) - 1] == 0, "init-frame-postamble:" + tag)
    if out != "device":
        sx.check(False, "init-fails-on-a-conformant-chip:" + tag)
    best = max([b for b in accept if b != 115200] or [115200])
    limited = board is not None and board.startswith(b"Raspberry Pi") and port == "/dev/ttyS0"
    want = 115200 if limited else best
    sx.check(opened[-1] == want, "init-line-speed-not-the-best-accepted:" + tag)
    sx.reach("init:pn532:tty")
    if want > 115200:
        sx.reach("init:pn532:baudrate-changed")
    return [out, opened, len(frames)]


def partitions(tier):
    q = tier == "quick"
    parts = []
    for d in ("pn531", "pn532", "pn533", "rcs956", "arygonA", "arygonB"):
        parts.append(dict(name="abort:%s" % d, fn="abort_pn53x", params=dict(driver=d, n=2)))
    for i, accept in enumerate(([921600, 460800, 230400, 115200], [460800, 230400, 115200],
                                [230400, 115200], [115200], [])):
        for board, port in ((None, "/dev/ttyUSB0"), (b"Raspberry Pi 3 Model B\x00", "/dev/ttyUSB0"),
                            (b"Raspberry Pi 3 Model B\x00", "/dev/ttyS0")):
            if board is not None and i not in (0, 2):
                continue
            parts.append(dict(name="init:pn532:tty:%d:%s:%s" % (i, "rpi" if board else "pc", port[-4:]),
                              fn="init_pn532_tty",
                              params=dict(accept=accept, board=board.decode("latin1") if board else None,
                                          port=port)))

    def add(name, fn, **params):
        parts.append(dict(name=name, fn=fn, params=params))

    # (a) construction
    for d in PN:
        if d in NORMAL_ONLY:
            lens = [0, 1, 2, 3, 250, 251, 252]
        else:
            lens = [0, 1, 2, 3, 252, 253, 254, 255, 256, 257, 262, 263]
        if q and d in ('pn533', 'rcs956', 'arygonA', 'arygonB'):
            lens = [x for x in lens if x in (0, 1, 252, 253, 254, 263)]
        for n in lens:
            add("build:%s:%d" % (d, n), "build_pn53x", driver=d, n=n, mutable=n % 2)
    for n in [0, 1, 2, 3, 250, 251, 252]:
        add("build:acr122:%d" % n, "build_ccid", n=n)
    for n in [0, 1, 2, 3, 252, 253, 254, 255, 256, 257, 289, 290]:
        add("build:rcs380:%d" % n, "build_rcs380", n=n)

    # (b) acceptance
    nmax = 10 if q else 16
    for d in (['pn532', 'pn531'] if q else PN):
        for n in range(0, nmax + 1):
            for mode in ('ack', 'noack', 'nocmd'):
                if q and mode != 'ack' and d != 'pn532':
                    continue
                add("accept:%s:%s:%d" % (d, mode, n), "accept_pn53x",
                    driver=d, n=n, mode=mode,
                    allcodes=int(not q and d == 'pn532' and mode == 'ack'))
    for d in (['pn532'] if q else ['pn532', 'pn533', 'rcs956', 'arygonB']):
        for plen in [252, 253, 254, 255]:
            add("long:%s:%d" % (d, plen), "accept_long", driver=d, plen=plen,
                edits='all')
    for plen in ([250] if q else [0, 250]):
        add("long:pn531:%d" % plen, "accept_long", driver='pn531', plen=plen,
            edits='small')
    for d in (['pn532', 'pn531'] if q else PN):
        for plen in [0, 1, 2, 252, 253, 254, 255, 262]:
            if d in NORMAL_ONLY and plen > 252:
                continue
            add("valid:%s:%d" % (d, plen), "accept_valid", driver=d, plen=plen)
    cmax = 16 if q else 22
    for n in range(0, cmax + 1):
        add("accept:acr122:cmd:%d" % n, "accept_ccid", n=n, via='cmd')
        add("accept:acr122:xfr:%d" % n, "accept_ccid", n=n, via='xfr')

    # (c) CRC
    for kind in ('a', 'b'):
        for n in range(0, (5 if q else 7) + 1):
            add("crc:%s:%d" % (kind, n), "crc_equiv", kind=kind, n=n, chain=0)
        for n in ([2, 3, 4, 5, 6, 7, 8, 12, 16] if q else list(range(2, 25))):
            add("crcind:%s:%d" % (kind, n), "crc_equiv", kind=kind, n=n, chain=1)
            parts[-1]['max_path_time'] = 900    # one long solver-bound path per partition
        for n in range(0, (4 if q else 6) + 1):
            add("crcapi:%s:%d" % (kind, n), "crc_api", kind=kind, n=n)
    add("crc:step", "crc_step")
    for d in ['pn532', 'rcs380'] + ([] if q else ['pn531', 'pn533', 'rcs956', 'acr122']):
        for n in range(0, (6 if q else 8) + 1):
            add("tt2crc:%s:%d" % (d, n), "tt2_crc", driver=d, n=n)
    for d in PN + ['acr122', 'rcs380']:
        for n in ([0, 1, 2, 3, 4, 5] if q else range(0, 9)):
            if q and d in ('arygonA', 'arygonB', 'rcs956', 'pn533') and n in (0, 2, 4):
                continue
            add("tt2e2e:%s:%d" % (d, n), "tt2_e2e", driver=d, n=n)
    for p in parts:
        if p['name'].startswith(("accept:", "long:", "valid:")):
            # z3's default incremental core; the QF_BV tactic solver needs
            # seconds..minutes per query on 12+ byte symbolic checksums here,
            # while it is the fast one for the CRC equivalences
            p['logic'] = ""
    return parts


MUST_REACH = ["aborted:pn53x", "init:pn532:tty", "init:pn532:baudrate-changed", "built:pn53x:normal", "built:pn53x:extended", "built:ccid",
              "built:rcs380", "accepted:pn53x", "rejected:pn53x",
              "errorframe:pn53x", "accepted:long:normal",
              "accepted:long:extended", "valid:accepted", "accepted:ccid",
              "rejected:ccid", "crc-proved:a", "crc-proved:b",
              "crc-step-proved", "crc-accepted:a", "crc-rejected:a",
              "crc-accepted:b", "crc-rejected:b", "tt2:crc-ok",
              "tt2:crc-error", "tt2:short", "e2e:crc-by-chip",
              "e2e:crc-by-driver", "e2e:rejected", "e2e:data"]

BOUNDS = {
    "quick": "the frames that the PN532 driver's module-level init() writes to a serial line (wake-up preamble, GetFirmwareVersion, SAMConfiguration, SetSerialBaudrate for every subset of line speeds that stty accepts, PC and Raspberry Pi ports; these frames do not go through Chipset.command()); construction: every command code of the chipset's CMD table x payload lengths {0,1,2,3,250..257,262,263 as far as the chip's maximum allows} (pn531, pn532 full set; pn533, rcs956, arygon A/B subset), ACR122 {0..3,250..252}, RC-S380 {0..3,252..257,289,290}, all payload contents; acceptance: every byte string of length 0..10 as response for command codes 02h/42h/8Ch (pn532: after the ACK, instead of the ACK, and with cmd_data=None; pn531: after the ACK), valid long frames with payload 252..255 (LEN 254..257) with 1-3 positions out of {LEN,LCS,bytes 5-7,TFI,code,middle,last,DCS,postamble} overwritten by arbitrary bytes (31 position sets) or cut/extended by 1-2 bytes, well-formed responses with 0..262 arbitrary payload bytes are returned intact, ACR122 responses of length 0..16 through command() and ccid_xfr_block(); CRC: calculate_crc == ISO 13239 reference for all messages of 0..5 bytes in one query and of 2..8, 12, 16 bytes by solver-checked induction over the prefixes (CRC_A and CRC_B presets), one byte from an arbitrary 16-bit register; add_crc_a/b, check_crc_a/b for all messages of 0..4 bytes and all CRC byte pairs; Type 2 Tag response CRC check (_tt2_send_cmd_recv_rsp) of pn532 and rcs380 for all responses of 0..6 bytes; end to end for all eight drivers: Type A target with an arbitrary SEL_RES byte activated through the real sense_tta() (PN53x family), exchange through the real send_cmd_recv_rsp(), the chip model checking CRC_A itself iff the driver left RxCRCEn (CIU_RxMode bit 7) / check_crc (RC-S380) enabled, all tag responses of 0..5 octets (pn531, pn532, acr122, rcs380; 1, 3, 5 octets for the others): wrong CRC -> TransmissionError, good CRC -> the data without the CRC octets, <= 2 octets only for SEL_RES b7,b6 = 00",
    "thorough": "as quick with all six PN53x chipset classes, response strings 0..16 (pn532 after-ACK: every command code of the table; ACR122 0..22), CRC equivalence 0..7 bytes in one query and every length 2..24 by prefix induction, add/check 0..6 bytes, Type 2 Tag check for six drivers and 0..8 bytes, end-to-end CRC check for all drivers and 0..8 octets",
}
OUTSIDE = [
    "response byte strings longer than the bound other than the edited long frames; more than three overwritten positions in a long frame",
    "the RC-S380 receive path (the property restricts acceptance to PN53x/ACR122)",
    "nfc.clf.transport (libusb/pyserial boundary): the HostLink hands complete frames to read()",
    "CRC equivalence for messages longer than the bound relies on the one-byte step for an arbitrary register plus induction over the byte loop (outside the solver)",
    "value of the postamble byte of a response (not named by the property)",
]
ASSUMPTIONS = [
    "frame format readers pn53x_read/rcs380_read/CCID checks in harness/c14_frame.py are the independent reading of PN532 UM 6.2.1, CCID 1.1 6.1.4/6.2.1, ACR122U API 6.1 and the RC-S380 frame",
    "env/crc.py reference(): MSB-first polynomial division by x^16+x^12+x^5+1 over the LSB-first bit sequence, checked at import against ISO/IEC 14443-3 Annex B examples",
    "symx/ifconv.py translation of nfc.clf.device.calculate_crc (re-read from the source on every run, validated by substitution of the repository's test vectors, Annex B vectors and 16 seeded random messages per length into the proven term)",
    "in crcapi/tt2crc partitions calculate_crc is replaced (symbolic mode only) by that translation; native replays of every path use the real function",
    "env/hostlink.py Pn53xRfChip/Rcs380RfChip: register file (WriteRegister stores, ReadRegister returns), InListPassiveTarget(106A) leaves CIU_TxMode/RxMode at 80h, the receive path checks and strips CRC_A and reports 02h (RC-S380: 00000004h) iff RxCRCEn / check_crc is set, otherwise hands the octets over as received",
    "env/hostlink.py HostLink delivers whole frames; chipset objects are built by their real __init__ (ACR122/RC-S380 with the initialisation dialogue of the repository's tests)",
]
LIMITS = {"quick": dict(max_time=200), "thorough": dict(max_time=1500)}
