"""C13 - drivers report RF and host-link failures only as documented errors.

Real code executed: nfc.clf.ContactlessFrontend.exchange -> the driver's
Device.send_cmd_recv_rsp / send_rsp_recv_cmd (pn531, pn532, pn533, rcs956,
acr122, arygon A/B on pn53x.Device; rcs380; udp) -> the driver's Chipset
(command framing, status evaluation, chipset_error) -> env.hostlink.HostLink.

The HostLink answers every host command of the exchange with a well-formed
response whose status byte(s) and payload are symbolic, or misbehaves at one
picked command (IOError from write/read, truncated, garbled or error frame).
"""
import errno
import os
import nfc.clf
import nfc.clf.pn53x
import nfc.clf.rcs380
import nfc.clf.udp
import nfc.clf.device
from env import crc as crcref
from env.hostlink import Fault
from env.drivers import make_device, make_frontend, MODEL
from symx.runner import exc_label

PROPERTY = "C13"

PN = ['pn531', 'pn532', 'pn533', 'rcs956', 'acr122', 'arygonA', 'arygonB']
ERRNOS = dict(ETIMEDOUT=errno.ETIMEDOUT, EIO=errno.EIO, ENODEV=errno.ENODEV,
              EPIPE=errno.EPIPE)


def reset(sx):
    nfc.clf.device.calculate_crc = crcref.REAL


def HEX(s):
    return bytearray.fromhex(s)


ATR_REQ = "D400 30313233343536373839 00000032 46666D010110"
ATR_RES = "D501 66f6e98d1c13dfe56de4 0000000702 46666D010110"


def make_target(kind):
    """(target, send_data, timeout) of an already activated target, built the
    way the drivers' sense_*/listen_* return them"""
    R, L = nfc.clf.RemoteTarget, nfc.clf.LocalTarget
    if kind == 'tt2':
        return R("106A", sens_res=HEX("4400"), sel_res=HEX("00"),
                 sdd_res=HEX("04512C6A")), HEX("3000"), 0.1
    if kind == 'tt4a':
        return R("106A", sens_res=HEX("4403"), sel_res=HEX("20"),
                 sdd_res=HEX("04832F9A272D80")), HEX("E080"), 0.1
    if kind in ('tt1', 'tt1-read8', 'tt1-rseg'):
        t = R("106A", sens_res=HEX("000C"), rid_res=HEX("114801020304"))
        cmd = dict(tt1="0108 00 01020304", **{'tt1-read8': "0203 0000000000000000 01020304",
                                             'tt1-rseg': "1010 0000000000000000 01020304"})[kind]
        return t, HEX(cmd), 0.1
    if kind == 'ttb':
        return R("106B", sensb_res=HEX("50E8253EEC00000011008185")), HEX("0200A4"), 0.1
    if kind == 'ttf':
        return R("212F", sensf_res=HEX("0101010701260CCA020F0D23042F7783FF12FC")), \
            HEX("1006 0101070126 0CCA02 010B00 018000"), 0.1
    if kind == 'dep-active':
        return R("424F", atr_req=HEX(ATR_REQ), atr_res=HEX(ATR_RES)), \
            HEX("06D40600 0000"), 0.1
    if kind == 'dep-passive':
        return R("106A", sens_res=HEX("4400"), sel_res=HEX("40"),
                 sdd_res=HEX("08010203"), atr_req=HEX(ATR_REQ),
                 atr_res=HEX(ATR_RES)), HEX("F006D40600 0000"), 0.1
    if kind == 'ltt2':
        return L("106A", sens_res=HEX("4400"), sel_res=HEX("00"),
                 sdd_res=HEX("08010203"), tt2_cmd=HEX("3000")), \
            HEX("00010203040506070809101112131415"), 0.1
    if kind == 'ldep':
        return L("106A", sens_res=HEX("4400"), sel_res=HEX("40"),
                 sdd_res=HEX("08010203"), atr_req=HEX(ATR_REQ),
                 atr_res=HEX(ATR_RES), dep_req=HEX("D406000000")), \
            HEX("F006D50700 0000"), 0.1
    if kind == 'ldep-recv':
        return L("106A", sens_res=HEX("4400"), sel_res=HEX("40"),
                 sdd_res=HEX("08010203"), atr_req=HEX(ATR_REQ),
                 atr_res=HEX(ATR_RES), dep_req=HEX("D406000000")), None, 0.1
    if kind == 'ltt3':
        return L("212F", sensf_res=HEX("0101010701260CCA020F0D23042F7783FF12FC"),
                 tt3_cmd=HEX("06 0101010701260CCA 010B00 018000")), \
            HEX("0507 0101"), 0.03
    raise ValueError(kind)


INITIATOR = ('tt2', 'tt4a', 'tt1', 'tt1-read8', 'tt1-rseg', 'ttb', 'ttf',
             'dep-active', 'dep-passive')


def kinds_for(driver, tier):
    q = tier == "quick"
    m = MODEL[driver]
    k = ['tt2', 'tt4a', 'ttf', 'dep-passive']
    if m != 'rcs380':
        k.append('dep-active')
    if m in ('pn532', 'pn533', 'rcs956', 'rcs380') and driver != 'acr122':
        k.append('tt1')
    if m in ('pn532', 'pn533') and driver not in ('acr122',):
        k.append('tt1-read8')
        if not q:
            k.append('tt1-rseg')
    if m in ('pn532', 'pn533', 'rcs956', 'acr122', 'rcs380'):
        k.append('ttb')
    if driver != 'acr122':
        k += ['ltt2', 'ldep', 'ldep-recv']
    if m in ('pn531', 'pn532', 'pn533'):
        k.append('ltt3')
    return k


# ----------------------------------------------------------------------------
# chip behaviour during the exchange
# ----------------------------------------------------------------------------
PN_NAMES = {0x06: "ReadRegister", 0x08: "WriteRegister", 0x32: "RFConfiguration",
            0x42: "InCommunicateThru", 0x40: "InDataExchange",
            0x90: "TgResponseToInitiator", 0x88: "TgGetInitiatorCommand",
            0x18: "ResetMode"}
RCS_NAMES = {0x00: "InSetRF", 0x02: "InSetProtocol", 0x04: "InCommRF",
             0x48: "TgCommRF"}
PN_RF = (0x42, 0x40, 0x90, 0x88)        # the RF data exchange commands


class Script(object):
    """what the chip reports; records the symbolic status of every command"""

    def __init__(self, sx, driver, kind, symbolic, plen):
        self.sx, self.driver, self.kind = sx, driver, kind
        self.model = MODEL[driver]
        self.symbolic = symbolic        # statuses/payload symbolic or all-good
        self.plen = plen
        self.status = []                # (idx, code, value)
        self.payload = None
        self.regreads = 0

    def st(self, idx, code, name="st"):
        v = self.sx.byte("%s%d" % (name, idx)) if self.symbolic else 0
        self.status.append((idx, code, v))
        return v

    def data(self, idx):
        if self.symbolic:
            p = list(self.sx.bytes("rx%d" % idx, self.plen))
        else:
            p = [(3 * i + 1) & 0xFF for i in range(self.plen)]
        self.payload = p
        return p

    # -- PN53x family
    def pn(self, link, idx, code, data):
        m = self.model
        if code == 0x06:
            n = len(data) // 2
            self.regreads += 1
            if self.kind == 'ltt3':
                vals = self.ltt3_regs(idx, n)
            elif self.kind == 'tt1-read8' and n != 3:
                # CIU_FIFOLevel, then the FIFO: 11 octets hold 9 received
                # bytes + parity bits (concrete: they go through str.format)
                vals = [11] if n == 1 else [0x5A] * n
            else:
                vals = [0x00] * n       # register values stay concrete (b''.join)
            return ([self.st(idx, code)] if m == 'pn533' else []) + vals
        if code == 0x08:
            if m == 'pn533':
                return [self.st(idx, code)]
            if m == 'rcs956':
                return [self.st(idx, code)]
            return [0x00]
        if code in (0x42, 0x40, 0x88):
            return [self.st(idx, code)] + self.data(idx)
        if code == 0x90:
            return [self.st(idx, code)]
        return []

    def ltt3_regs(self, idx, n):
        sx = self.sx
        if n == 2:                      # CIU_CommIRq, CIU_DivIRq
            if self.symbolic:
                c, d = sx.byte("commirq%d" % idx), sx.byte("divirq%d" % idx)
            else:
                c, d = 0x20, 0x00
            self.status.append((idx, 'irq', (c, d)))
            return [c, d]
        if n == 1:                      # CIU_FIFOLevel
            return [self.plen]
        return self.data(idx)           # CIU_FIFOData x FIFOLevel

    # -- RC-S380
    def rcs(self, link, idx, code, data):
        sx = self.sx
        if code == 0x04:                # InCommRF: comm status(4) rx-info(1) data
            if self.symbolic:
                cs = list(sx.bytes("cs%d" % idx, 4))
            else:
                cs = [0, 0, 0, 0]
            self.status.append((idx, code, cs))
            return cs + [0x08] + self.data(idx)
        if code == 0x48:                # TgCommRF: 3 bytes, comm status(4), data
            if self.symbolic:
                cs = self.tg_status(idx)
            else:
                cs = [0, 0, 0, 0]
            self.status.append((idx, code, cs))
            return [0x0B, 0x00, 0x03] + cs + self.data(idx)
        return [self.st(idx, code)]

    def tg_status(self, idx):
        """target mode formats the status with str() -> dict lookup, which
        enumerates it: restrict to the 12 bits the driver defines"""
        sx = self.sx
        cs = list(sx.bytes("cs%d" % idx, 4))
        sx.assume(sx.all([(cs[0] & 0x20) == 0, (cs[1] & 0xF0) == 0,
                          cs[2] == 0, (cs[3] & 0x7F) == 0]),
                  "RC-S380 TgCommRF communication status: only the 12 bits named in rcs380.CommunicationError.err2str may be set (target mode)")
        if self.csbits < 12:
            sx.assume((cs[1] & 0x0B) == 0,
                      "quick tier: RC-S380 TgCommRF status bits 8, 9, 11 clear (CRYPTO1, RFCA, TRANSMIT_TIMEOUT)")
        return cs


def le32(b):
    return b[0] | (b[1] << 8) | (b[2] << 16) | (b[3] << 24)


def classify(e):
    if isinstance(e, nfc.clf.TimeoutError):
        return "TimeoutError"
    if isinstance(e, nfc.clf.BrokenLinkError):
        return "BrokenLinkError"
    if isinstance(e, nfc.clf.TransmissionError):
        return "TransmissionError"
    if isinstance(e, nfc.clf.ProtocolError):
        return "ProtocolError"
    if isinstance(e, IOError):
        return "IOError"
    return None


def site(e):
    """ExceptionType@module:function of the innermost nfc frame"""
    return exc_label(e)[len("uncaught:"):]


def cmdname(driver, link):
    if not link.commands:
        return "none"
    code = link.commands[-1][1]
    names = RCS_NAMES if MODEL[driver] == 'rcs380' else PN_NAMES
    return names.get(code, "%02X" % code)


FAULTS = {
    # every transport position of a host command (write, ACK read, response
    # read) x every shape of error object the transport may raise
    'io': [(pos, shape) for pos in ('w', 'a', 'r')
           for shape in ('EIO', 'ENODEV', 'ETIMEDOUT', 'EPIPE', 'text',
                         'noargs', 'serial')],
    'frame': [('short', 1), ('short', 3), ('short', 5), ('short', 6),
              ('short', -2), ('short', -1), ('err', None), ('garble', None)],
}


def fault_name(f):
    """label component: kind of the fault; for transport errors also whether
    the error object carried an errno"""
    if f is None:
        return "none"
    if f.kind in ('w', 'a', 'r'):
        return "%s/%s" % (f.kind, "errno" if f.arg.startswith("E") else "no-errno:" + f.arg)
    return f.kind


def exchange(sx, driver, kind, fault, nmax=6, plen=3, csbits=12, timeout=None, both=False):
    crcref.install_summary(sx)
    dev, link = make_device(sx, driver)
    clf = make_frontend(dev)
    target, send, tmo = make_target(kind)
    timeout = tmo if timeout is None else timeout
    clf.target = target
    f = None
    if fault != 'none':
        choices = FAULTS[fault]
        if kind == 'tt1-read8':
            # the received FIFO bytes are turned into text ("{:08b}".format);
            # symbolic bytes cannot follow there: no arbitrary frames here
            choices = [c for c in choices if c[0] != 'garble']
        fk, arg = sx.pick("fault", choices)
        at = sx.pick("at", list(range(nmax)))
        if fk == 'garble' and MODEL[driver] == 'rcs380' and kind not in INITIATOR:
            # target mode formats the communication status with str() (a dict
            # lookup that enumerates it): garble the 10 bytes before it only
            arg = 10
        f = Fault(at, fk, arg)
    # both=True: symbolic chip status AND one host-link fault at a later
    # command (two-step histories: error status, then a fault in whatever the
    # driver does about it); only the escape/None/lock obligations apply then
    sc = Script(sx, driver, kind, symbolic=(f is None or both), plen=plen)
    sc.csbits = csbits
    link.begin(chip=sc.rcs if MODEL[driver] == 'rcs380' else sc.pn, fault=f)
    tag = "%s:%s:%s" % ("initiator" if kind in INITIATOR else "target",
                        driver, kind)
    try:
        data = clf.exchange(send, timeout)
        out = "data" if data is not None else "None"
    except Exception as e:
        data = None
        out = classify(e)
        if out is None:
            # a driver-internal (or any undocumented) exception type escaped
            sx.check(False, "escaped:%s:%s:after=%s:fault=%s" % (
                site(e), tag, cmdname(driver, link), fault_name(f)))
    if f is not None and not link.fault_hit:
        # the exchange has fewer host commands than the picked index
        sx.reach("fault-index-beyond-exchange")
        return out
    sx.reach("out:" + out)
    sx.reach("kind:" + kind)
    if clf.lock.locked():
        sx.check(False, "frontend-lock-left-locked:" + tag)
    if f is not None:
        sx.reach("fault:" + f.kind)
        if f.kind in ('w', 'a', 'r'):
            sx.reach("ioerror-shape:" + f.arg)
        if out == "None" and kind in INITIATOR:
            sx.check(False, "none-returned-after-host-link-fault:%s:%s" % (tag, f.kind))
        if f.kind in ('w', 'a') and out != "IOError" and not both and \
                MODEL[driver] not in ('rcs380', 'acr122', 'udp'):
            # (PN53x host protocol: every command is acknowledged within
            # milliseconds, before anything happens on the RF side.  The
            # ACR122 has no such stage - its one CCID answer arrives when the
            # RF exchange is over - and the RC-S380 / UDP drivers are judged
            # by their own rules above)
            # the command could not be written, or the chip did not even
            # acknowledge it: the host link is broken, whatever errno the
            # transport gave; an RF error class (e.g. TimeoutError for
            # ETIMEDOUT) would tell the application that the *target* failed
            sx.check(False, "host-link-fault-reported-as-%s:%s:%s" % (out, tag, fault_name(f)))
        return out
    # ---- no host-link fault: the outcome must follow from the chip status
    if out == "IOError":
        sx.check(False, "ioerror-without-host-link-fault:%s:after=%s" % (
            tag, cmdname(driver, link)))
    if MODEL[driver] == 'rcs380':
        judge_rcs380(sx, sc, kind, out, data, tag)
    else:
        judge_pn53x(sx, sc, kind, out, data, tag)
    return out


def good(code, v):
    """success reading of one status value"""
    if code == 0x40:
        # InDataExchange: bit 7 NAD present, bit 6 more information, bits 5..0
        # error code (PN532 UM 7.3.8)
        return (v & 0x3F) == 0
    return v == 0


def all_zero(sx, sc):
    conds = []
    for idx, code, v in sc.status:
        if code == 'irq':
            continue
        if isinstance(v, list):
            conds += [b == 0 for b in v]
        else:
            conds.append(good(code, v))
    return sx.all(conds)


def judge_pn53x(sx, sc, kind, out, data, tag):
    rf = [(i, c, v) for i, c, v in sc.status if c in PN_RF]
    if kind == 'ltt3':
        irq = [(i, v) for i, c, v in sc.status if c == 'irq']
        if irq:
            at, (commirq, divirq) = irq[-1]
            # the register values count only if the ReadRegister command that
            # delivered them reported success (PN533 status byte)
            read_ok = sx.all([good(c, v) for i, c, v in sc.status
                              if i == at and c != 'irq'])
            if out != "BrokenLinkError":
                # external field switched off (CIU_DivIRq.RfOffIRq)
                sx.check(sx.neg(sx.all([read_ok, (divirq & 1) != 0])),
                         "field-off-not-BrokenLinkError:" + tag)
            if out == "data":
                sx.check((commirq & 0x20) != 0, "data-without-rx-irq:" + tag)
        if out == "None":
            sx.check(False, "none-returned:" + tag)
        return
    if out == "None":
        sx.check(False, "none-returned:" + tag)
    if out == "data":
        # every status byte of the exchange reported success
        sx.check(all_zero(sx, sc), "data-returned-despite-error-status:" + tag)
        if kind == 'tt2' and len(sc.payload) > 2:
            want = sc.payload[:-2]
        elif kind in ('tt1-read8', 'tt1-rseg'):
            want = None
        else:
            want = sc.payload
        if want is not None:
            sx.check(same_items(sx, data, want), "returned-data-differs-from-chip-data:" + tag)
        return
    if not rf:
        return
    idx, code, st = rf[-1]
    prep_ok = sx.all([good(c, v) for i, c, v in sc.status
                      if (i, c) != (idx, code) and c != 'irq'])
    if kind in INITIATOR:
        if out != "TimeoutError":
            # chip status 01h: "Time out, the target has not answered"; the
            # status byte of InDataExchange carries the error code in bits
            # 5..0 next to the NAD (bit 7) and MI (bit 6) flags
            tmo = ((st & 0x3F) == 0x01) if code == 0x40 else (st == 0x01)
            sx.check(sx.neg(sx.all([prep_ok, tmo])),
                     "timeout-status-not-TimeoutError:" + tag)
    else:
        if out != "BrokenLinkError":
            # 29h released by initiator, 31h initiator RF-off (RC-S956),
            # 0Ah RF field not switched on in time by the counterpart
            sx.check(sx.neg(sx.all([prep_ok, sx.any([st == 0x29, st == 0x31,
                                                      st == 0x0A])])),
                     "field-off-status-not-BrokenLinkError:" + tag)
    if kind == 'tt2' and out == "TransmissionError":
        return                          # CRC_A of the payload may be wrong
    if kind == 'tt1-read8':
        return                          # concrete FIFO content: CRC_B error
    # an error outcome needs an error status somewhere
    sx.check(sx.neg(all_zero(sx, sc)), "error-raised-despite-good-status:%s:%s" % (tag, out))


def judge_rcs380(sx, sc, kind, out, data, tag):
    rf = [(i, c, v) for i, c, v in sc.status if c in (0x04, 0x48)]
    if out == "None":
        sx.check(False, "none-returned:" + tag)
    if out == "data":
        sx.check(all_zero(sx, sc), "data-returned-despite-error-status:" + tag)
        want = sc.payload[:-2] if (kind == 'tt2' and len(sc.payload) > 2) else sc.payload
        sx.check(same_items(sx, data, want), "returned-data-differs-from-chip-data:" + tag)
        return
    if not rf:
        return
    idx, code, cs = rf[-1]
    status = le32(cs)
    prep_ok = sx.all([v == 0 for i, c, v in sc.status if c not in (0x04, 0x48)])
    if out != "TimeoutError":
        sx.check(sx.neg(sx.all([prep_ok, status == 0x80])),
                 "timeout-status-not-TimeoutError:" + tag)
    if kind not in INITIATOR and out != "BrokenLinkError":
        sx.check(sx.neg(sx.all([prep_ok, status == 0x400])),
                 "field-off-status-not-BrokenLinkError:" + tag)
    if kind == 'tt2' and out == "TransmissionError":
        return
    sx.check(sx.neg(all_zero(sx, sc)), "error-raised-despite-good-status:%s:%s" % (tag, out))


def same_items(sx, a, b):
    a, b = list(a), list(b)
    if len(a) != len(b):
        return False
    return sx.all([x == y for x, y in zip(a, b)])


# ----------------------------------------------------------------------------
# udp: the "host link" is a datagram socket
# ----------------------------------------------------------------------------
class StubSocketModule(object):
    """socket module as nfc.clf.udp uses it"""
    AF_INET, SOCK_DGRAM, NI_NUMERICHOST = 2, 2, 1
    error = OSError

    def __init__(self, script):
        self.script = script

    def gethostbyname(self, host):
        return "127.0.0.1"

    def getnameinfo(self, addr, flags):
        return (addr[0], str(addr[1]))

    def socket(self, *a):
        return StubSocket(self.script)


class SocketTimeout(OSError):
    """socket.timeout / socket.herror style: an OSError subclass raised with
    a message only (errno None)"""


def socket_error(shape, code):
    if shape == 'errno':
        return OSError(code, os.strerror(code))
    if shape == 'text':
        return OSError("socket gone")
    if shape == 'noargs':
        return OSError()
    return SocketTimeout("timed out")


class StubSocket(object):
    def __init__(self, script):
        self.script = script

    def getsockname(self):
        return ("127.0.0.1", 40001)

    def close(self):
        pass

    def bind(self, addr):
        pass

    def sendto(self, data, addr):
        s = self.script
        s['sent'] += 1
        if s['send'] == 'error':
            s['fault'] = True
            raise socket_error(s['shape'], errno.ENETUNREACH)
        if s['send'] == 'partial':
            s['fault'] = True
            return len(data) - 1
        return len(data)

    def recvfrom(self, n):
        s = self.script
        if s['recv'] == 'error':
            s['fault'] = True
            raise socket_error(s['shape'], errno.ECONNREFUSED)
        return s['dgram'], ("127.0.0.1", 54321)


class StubSelect(object):
    def __init__(self, script):
        self.script = script

    def select(self, r, w, x, timeout=None):
        if self.script['recv'] == 'silence':
            nfc.clf.udp.time.sleep(timeout if timeout else 1.0)
            return ([], [], [])
        return (list(r), [], [])


DGRAMS = {
    'good': b"106A 00010203", 'empty-data': b"106A", 'rfoff': b"RFOFF",
    'other-brty': b"212F 0600", 'three-tokens': b"106A 0001 0203",
    'odd-hex': b"106A 000", 'non-hex': b"106A zz", 'non-ascii-brty': b"\xff6A 00",
    'nothing': b"",
}


def udp_exchange(sx, role):
    script = dict(sent=0, fault=False)
    script['send'] = sx.pick("send", ['ok', 'error', 'partial'])
    script['recv'] = sx.pick("recv", ['dgram', 'error', 'silence'])
    name = sx.pick("dgram", sorted(DGRAMS)) if script['recv'] == 'dgram' else 'good'
    script['shape'] = 'errno'
    if 'error' in (script['send'], script['recv']):
        script['shape'] = sx.pick("shape", ['errno', 'text', 'noargs', 'subclass'])
    script['dgram'] = DGRAMS[name]
    udp = nfc.clf.udp
    saved = udp.socket, udp.select
    udp.socket, udp.select = StubSocketModule(script), StubSelect(script)
    try:
        dev = udp.Device("localhost", 54321)
        clf = make_frontend(dev)
        if role == 'initiator':
            clf.target = nfc.clf.RemoteTarget("106A", sens_res=HEX("4400"),
                                              sel_res=HEX("00"), sdd_res=HEX("01020304"),
                                              _addr=("127.0.0.1", 54321))
        else:
            clf.target = nfc.clf.LocalTarget("106A", tt2_cmd=HEX("3000"),
                                             _addr=("127.0.0.1", 54321))
        tag = "udp:%s" % role
        try:
            data = clf.exchange(HEX("3000"), 0.1)
            out = "data" if data is not None else "None"
        except Exception as e:
            out = classify(e)
            if out is None:
                sx.check(False, "escaped:%s:%s:dgram=%s" % (site(e), tag, name))
        sx.reach("udp:" + out)
        if out == "IOError" and not script['fault']:
            sx.check(False, "ioerror-without-socket-fault:" + tag)
        if out == "None":
            sx.check(False, "none-returned:" + tag)
        if script['send'] == 'ok' and script['recv'] == 'dgram':
            if name == 'good' and out != "data":
                sx.check(False, "good-datagram-not-returned:" + tag)
            if name == 'rfoff' and out != "BrokenLinkError":
                sx.check(False, "rfoff-not-BrokenLinkError:" + tag)
        if script['send'] == 'ok' and script['recv'] == 'silence' and out != "TimeoutError":
            sx.check(False, "silence-not-TimeoutError:" + tag)
        return out
    finally:
        udp.socket, udp.select = saved


# ----------------------------------------------------------------------------
QUICK = {
    # driver: {kind: fault classes}; the full product runs in the thorough tier
    'pn532': None,          # everything
    'rcs380': None,
    'pn533': {'tt2': 'nif', 'tt1': 'n', 'ltt2': 'ni', 'ltt3': 'n'},
    'pn531': {'tt2': 'nif', 'ttf': 'n', 'ldep': 'ni', 'ltt3': 'nif'},
    'rcs956': {'tt2': 'nif', 'tt1': 'n', 'ttb': 'n', 'ltt2': 'ni'},
    'acr122': {'tt2': 'nif', 'ttb': 'n', 'dep-passive': 'n'},
    'arygonA': {'tt2': 'ni', 'ldep': 'i', 'ltt3': 'i'},
    'arygonB': {'tt2': 'ni', 'ldep': 'i'},
}


def closed_by_other_thread(sx, op):
    """exchange() on a frontend that another thread closes in the moment
    before exchange() gets the frontend lock (harness/c15_lock.py,
    close_race_scn; recording driver): the documented IOError(ENODEV), never
    an exception of another type"""
    from harness import c15_lock
    return c15_lock.close_race_scn(sx, op)


USB_KINDS = ["USBErrorTimeout", "USBErrorNoDevice", "USBErrorIO", "USBErrorPipe",
             "USBErrorOverflow", "USBErrorBusy", "USBErrorInterrupted", "USBErrorOther", "USBError"]


def usb_transport(sx, op):
    """the real nfc.clf.transport.USB.write()/read() (what every USB driver
    hands its frames to) on a libusb device handle that raises one libusb
    error at one of its bulk transfers: the frame goes out (with the
    terminating zero-length transfer where it fills the last packet) or comes
    in, or IOError is raised - a usb1 exception (not an IOError) never
    leaves the transport."""
    import nfc.clf.transport as T
    libusb = T.libusb
    packet = sx.pick("packet", [64, 8])
    n = sx.pick("len", [1, packet - 1, packet, packet + 1, 2 * packet, 255])
    fault_at = sx.pick("fault_at", [0, 1, 2])
    kind = sx.pick("kind", USB_KINDS) if fault_at else None

    class EndPoint(object):
        def __init__(self, addr):
            self.addr = addr

        def getAddress(self):
            return self.addr

        def getMaxPacketSize(self):
            return packet

    class Handle(object):
        def __init__(self):
            self.n = 0
            self.out = []

        def _fault(self):
            self.n += 1
            if self.n == fault_at:
                sx.reach("usb:fault-at-transfer-%d" % fault_at)
                raise getattr(libusb, kind)()

        def bulkWrite(self, ep, data, timeout=0):
            self._fault()
            self.out.append(bytes(data))
            return len(data)

        def bulkRead(self, ep, length, timeout=0):
            self._fault()
            return bytes(bytearray((i * 3 + 1) & 0xFF for i in range(min(n, length))))

        def close(self):
            pass

    usb = T.USB.__new__(T.USB)
    usb.context = None           # (__del__ looks at it)
    usb.usb_dev = Handle()
    usb.usb_out = EndPoint(0x02)
    usb.usb_inp = EndPoint(0x81)
    frame = bytearray((i * 5 + 2) & 0xFF for i in range(n))
    label = "usb-transport:%s" % op
    try:
        if op == "write":
            usb.write(frame, 100)
            sx.check(b"".join(usb.usb_dev.out) == bytes(frame), label + ":frame-not-written-intact")
            if n % packet == 0:
                sx.reach("usb:frame-fills-last-packet")
            out = "written"
        else:
            rsp = usb.read(100)
            sx.check(bytes(rsp) == bytes(bytearray((i * 3 + 1) & 0xFF for i in range(n))),
                     label + ":frame-not-read-intact")
            out = "read"
    except IOError as error:
        sx.check(fault_at and usb.usb_dev.n >= fault_at, label + ":IOError-without-fault")
        sx.reach("usb:IOError")
        out = "IOError:%s" % error.errno
    except Exception as error:
        sx.check(False, "%s:%s-escapes:fault-at-transfer-%d:len=%s" % (
            label, type(error).__name__, fault_at, "packet-multiple" if n % packet == 0 else "other"))
        out = "escaped"
    sx.reach("usb:" + op)
    return out


def partitions(tier):
    q = tier == "quick"
    parts = []
    for op in ("write", "read"):
        parts.append(dict(name="usb-transport:" + op, fn="usb_transport", params=dict(op=op)))
    for op in ("exchange-cmd", "exchange-rsp"):
        parts.append(dict(name="closed-by-other-thread:" + op, fn="closed_by_other_thread",
                          params=dict(op=op)))
    for d in PN + ['rcs380']:
        for k in kinds_for(d, tier):
            sel = 'nif'
            if q and QUICK[d] is not None:
                sel = QUICK[d].get(k, '')
            nmax = dict(ltt3=8).get(k, 6)
            if k == 'tt1-read8':
                nmax = 20
            if k == 'tt1-rseg':
                nmax, sel = 19, 'n'
            for f in ('none', 'io', 'frame'):
                if f[0] not in sel:
                    continue
                plen = 3
                if k == 'tt2':
                    plen = 4            # two data bytes + CRC_A
                if q and d == 'rcs380' and k == 'ldep' and f == 'none':
                    continue            # same host command as ltt2
                parts.append(dict(name="%s:%s:%s" % (d, k, f), fn="exchange",
                                  params=dict(driver=d, kind=k, fault=f,
                                              nmax=nmax, plen=plen,
                                              csbits=9 if q else 12)))
            if k == 'tt2' and 'n' in sel:
                parts.append(dict(name="%s:%s:acknak" % (d, k), fn="exchange",
                                  params=dict(driver=d, kind=k, fault='none',
                                              nmax=6, plen=1)))
            if not q and k in ('tt2', 'ttf', 'ldep') and d in ('pn532', 'pn533', 'rcs956', 'rcs380'):
                # other payload sizes and exchange time-outs (PN53x: response
                # time-out index 1..16; RC-S380: 0 = no time-out)
                for i, (pl, tmo) in enumerate([(0, 0.1), (7, 0.1), (3, 0.0005),
                                               (3, 5.0), (3, 0)]):
                    if tmo == 0 and d != 'rcs380':
                        continue
                    parts.append(dict(name="%s:%s:var%d" % (d, k, i), fn="exchange",
                                      params=dict(driver=d, kind=k, fault='none',
                                                  nmax=6, plen=pl, timeout=tmo)))
    # chip error status combined with a host-link fault at a later command
    for d, k in (('pn532', 'tt2'), ('rcs956', 'tt2')) + (
            (('pn533', 'tt2'), ('rcs380', 'tt2'), ('pn531', 'tt2'), ('acr122', 'tt2')) if not q else ()):
        if k not in kinds_for(d, tier):
            continue
        parts.append(dict(name="%s:%s:status+frame" % (d, k), fn="exchange",
                          params=dict(driver=d, kind=k, fault='frame', nmax=8, plen=3,
                                      csbits=9 if q else 12, both=True)))
    for role in ('initiator', 'target'):
        parts.append(dict(name="udp:" + role, fn="udp_exchange", params=dict(role=role)))
    return parts


MUST_REACH = ["usb:write", "usb:read", "usb:IOError", "usb:frame-fills-last-packet", "usb:fault-at-transfer-2", "close-race:exchange-cmd:closed-before-lock", "close-race:exchange-rsp:closed-before-lock", "out:data", "out:TimeoutError", "out:TransmissionError",
              "out:BrokenLinkError", "out:IOError", "fault:w", "fault:a",
              "fault:r", "fault:short", "fault:garble", "fault:err",
              "ioerror-shape:EIO", "ioerror-shape:ENODEV",
              "ioerror-shape:ETIMEDOUT", "ioerror-shape:EPIPE",
              "ioerror-shape:text", "ioerror-shape:noargs",
              "ioerror-shape:serial", "udp:IOError",
              "udp:data", "udp:TimeoutError", "udp:BrokenLinkError",
              "udp:TransmissionError"] + \
    ["kind:" + k for k in ('tt2', 'tt4a', 'tt1', 'tt1-read8', 'ttb', 'ttf',
                           'dep-active', 'dep-passive', 'ltt2', 'ldep',
                           'ldep-recv', 'ltt3')]

BOUNDS = {
    "quick": "pn532 and rcs380: every target kind the driver can activate (Type 2, 4A, 1 incl. the PN532 READ8 register path, Type B, Type F, DEP active/passive as initiator; listen-mode Type 2 / DEP with and without data to send / Type 3 via CIU registers) x {no fault, I/O fault, frame fault}; pn533, pn531, rcs956, acr122: Type 2 with all three fault classes plus 2-4 further kinds without fault (table QUICK); arygon A/B: Type 2 without fault and with I/O faults. Without host-link fault: the status byte of *every* host command of the exchange is symbolic over 0..255 simultaneously (PN533 ReadRegister/WriteRegister, RC-S956 WriteRegister, InCommunicateThru/InDataExchange/TgResponseToInitiator/TgGetInitiatorCommand; CIU_CommIRq/CIU_DivIRq for the Type 3 listen loop); RC-S380: 8-bit status of InSetRF/InSetProtocol, all 32 bits of the InCommRF communication status, 9 of the 12 named bits of the TgCommRF status; 3-4 symbolic payload bytes (Type 2: incl. CRC_A; also a 1-byte ACK/NAK). With a fault: exactly one fault at any host command index of the exchange out of {a transport error raised from write, from the ACK read or from the response read (each position separately) in every shape the transport can produce: IOError with errno EIO/ENODEV/ETIMEDOUT/EPIPE, IOError('text only') and IOError() (errno None), a pyserial-style SerialException(IOError) instance (errno None), response cut to 1,3,5,6,len-2,len-1 bytes, chip error frame, arbitrary bytes of the response's length}, statuses good. udp: send ok/error/partial x receive (9 datagram shapes)/socket error/silence, socket errors as OSError with errno, text only, without arguments and as a socket.timeout-style subclass, initiator and target role; in quick every driver has transport-error partitions for an initiator-side and (where the driver can listen) a target-side exchange; nfc.clf.transport.USB.write()/read() with frame lengths {1, p-1, p, p+1, 2p, 255} for packet sizes p in {64, 8}, one of nine usb1 error classes at the first or second bulk transfer",
    "thorough": "all eight driver classes x all kinds they support x all three fault classes, Type 1 RSEG (16 chip commands), PN533 READ8 path (a status byte on each of ~20 register commands), all 12 named TgCommRF status bits; pn532/pn533/rcs956/rcs380 Type 2, Type F and DEP-target exchanges also with 0 and 7 payload bytes and time-outs 0.5 ms, 5 s (RC-S380: 0)",
}
OUTSIDE = [
    "two or more host-link faults in one exchange; a fault combined with error statuses",
    "register values returned by ReadRegister in the bitrate set-up are concrete 00 (they are re-packed with bytes.join, a C boundary); send data is concrete",
    "Type 1 READ8 path: FIFO contents concrete and no arbitrary-bytes fault (the driver turns the bytes into text with str.format)",
    "RC-S380 target mode: TgCommRF status bits outside the 12 the driver names; the arbitrary-bytes fault covers the 10 bytes before the status only (the driver formats the status through a dict lookup, which enumerates it)",
    "activation (sense_*/listen_*): the activated target objects are constructed directly as the drivers return them",
    "module-level init(transport) probing, nfc.clf.transport other than USB.read()/USB.write() (device discovery and opening, the pyserial side)",
    "exchange time-outs other than 0.1 s (0.03 s for the Type 3 listen loop; thorough: also 0.5 ms, 5 s and, RC-S380, 0)",
    "udp: real sockets; datagram contents other than the listed shapes",
]
ASSUMPTIONS = [
    "env/hostlink.py HostLink + Script (this file): a chip answers every host command with ACK + one well-formed response frame carrying the status/payload fields of the PN53x / RC-S956 / RC-S380 command set as the repository's driver tests use them",
    "devices are built by the drivers' real Chipset/Device __init__ on the HostLink with the initialisation answers of the repository's tests; module-level init() is not run",
    "oracle for mapped errors (harness): PN53x status 01h => TimeoutError in initiator mode; 29h/31h/0Ah => BrokenLinkError in target mode; CIU_DivIRq bit 0 => BrokenLinkError (Type 3 listen); RC-S380 status 00000080h => TimeoutError, 00000400h => BrokenLinkError in target mode; None is accepted as return value only in target mode after a host-link fault",
    "nfc.clf.device.calculate_crc is replaced in symbolic mode by its if-converted term (proven/validated by C14); native replays use the real function",
    "udp: socket/select module objects of nfc.clf.udp replaced by stubs in both modes",
]
LIMITS = {"quick": dict(max_time=200), "thorough": dict(max_time=1500)}
