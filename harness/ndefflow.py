"""NDEF conversations on a World: write/read-back (C01), power cut (C02),
area preservation (C03), transient faults (C16).  The implementation under test
is whatever nfc.tag.activate() returns for the world's target."""
import nfc
import nfc.clf
import nfc.tag
from harness.util import same


def msg_lengths(cap, tier, dense_upto=0):
    """boundary set of message lengths for a layout that can hold cap bytes"""
    s = set([0, 1, 2, cap - 1, cap, cap + 1, 253, 254, 255, 256])
    if dense_upto:
        s.update(range(0, min(cap, dense_upto) + 2))
    return sorted(x for x in s if 0 <= x <= cap + 1)


def new_message(sx, n, long_trick, concrete=False, name="msg", lo=0x80, hi=0xFF):
    if concrete:
        return sx.mkbytes([(lo | (i * 11 + i // 251)) & hi for i in range(n)], True)
    if long_trick:
        return sx.mkbytes([sx.int("%s[%d]" % (name, i), lo, hi) for i in range(n)], True)
    return sx.bytes(name, n, mutable=True)


def open_ndef(sx, world, who):
    tag = world.fresh_tag()
    if tag is None:
        sx.check(False, "%s:activate-returned-none:%s" % (who, world.kind))
    ndef = tag.ndef
    return tag, ndef


def roundtrip(sx, world, n, prop="C01"):
    """one write of a symbolic n-byte message and a fresh read back.
    prop C01: round-trip/capacity obligations; prop C03: only the area
    obligations (the C01 obligations are not evaluated at all, so that a C01
    defect can neither raise a C03 alarm nor hide a C03 defect)."""
    kind = world.kind
    c01 = prop == "C01"
    tag, ndef = open_ndef(sx, world, "first")
    if ndef is None:
        if c01:
            sx.check(False, "well-formed-layout-not-recognised:" + kind)
        sx.assume(False, "C03 run: layout not recognised (judged by C01)")
    cap = ndef.capacity
    if c01:
        sx.check(cap <= world.cap, "capacity-exceeds-layout:" + kind)
        sx.check(sx.eq(ndef.octets, world.old), "initial-read-differs:" + kind)
    cap = sx.concrete(cap)
    again = getattr(world, 'again', None)
    msg = new_message(sx, n, getattr(world, 'long_trick', False),
                      getattr(world, 'concrete_msg', False),
                      hi=0xBF if again is not None else 0xFF)
    before = world.snapshot()
    ncmd = world.sim.ncmd
    for l in world.geometry(n):
        sx.reach(l)
    world.sim.writes = []
    try:
        ndef.octets = msg
    except ValueError:
        if c01:
            sx.check(n > cap, "fitting-message-rejected:" + kind)
            sx.check(world.sim.ncmd == ncmd, "command-sent-before-oversize-rejection:" + kind)
        sx.reach("oversize_rejected")
        if not c01:
            check_area(sx, world, before, "write")
        return "rejected"
    except nfc.tag.TagCommandError:
        if c01:
            raise
        # C03: whatever was written before the failure must respect the area
        check_area(sx, world, before, "write")
        return "write-failed"
    if c01:
        sx.check(n <= cap, "oversize-message-accepted:" + kind)
    if n == 0:
        sx.reach("empty_message_written")
    if n >= 255:
        sx.reach("three_byte_length")
    if n == cap:
        sx.reach("message_fills_capacity")
    if not c01:
        check_area(sx, world, before, "write")
        return "written"
    if again is not None:
        # a second write through the same NDEF object (what it cached about
        # the tag must still be right after its own first write); the second
        # message takes its octets from C0h..FFh, the first from 80h..BFh
        n2 = sx.pick("n2", [x for x in again if x <= cap])
        msg2 = new_message(sx, n2, getattr(world, 'long_trick', False),
                           getattr(world, 'concrete_msg', False), name="msg2", lo=0xC0)
        sx.check(ndef.capacity == cap, "capacity-changed-by-write-on-same-object:" + kind)
        sx.check(ndef.length == n, "length-on-same-object-differs-after-write:" + kind)
        ndef.octets = msg2
        sx.reach("second_write_on_same_object")
        if lenbytes(n) != lenbytes(n2):
            sx.reach("second_write_changes_length_format")
        n, msg = n2, msg2
    tag2, ndef2 = open_ndef(sx, world, "second")
    if ndef2 is None:
        sx.check(False, "ndef-gone-after-write:" + kind)
    sx.check(ndef2.length == n, "length-differs-after-write:" + kind)
    sx.check(sx.eq(ndef2.octets, msg), "octets-differ-after-write:" + kind)
    sx.check(ndef2.capacity == cap, "capacity-changed-by-write:" + kind)
    return "written"


def check_area(sx, world, before, what):
    """C03: after the operation and after every prefix of it, bytes outside
    the NDEF message area keep their values; every write unit intersects the
    area."""
    kind = world.kind
    conds = []
    for addr, old, new in world.sim.writes:
        touched = range(addr, addr + len(new))
        if not any(b in world.area for b in touched):
            sx.check(False, "%s-addresses-unit-outside-ndef-area:%s" % (what, kind))
        for i, b in enumerate(touched):
            if b not in world.area:
                conds.append(sx.eq(new[i], old[i]))
    sx.check(sx.all(conds), "%s-changes-byte-outside-ndef-area:%s" % (what, kind))
    after = world.snapshot()
    conds = [sx.eq(after[b], before[b]) for b in range(len(before))
             if b not in world.area]
    sx.check(sx.all(conds), "%s-final-memory-differs-outside-ndef-area:%s" % (what, kind))
    world.sim.writes = []


def formatflow(sx, world, wipe):
    """C03: format(wipe) touches only the NDEF message area; afterwards the
    tag reads as empty"""
    kind = world.kind
    tag, ndef = open_ndef(sx, world, "first")
    if ndef is None:
        sx.check(False, "well-formed-layout-not-recognised:" + kind)
    before = world.snapshot()
    # wipe value at or above 0x80 while previous contents are below (removes
    # the 2^pages "page unchanged?" forks of the write-back)
    w = None if wipe is None else sx.int("wipe", 0x80, 0xFF)
    res = tag.format(wipe=w)
    if res is not True:
        sx.reach("format_not_supported_or_failed")
        check_area(sx, world, before, "format")
        return "format:%r" % res
    sx.reach("format_wipe" if wipe is not None else "format_no_wipe")
    check_area(sx, world, before, "format")
    tag2, ndef2 = open_ndef(sx, world, "after-format")
    if ndef2 is None:
        return "formatted:ndef-none"
    # (whether format() really empties the message is not part of C03; it is
    # reported as a reach label only)
    sx.reach("format_left_length_nonzero" if sx.truth(ndef2.length != 0) else "format_emptied")
    return "formatted"


class ReadOutage(object):
    """hook: the tag misses `attempts` consecutive exchanges starting at a
    lazily chosen command that does not change the tag (n+1 choices for n
    commands)"""

    def __init__(self, sx, attempts=3):
        self.sx, self.attempts = sx, attempts
        self.k = 0
        self.left = None

    def __call__(self, sim, cmd):
        if self.left is None:
            if sim.is_write(cmd) or not self.sx.truth(self.sx.flag("outage_at_cmd_%d" % self.k)):
                self.k += 1
                return
            self.left = self.attempts
        if self.left > 0:
            self.left -= 1
            raise nfc.clf.TimeoutError("out of the field for a moment")


def reread_then_write(sx, world, n):
    """C03 over a history: the application keeps the object from tag.ndef,
    asks has_changed while the tag misses three exchanges somewhere in the
    re-read (every position), and then writes through the same object: the
    picture of the reserved ranges must not have been lost on the way"""
    kind = world.kind
    tag, ndef = open_ndef(sx, world, "first")
    if ndef is None:
        sx.check(False, "well-formed-layout-not-recognised:" + kind)
    out = ReadOutage(sx)
    world.sim.hook = out
    try:
        changed = ndef.has_changed
        res = "changed" if sx.truth(changed) else "same"
    except nfc.tag.TagCommandError:
        res = "error"
    world.sim.hook = None
    if out.left is None:
        sx.reach("reread_without_outage")
    else:
        sx.reach("reread_with_outage")
    msg = new_message(sx, n, True)
    before = world.snapshot()
    world.sim.writes = []
    try:
        ndef.octets = msg
        res += ":written"
    except (ValueError, AttributeError, nfc.tag.TagCommandError):
        # refusing to write after a failed re-read is fine
        res += ":refused"
        sx.reach("write_after_failed_reread_refused")
    check_area(sx, world, before, "write-after-reread")
    return res


class PowerCut(object):
    """hook: before every state-changing command ask a fresh symbolic Boolean
    'is power cut now?' (lazy fork: n+1 cut points for n writes)"""

    def __init__(self, sx, tag="", outage=0):
        self.sx = sx
        self.k = 0
        self.cut_at = None
        self.tag = tag
        # outage > 0: the tag does not leave for good, it misses exactly this
        # many exchanges (all attempts of one command) and then answers again
        self.outage = outage

    def __call__(self, sim, cmd):
        if not sim.is_write(cmd) or self.cut_at is not None:
            return
        if self.sx.truth(self.sx.flag("cut%s_before_write_%d" % (self.tag, self.k))):
            self.cut_at = self.k
            if self.outage:
                sim.outage_left = self.outage - 1
                self.k += 1
                raise nfc.clf.TimeoutError("out of the field for a moment")
            sim.gone = True
            raise nfc.clf.TimeoutError("power cut")
        self.k += 1


def cutflow(sx, world, n, retry=False, outage=0, relation=None):
    """C02: a write interrupted before its k-th state-changing command; then a
    fresh reader.  retry: the tag comes back into the field and the
    application repeats the write through the SAME tag object (what an
    application does on a TagCommandError); that second write is interrupted
    at every point too, or completes"""
    kind = world.kind
    tag, ndef = open_ndef(sx, world, "first")
    if ndef is None:
        sx.check(False, "well-formed-layout-not-recognised:" + kind)
    cap = sx.concrete(ndef.capacity)
    if n > cap:
        return "too-long"
    msg = new_message(sx, n, getattr(world, 'long_trick', False),
                      getattr(world, 'concrete_msg', False))
    if relation == "append" and n >= len(world.old):
        # the new message begins with the stored one (a record appended)
        msg = sx.mkbytes(list(world.old) + list(msg)[len(world.old):], True)
        sx.reach("new_message_appends_to_old")
    elif relation == "truncate" and n <= len(world.old):
        # ... or is a prefix of it
        msg = sx.mkbytes(list(world.old)[:n], True)
        sx.reach("new_message_is_prefix_of_old")
    for l in world.geometry(n):
        sx.reach(l)
    cut = PowerCut(sx, outage=outage)
    world.sim.hook = cut
    try:
        ndef.octets = msg
        world.sim.hook = None
        sx.reach("write_completed_without_cut")
        return "no-cut"
    except nfc.tag.TagCommandError:
        pass
    if cut.cut_at is None:
        sx.check(False, "tag-command-error-without-fault:" + kind)
    sx.reach("outage" if outage else "cut")
    if cut.cut_at == 0:
        sx.reach("cut_before_first_write")
    # tag back in the field
    world.sim.hook = None
    world.sim.gone = False
    phase = "%s:lenfmt=%d->%d" % (kind, lenbytes(world.oldlen), lenbytes(n))
    completed = False
    if retry:
        cut2 = PowerCut(sx, "2")
        world.sim.hook = cut2
        try:
            ndef.octets = msg
            completed = True
            sx.reach("retry_completed")
        except nfc.tag.TagCommandError:
            if cut2.cut_at is None:
                sx.check(False, "retry:tag-command-error-without-fault:" + kind)
            sx.reach("retry_cut")
        world.sim.hook = None
        world.sim.gone = False
        phase = "retry:" + phase
    # fresh reader
    tag2, ndef2 = open_ndef(sx, world, "after-cut")
    if completed:
        if ndef2 is None or not ndef2.is_readable:
            sx.check(False, "completed-retry-leaves-no-readable-ndef:" + kind)
        got = ndef2.octets
        if len(got) != n:
            sx.check(False, "completed-retry-length-differs:" + phase)
        sx.check(sx.eq(got, msg), "completed-retry-content-differs:" + phase)
        return "retry:completed"
    if ndef2 is None:
        sx.reach("after_cut_no_ndef")
        return "cut:none"
    if not ndef2.is_readable:
        sx.reach("after_cut_not_readable")
        return "cut:unreadable"
    got = ndef2.octets
    if len(got) == 0:
        sx.reach("after_cut_empty")
        return "cut:empty"
    ok = []
    if len(got) == len(world.old):
        ok.append(sx.eq(got, world.old))
    if len(got) == n:
        ok.append(sx.eq(got, msg))
    if not ok:
        sx.check(False, "after-cut-length-is-neither-old-nor-new:" + phase)
    sx.check(sx.any(ok), "after-cut-content-is-mixture:" + phase)
    sx.reach("after_cut_old_or_new")
    return "cut:old-or-new"


def lenbytes(n):
    return 1 if n < 255 else 3
