"""NDEF conversations on a World: write/read-back (C01), power cut (C02),
area preservation (C03), transient faults (C16).  The implementation under test
is whatever nfc.tag.activate() returns for the world's target."""
import nfc
import nfc.clf
import nfc.tag
from harness.util import same


def msg_lengths(cap, tier, dense_upto=0):
    """boundary set of message lengths for a layout that can hold cap bytes"""
    s = set([0, 1, 2, cap - 1, cap, cap + 1, 253, 254, 255, 256])
    if dense_upto:
        s.update(range(0, min(cap, dense_upto) + 2))
    return sorted(x for x in s if 0 <= x <= cap + 1)


def new_message(sx, n, long_trick):
    if long_trick:
        return sx.mkbytes([sx.int("msg[%d]" % i, 0x80, 0xFF) for i in range(n)], True)
    return sx.bytes("msg", n, mutable=True)


def open_ndef(sx, world, who):
    tag = world.fresh_tag()
    if tag is None:
        sx.check(False, "%s:activate-returned-none:%s" % (who, world.kind))
    ndef = tag.ndef
    return tag, ndef


def roundtrip(sx, world, n, prop="C01"):
    """one write of a symbolic n-byte message and a fresh read back"""
    kind = world.kind
    tag, ndef = open_ndef(sx, world, "first")
    if ndef is None:
        sx.check(False, "well-formed-layout-not-recognised:" + kind)
    cap = ndef.capacity
    sx.check(cap <= world.cap, "capacity-exceeds-layout:" + kind)
    sx.check(sx.eq(ndef.octets, world.old), "initial-read-differs:" + kind)
    cap = sx.concrete(cap)
    msg = new_message(sx, n, getattr(world, 'long_trick', False))
    before = world.snapshot()
    ncmd = world.sim.ncmd
    for l in world.geometry(n):
        sx.reach(l)
    try:
        ndef.octets = msg
    except ValueError:
        sx.check(n > cap, "fitting-message-rejected:" + kind)
        sx.check(world.sim.ncmd == ncmd, "command-sent-before-oversize-rejection:" + kind)
        sx.reach("oversize_rejected")
        return "rejected"
    sx.check(n <= cap, "oversize-message-accepted:" + kind)
    if n == 0:
        sx.reach("empty_message_written")
    if n >= 255:
        sx.reach("three_byte_length")
    if n == cap:
        sx.reach("message_fills_capacity")
    check_area(sx, world, before, "write")
    tag2, ndef2 = open_ndef(sx, world, "second")
    if ndef2 is None:
        sx.check(False, "ndef-gone-after-write:" + kind)
    sx.check(ndef2.length == n, "length-differs-after-write:" + kind)
    sx.check(sx.eq(ndef2.octets, msg), "octets-differ-after-write:" + kind)
    sx.check(ndef2.capacity == cap, "capacity-changed-by-write:" + kind)
    return "written"


def check_area(sx, world, before, what):
    """C03: after the operation and after every prefix of it, bytes outside
    the NDEF message area keep their values; every write unit intersects the
    area."""
    kind = world.kind
    conds = []
    for addr, old, new in world.sim.writes:
        touched = range(addr, addr + len(new))
        if not any(b in world.area for b in touched):
            sx.check(False, "%s-addresses-unit-outside-ndef-area:%s" % (what, kind))
        for i, b in enumerate(touched):
            if b not in world.area:
                conds.append(sx.eq(new[i], old[i]))
    sx.check(sx.all(conds), "%s-changes-byte-outside-ndef-area:%s" % (what, kind))
    after = world.snapshot()
    conds = [sx.eq(after[b], before[b]) for b in range(len(before))
             if b not in world.area]
    sx.check(sx.all(conds), "%s-final-memory-differs-outside-ndef-area:%s" % (what, kind))
    world.sim.writes = []
