"""C20 - tag authentication and MAC-protected reads cannot be fooled.

Real code executed: nfc.tag.activate, nfc.tag.Tag.authenticate/protect,
nfc.tag.tt2_nxp.NTAG21x (_authenticate, _protect_with_password) incl. the
Ultralight EV1 subclasses, nfc.tag.tt2.Type2Tag.transceive/read/write,
nfc.tag.tt3_sony.FelicaLite / FelicaLiteS (generate_mac, _authenticate,
authenticate, read_with_mac, write_with_mac, _protect), nfc.tag.tt3
read/write_without_encryption and send_cmd_recv_rsp.

Environment: env.tt2nxp_sim.NxpSim (NTAG21x / Ultralight EV1 chip),
env.tt3lite_sim.LiteSim (FeliCa Lite / Lite-S chip with its own MAC
computation), env.idealcipher.IdealCipher in place of pyDes.triple_des.
"""
from harness.util import same
import nfc.clf
import nfc.tag
import nfc.tag.tt2
import nfc.tag.tt3
import nfc.tag.tt2_nxp
import nfc.tag.tt3_sony
from env.tt2nxp_sim import NxpSim, NxpClf, PRODUCTS, target as nxp_target

PROPERTY = "C20"


def iff(sx, a, b):
    return sx.all([sx.implies(a, b), sx.implies(b, a)])


def is_bool(x):
    return type(x) is bool


# ----------------------------------------------------------------------------
# part 1: NTAG21x / Ultralight EV1 (password + acknowledge, no cryptography)
# ----------------------------------------------------------------------------
NXP_FACTORY = b"\xFF\xFF\xFF\xFF\x00\x00"
NXP_CLASS = {"NTAG210": "NTAG210", "NTAG212": "NTAG212", "NTAG213": "NTAG213",
             "NTAG215": "NTAG215", "NTAG216": "NTAG216", "MF0UL11": "MF0UL11",
             "MF0ULH11": "MF0ULH11", "MF0UL21": "MF0UL21",
             "MF0ULH21": "MF0ULH21"}


def nxp_tag(sx, product, nak_as, page3=None):
    pwd = sx.bytes("tag.pwd", 4)
    pack = sx.bytes("tag.pack", 2)
    sim = NxpSim(product, list(pwd), list(pack), nak_as, page3)
    clf = NxpClf(sim)
    tag = nfc.tag.activate(clf, nxp_target())
    if tag is None or type(tag).__name__ != NXP_CLASS[product]:
        sx.check(False, "ntag:activate-wrong-class:" + product)
    return sim, tag


def nxp_key(sx, password):
    """documented key derivation: first 4 bytes PWD, next 2 PACK; the empty
    password selects the factory values FFFFFFFF / 0000"""
    if len(password) == 0:
        return NXP_FACTORY
    return password[0:6]


def nxp_password(sx, name, n):
    return sx.bytes(name, n, mutable=bool(sx.pick(name + ".mutable", [0, 1])))


def ntag_authenticate(sx, product, plen, nak_as):
    """fresh tag with arbitrary PWD/PACK; authenticate(p) for an arbitrary
    password of the given length"""
    sim, tag = nxp_tag(sx, product, nak_as)
    stored = sx.mkbytes(sim.pwd() + sim.pack(), False)
    p = nxp_password(sx, "p", plen)
    try:
        r = tag.authenticate(p)
    except ValueError:
        # documented for a password of 1..5 bytes
        sx.check(0 < plen < 6, "ntag:authenticate-ValueError-for-valid-length")
        sx.reach("ntag:short-password-rejected")
        sx.check(sim.log.count(("pwd_auth", None)) == 0,
                 "ntag:short-password-still-sent")
        return "ValueError"
    sx.check(plen == 0 or plen >= 6, "ntag:authenticate-accepts-short-password")
    if not is_bool(r):
        sx.check(False, "ntag:authenticate-returns-non-bool")
    holds = sx.eq(stored, nxp_key(sx, p))
    sx.check(sx.implies(r, holds), "ntag:authenticate-true-with-other-key")
    sx.check(sx.implies(holds, r), "ntag:authenticate-false-with-tag-key")
    sx.check(sx.eq(tag.is_authenticated, r), "ntag:is_authenticated-differs")
    if sx.truth(r):
        sx.reach("ntag:authenticated")
    else:
        sx.reach("ntag:refused")
    return [product, plen, r]


HISTORY_KEYS = [b"\x11\x22\x33\x44\x55\x66", b"ABCDEF"]


def ntag_history(sx, product, calls, nak_as, concrete=False):
    """several authenticate() calls through ONE tag object; between the calls
    the key on the tag may be replaced (by another reader, or a raw write of
    the configuration pages).  Every result must reflect the key the tag
    holds at the time of that call - nothing remembered from earlier calls
    may answer in the tag's place.  concrete: passwords and tag keys from a
    set of two concrete values (an implementation may use a password as a
    dictionary key or set member, which symbolic octets cannot be)"""
    sim, tag = nxp_tag(sx, product, nak_as)
    if concrete:
        k0 = list(HISTORY_KEYS[sx.pick("k0", [0, 1])])
        sim.pages[sim.cfg + 2] = k0[0:4]
        sim.pages[sim.cfg + 3] = k0[4:6] + [0, 0]
        sx.reach("ntag:history-with-concrete-keys")
    prev = None
    out = []
    for i in range(calls):
        if i > 0 and sx.pick("rekey%d" % i, [1, 0]):
            if concrete:
                new = list(HISTORY_KEYS[sx.pick("k%d" % i, [0, 1])])
            else:
                new = list(sx.bytes("tag.pwd%d" % i, 4)) + list(sx.bytes("tag.pack%d" % i, 2))
            sim.pages[sim.cfg + 2] = new[0:4]
            sim.pages[sim.cfg + 3] = new[4:6] + [0, 0]
            sx.reach("ntag:key-replaced-between-calls")
        if i > 0 and i == calls - 1 and sx.pick("gone%d" % i, [0, 1]):
            # the tag leaves the field before the last call: the documented
            # False (or a TagCommandError), nothing else
            sim.gone = True
            sx.reach("ntag:tag-gone-before-last-call")
            for again in (0, 1):
                # (twice: the first call notices that the tag is gone, the
                # second runs on a tag object that knows it)
                try:
                    r = tag.authenticate(prev)
                except nfc.tag.TagCommandError:
                    r = "TagCommandError"
                sx.check(r is False or r == "TagCommandError",
                         "ntag:history:authenticate-on-a-tag-that-left-the-field:call%d+%d" % (i, again))
                out.append(r)
            break
        if prev is not None and sx.pick("again%d" % i, [1, 0]):
            p = prev
            sx.reach("ntag:same-password-again")
        elif concrete:
            p = HISTORY_KEYS[sx.pick("p%d" % i, [0, 1])]
            if sx.pick("p%d.mutable" % i, [0, 1]):
                p = bytearray(p)
        else:
            p = nxp_password(sx, "p%d" % i, 6)
        prev = p
        stored = sx.mkbytes(sim.pwd() + sim.pack(), False)
        n_before = sim.log.count(("pwd_auth", None))
        r = tag.authenticate(p)
        if not is_bool(r):
            sx.check(False, "ntag:authenticate-returns-non-bool")
        holds = sx.eq(stored, nxp_key(sx, p))
        sx.check(sx.implies(r, holds), "ntag:history:authenticate-true-with-other-key:call%d" % i)
        sx.check(sx.implies(holds, r), "ntag:history:authenticate-false-with-tag-key:call%d" % i)
        sx.check(sx.eq(tag.is_authenticated, r), "ntag:history:is_authenticated-differs:call%d" % i)
        out.append(r)
    return [product, out]


def ntag_protect(sx, product, plen, qlen, nak_as, read_protect, protect_from):
    """protect(p) on a tag with arbitrary old PWD/PACK, then authenticate(q)"""
    page3 = sx.bytes("tag.cc", 4)
    sim, tag = nxp_tag(sx, product, nak_as, list(page3))
    cfg0 = list(sim.pages[sim.cfg])
    sim.pages[sim.cfg + 1] = list(sx.bytes("tag.cfg1", 4))
    cfg1 = list(sim.pages[sim.cfg + 1])
    p = nxp_password(sx, "p", plen)
    try:
        r = tag.protect(p, read_protect=bool(read_protect),
                        protect_from=protect_from)
    except ValueError:
        sx.check(0 < plen < 6, "ntag:protect-ValueError-for-valid-length")
        sx.reach("ntag:protect-short-password-rejected")
        sx.check(sim.log.count(("write", sim.cfg + 2)) == 0,
                 "ntag:short-password-still-written")
        return "ValueError"
    sx.check(plen == 0 or plen >= 6, "ntag:protect-accepts-short-password")
    key = nxp_key(sx, p)
    stored = sx.mkbytes(sim.pwd() + sim.pack(), False)
    if not is_bool(r):
        sx.check(False, "ntag:protect-returns-non-bool")
    sx.check(sx.eq(r, True), "ntag:protect-then-authenticate-same-password-fails")
    sx.check(sx.eq(stored, key), "ntag:protect-stores-other-key")
    sx.check(sx.eq(tag.is_authenticated, True),
             "ntag:not-authenticated-after-protect")
    # documented side conditions of protect()
    auth0 = max(3, min(protect_from, 255))
    now0, now1 = sim.pages[sim.cfg], sim.pages[sim.cfg + 1]
    sx.check(sx.eq(now0[3], auth0), "ntag:protect-from-page-not-stored")
    sx.check(sx.eq(now1[0] >> 7, 1 if read_protect else 0),
             "ntag:read-protect-bit-not-stored")
    sx.check(sx.all([sx.eq(now0[i], cfg0[i]) for i in range(3)] +
                    [sx.eq(now1[0] & 0x7F, cfg1[0] & 0x7F)] +
                    [sx.eq(now1[i], cfg1[i]) for i in range(1, 4)]),
             "ntag:protect-changes-unrelated-configuration")
    sx.reach("ntag:protected")
    # a second password: accepted exactly when it equals p on the first six
    # bytes (or both select the factory key)
    q = nxp_password(sx, "q", qlen)
    r2 = tag.authenticate(q)
    if not is_bool(r2):
        sx.check(False, "ntag:authenticate-returns-non-bool")
    same_key = sx.eq(nxp_key(sx, q), key)
    sx.check(sx.implies(r2, same_key), "ntag:other-password-accepted-after-protect")
    sx.check(sx.implies(same_key, r2), "ntag:same-password-refused-after-protect")
    if sx.truth(r2):
        sx.reach("ntag:second-accepted")
    else:
        sx.reach("ntag:second-refused")
    return [product, r, r2]


def ntag_tamper(sx, product, plen, tlen, nak_as):
    """the PACK answer is replaced in transit by arbitrary bytes"""
    sim, tag = nxp_tag(sx, product, nak_as)
    p = nxp_password(sx, "p", plen)
    key = nxp_key(sx, p)
    seen = sx.bytes("air.pack", tlen, mutable=True)
    sent = []

    def tamper(cmd, rsp):
        if cmd[0] == 0x1B:
            sent.append(rsp)
            return seen
        return rsp
    sim.tamper = tamper
    r = tag.authenticate(p)
    if not is_bool(r):
        sx.check(False, "ntag:authenticate-returns-non-bool")
    stored = sx.mkbytes(sim.pwd() + sim.pack(), False)
    holds = sx.eq(stored, key)
    if sent:
        sx.reach("ntag:pack-answer-replaced")
        modified = sx.neg(same(sx, seen, sent[0]))
        sx.check(sx.implies(sx.all([holds, modified]), sx.neg(r)),
                 "ntag:modified-pack-accepted")
        # the reader can only go by what it receives
        sx.check(iff(sx, r, same(sx, seen, key[4:6])),
                 "ntag:result-differs-from-received-pack-comparison")
    else:
        sx.check(sx.neg(r), "ntag:authenticated-without-pack-answer")
        sx.check(sx.neg(holds), "ntag:tag-with-key-did-not-answer")
    return [product, r]


# ----------------------------------------------------------------------------
# part 2: FeliCa Lite / Lite-S over the ideal cipher
# ----------------------------------------------------------------------------
from env.idealcipher import IdealCipher
from env.tt3lite_sim import LiteSim, LiteClf, Replayer, target as lite_target

Type3TagCommandError = nfc.tag.tt3.Type3TagCommandError


class FakeOS(object):
    """module attribute `os` of nfc.tag.tt3_sony: urandom() yields the
    symbolic random challenge"""

    def __init__(self, sx):
        self.sx = sx
        self.n = 0
        self.out = []

    def urandom(self, n):
        self.n += 1
        r = self.sx.bytes("rc%d" % self.n, n)
        for prev in self.out:
            if len(prev) == n:
                self.sx.assume(self.sx.neg(self.sx.eq(r, prev)),
                               "a fresh random challenge differs from the "
                               "previous ones (probability 2^-128 otherwise)")
        self.out.append(r)
        return r


def ck_block(key):
    """the CK block of a tag provisioned with the 16-byte key: each key half
    stored as a little endian number"""
    return [key[7 - i] for i in range(8)] + [key[15 - i] for i in range(8)]


def lite_key(sx, password):
    if len(password) == 0:
        return bytes(16)
    return password[0:16]


def lite_tag(sx, lite_s, ck, blocks=None, mc=None, wcnt=None):
    cipher = IdealCipher(sx)
    nfc.tag.tt3_sony.triple_des = cipher.factory()
    nfc.tag.tt3_sony.os = FakeOS(sx)
    if wcnt is None:
        wcnt = sx.int("tag.wcnt", 0, 0xFFFFFE) if lite_s else 0
    sim = LiteSim(cipher, lite_s, ck, blocks, mc, wcnt)
    tag = nfc.tag.activate(LiteClf(sim), lite_target(lite_s))
    want = "FelicaLiteS" if lite_s else "FelicaLite"
    if tag is None or type(tag).__name__ != want:
        sx.check(False, "lite:activate-wrong-class:" + want)
    return sim, tag


def lite_password(sx, name, n):
    return sx.bytes(name, n, mutable=bool(sx.pick(name + ".mutable", [0, 1])))


def lite_authenticate(sx, lite_s, plen):
    """tag with arbitrary card key and ID block; authenticate(p)"""
    pfx = "lites" if lite_s else "lite"
    ck = list(sx.bytes("tag.ck", 16))
    sim, tag = lite_tag(sx, lite_s, ck, {0x82: list(sx.bytes("tag.id", 16))})
    p = lite_password(sx, "p", plen)
    try:
        r = tag.authenticate(p)
    except ValueError:
        sx.check(0 < plen < 16, pfx + ":authenticate-ValueError-for-valid-length")
        sx.reach(pfx + ":short-password-rejected")
        return "ValueError"
    sx.check(plen == 0 or plen >= 16, pfx + ":authenticate-accepts-short-password")
    if not is_bool(r):
        sx.check(False, pfx + ":authenticate-returns-non-bool")
    holds = sx.eq(sx.mkbytes(ck, False),
                  sx.mkbytes(ck_block(lite_key(sx, p)), False))
    sx.check(sx.implies(r, holds), pfx + ":authenticate-true-with-other-key")
    sx.check(sx.implies(holds, r), pfx + ":authenticate-false-with-tag-key")
    sx.check(sx.eq(tag.is_authenticated, r), pfx + ":is_authenticated-differs")
    if lite_s:
        # mutual authentication: the tag must have accepted the reader too
        sx.check(sx.eq(sim.ext_auth == 1, r),
                 pfx + ":result-differs-from-tag-external-authentication-state")
    if sx.truth(r):
        sx.reach(pfx + ":authenticated")
    else:
        sx.reach(pfx + ":refused")
    return [lite_s, plen, r]


def halves_of(items):
    return [items[i:i + 8] for i in range(0, len(items), 8)]


def lite_read(sx, lite_s, blocks, mode):
    """authenticate with the tag's key, then read_with_mac(*blocks) while
    the response is replaced in transit"""
    pfx = "lites" if lite_s else "lite"
    p = sx.bytes("p", 16)
    content = {}
    for b in sorted(set(blocks)):
        if b < 0x0F or b == 0x82:
            content[b] = list(sx.bytes("tag.blk%02x" % b, 16))
    sim, tag = lite_tag(sx, lite_s, ck_block(p), content)
    if not sx.truth(sx.eq(tag.authenticate(p), True)):
        sx.check(False, pfx + ":authenticate-false-with-tag-key")
    n = len(blocks)
    state = {}

    def tamper(sim, cmd, rsp):
        if state:
            return rsp
        state['sent'] = rsp
        if mode == "none":
            seen = rsp
        elif mode == "payload":
            seen = sx.mkbytes(list(rsp[0:13]) +
                              list(sx.bytes("air", 16 * (n + 1))))
        elif mode == "header":
            # one byte of length / response code / IDm / status flags /
            # block count replaced; the first status flag from boundary
            # values (it becomes an errno, i.e. a dictionary key)
            pos = sx.pick("air.pos", list(range(13)))
            v = sx.byte("air.hdr")
            if pos == 10:
                sx.assume(sx.any([v == 0, v == 1, v == 2, v == 0xFF]),
                          "substituted status flag 1 from {00,01,02,FF}")
            seen = sx.mkbytes(list(rsp[0:pos]) + [v] + list(rsp[pos + 1:]))
        elif mode == "short":
            seen = sx.mkbytes([len(rsp) - 1] + list(rsp[1:len(rsp) - 1]))
        elif mode == "long":
            seen = sx.mkbytes([len(rsp) + 1] + list(rsp[1:]) + [sx.byte("air.extra")])
        state['seen'] = seen
        return seen
    sim.tamper = tamper
    try:
        got = tag.read_with_mac(*blocks)
    except Type3TagCommandError as e:
        # documented outcome for a response that is not a well-formed,
        # successful answer of this tag; never for the untouched response
        sx.check(mode not in ("none", "payload"),
                 pfx + ":read_with_mac-TagCommandError-for-wellformed-response")
        sx.reach(pfx + ":malformed-response-refused")
        return "TagCommandError"
    sent, seen = list(state['sent']), list(state['seen'])
    if mode in ("short", "long"):
        sx.check(False, pfx + ":response-with-wrong-length-processed")
    sent_data, sent_mac = sent[13:13 + 16 * n], sent[13 + 16 * n:21 + 16 * n]
    seen_data, seen_mac = seen[13:13 + 16 * n], seen[13 + 16 * n:21 + 16 * n]
    # what the tag sent is what the simulator holds
    truth = []
    for b in blocks:
        truth += content[b] if b in content else \
            ([sim.ext_auth] + [0] * 15 if b == 0x92 else [0] * 16)
    if got is None:
        sx.reach(pfx + ":read-refused")
    else:
        sx.reach(pfx + ":read-returned")
        sx.check(same(sx, got, sx.mkbytes(seen_data)),
                 pfx + ":returned-data-differs-from-received-data")
    # "returned only if its MAC verifies under the session key": the tag
    # model's own MAC over the data as received
    good = sim.mac([seen_data[i:i + 16] for i in range(0, 16 * n, 16)])
    verifies = sx.eq(sx.mkbytes(seen_mac), sx.mkbytes(good))
    sx.check(sx.implies(got is not None, verifies),
             pfx + ":data-returned-although-mac-does-not-verify")
    sx.check(sx.implies(verifies, got is not None),
             pfx + ":data-refused-although-mac-verifies")
    # "any modification of the data or MAC in transit is detected"
    data_same = sx.eq(sx.mkbytes(seen_data), sx.mkbytes(sent_data))
    mac_same = sx.eq(sx.mkbytes(seen_mac), sx.mkbytes(sent_mac))
    if mode == "none":
        sx.check(got is not None, pfx + ":untouched-response-refused")
        sx.check(same(sx, got, sx.mkbytes(truth)),
                 pfx + ":returned-data-differs-from-tag-memory")
    sx.check(sx.implies(sx.all([data_same, sx.neg(mac_same)]), got is None),
             pfx + ":modified-mac-accepted")
    hs, hr = halves_of(sent_data), halves_of(seen_data)
    # exactly one 8-byte half of the data modified (any of its bits),
    # everything else and the MAC untouched.  (Substitutions of several
    # halves that are computed from intermediate cipher values collide by
    # construction of a CBC-MAC; they are covered by the two "verifies"
    # obligations above, not by this one.)
    diff = [sx.neg(sx.eq(sx.mkbytes(hr[j]), sx.mkbytes(hs[j])))
            for j in range(len(hs))]
    one = sx.any([sx.all([diff[j]] + [sx.neg(diff[k]) for k in range(len(hs))
                                      if k != j]) for j in range(len(hs))])
    sx.check(sx.implies(sx.all([mac_same, one]), got is None),
             pfx + ":modified-data-with-original-mac-accepted")
    return [lite_s, mode, got is not None]


def lite_auth_tamper(sx, lite_s, which):
    """the tag holds the key of p; the payload of the which-th response
    during authenticate(p) is replaced in transit by arbitrary bytes
    (Lite: 2 = ID+MAC read; Lite-S also 3 = WCNT read, 5 = STATE+MAC read)"""
    pfx = "lites" if lite_s else "lite"
    p = sx.bytes("p", 16)
    sim, tag = lite_tag(sx, lite_s, ck_block(p),
                        {0x82: list(sx.bytes("tag.id", 16))})
    state = {'n': 0}

    def tamper(sim, cmd, rsp):
        state['n'] += 1
        if state['n'] != which:
            return rsp
        state['sent'] = rsp
        state['seen'] = sx.mkbytes(list(rsp[0:13]) +
                                   list(sx.bytes("air", len(rsp) - 13)))
        return state['seen']
    sim.tamper = tamper
    try:
        r = tag.authenticate(p)
    except Type3TagCommandError:
        # only the tag refusing the write with MAC can end here: the reader
        # used a substituted write counter
        sx.check(lite_s and which == 3 and
                 sim.log.count(("mac_a_refused", [0x92])) == 1,
                 pfx + ":authenticate-TagCommandError-without-tag-error")
        sx.reach(pfx + ":tampered-wcnt-refused-by-tag")
        return "TagCommandError"
    if not is_bool(r):
        sx.check(False, pfx + ":authenticate-returns-non-bool")
    if 'seen' not in state:
        sx.check(False, pfx + ":authenticate-ended-before-response-%d" % which)
    sent, seen = list(state['sent'])[13:], list(state['seen'])[13:]
    untouched = sx.eq(sx.mkbytes(seen), sx.mkbytes(sent))
    sx.check(sx.implies(untouched, r), pfx + ":authenticate-false-with-tag-key")
    sx.check(sx.eq(tag.is_authenticated, r), pfx + ":is_authenticated-differs")
    if lite_s:
        sx.check(sx.implies(r, sim.ext_auth == 1),
                 pfx + ":true-although-tag-did-not-accept-the-reader")
    if which in (2, 5):
        data, mac = seen[0:16], seen[16:24]
        verifies = sx.eq(sx.mkbytes(mac), sx.mkbytes(sim.mac([data])))
        sx.check(sx.implies(r, verifies),
                 pfx + ":authenticate-true-although-mac-does-not-verify")
        if which == 2:
            sx.check(sx.implies(verifies, r),
                     pfx + ":authenticate-false-although-mac-verifies")
        else:
            sx.check(sx.implies(r, data[0] == 1),
                     pfx + ":true-although-state-says-not-authenticated")
        data_same = sx.eq(sx.mkbytes(data), sx.mkbytes(sent[0:16]))
        mac_same = sx.eq(sx.mkbytes(mac), sx.mkbytes(sent[16:24]))
        sx.check(sx.implies(sx.all([data_same, sx.neg(mac_same)]), sx.neg(r)),
                 pfx + ":authenticate-accepts-modified-mac")
        d = [sx.neg(sx.eq(sx.mkbytes(data[i:i + 8]), sx.mkbytes(sent[i:i + 8])))
             for i in (0, 8)]
        one = sx.any([sx.all([d[0], sx.neg(d[1])]), sx.all([d[1], sx.neg(d[0])])])
        sx.check(sx.implies(sx.all([mac_same, one]), sx.neg(r)),
                 pfx + ":authenticate-accepts-modified-data-with-original-mac")
    if sx.truth(r):
        sx.reach(pfx + ":tampered-authenticated")
    else:
        sx.reach(pfx + ":tampered-refused")
    return [lite_s, which, r]


def lite_ndef_tamper(sx, lite_s):
    """after authentication NDEF data is read with MAC; the MAC of the
    attribute block read is replaced in transit.  A read whose MAC does not
    verify must not be used: tag.ndef is None (or a TagCommandError), never a
    crash and never an NDEF object."""
    pfx = "lites" if lite_s else "lite"
    p = sx.bytes("p", 16)
    sim, tag = lite_tag(sx, lite_s, ck_block(p))
    if not sx.truth(sx.eq(tag.authenticate(p), True)):
        sx.check(False, pfx + ":authenticate-false-with-tag-key")
    state = {}

    def tamper(sim, cmd, rsp):
        if cmd[1] != 0x06 or 'sent' in state:
            return rsp
        state['sent'] = rsp
        n = len(rsp)
        state['seen'] = sx.mkbytes(list(rsp[0:n - 16]) + list(sx.bytes("air.mac", 8)) +
                                   list(rsp[n - 8:]))
        return state['seen']
    sim.tamper = tamper
    try:
        ndef = tag.ndef
    except Type3TagCommandError:
        sx.check(False, pfx + ":ndef-read-TagCommandError")
    if 'sent' not in state:
        sx.check(False, pfx + ":ndef-not-read")
    n = len(state['sent'])
    modified = sx.neg(sx.eq(sx.mkbytes(list(state['seen'])[n - 16:n - 8]),
                            sx.mkbytes(list(state['sent'])[n - 16:n - 8])))
    sx.check(sx.implies(modified, ndef is None),
             pfx + ":ndef-from-read-with-wrong-mac")
    sx.reach(pfx + ":ndef-read-with-mac")
    return [lite_s, ndef is None]


def lites_write(sx, block, tamper_wcnt):
    """Lite-S: after mutual authentication write_with_mac(data, block); the
    tag model verifies MAC_A and the write counter on its own.  With
    tamper_wcnt the write counter read by the reader is replaced in transit."""
    p = sx.bytes("p", 16)
    sim, tag = lite_tag(sx, 1, ck_block(p), {block: list(sx.bytes("tag.old", 16))})
    if not sx.truth(sx.eq(tag.authenticate(p), True)):
        sx.check(False, "lites:authenticate-false-with-tag-key")
    wcnt0 = sim.wcnt
    data = sx.bytes("data", 16, mutable=bool(sx.pick("data.mutable", [0, 1])))
    state = {}
    if tamper_wcnt:
        def tamper(sim, cmd, rsp):
            if 'seen' in state or cmd[1] != 0x06:
                return rsp
            state['seen'] = sx.mkbytes(list(rsp[0:13]) + list(sx.bytes("air.wcnt", 3)) +
                                       list(rsp[16:]))
            return state['seen']
        sim.tamper = tamper
    nrefused = sim.log.count(("mac_a_refused", [block]))
    try:
        tag.write_with_mac(data, block)
    except Type3TagCommandError:
        sx.check(sim.log.count(("mac_a_refused", [block])) == nrefused + 1,
                 "lites:write_with_mac-TagCommandError-without-tag-error")
        sx.check(tamper_wcnt, "lites:write_with_mac-refused-by-tag")
        sx.check(sx.eq(sim.wcnt, wcnt0), "lites:write-counter-moved-on-refused-write")
        sx.reach("lites:write-refused")
        return "TagCommandError"
    sx.check(sim.log.count(("mac_a_refused", [block])) == nrefused,
             "lites:write_with_mac-silent-although-tag-refused")
    sx.check(same(sx, sx.mkbytes(sim.blk[block]), data),
             "lites:write_with_mac-stored-other-data")
    sx.check(sx.eq(sim.wcnt, wcnt0 + 1), "lites:write-counter-not-incremented")
    sx.reach("lites:written")
    return "written"


def rc_written(cmd):
    """the 16 data bytes of a Write Without Encryption to block 80h, or None"""
    if len(cmd) == 32 and cmd[1] == 0x08 and cmd[13] == 1 and cmd[15] == 0x80:
        return list(cmd[16:32])
    return None


def fresh_challenge(sx, pfx, fos, commands, k):
    """the k-th authenticate() on a tag object consumed the k-th output of
    os.urandom and wrote exactly that as RC (each half little endian)"""
    sx.check(fos.n == k, pfx + ":authenticate-without-fresh-challenge")
    written = [w for w in [rc_written(c) for c in commands] if w is not None]
    if not written:
        sx.check(False, pfx + ":authenticate-without-writing-RC")
    sx.check(sx.eq(sx.mkbytes(written[-1], False),
                   sx.mkbytes(ck_block(fos.out[k - 1]), False)),
             pfx + ":RC-written-is-not-the-fresh-challenge")


def lite_replay(sx, lite_s, read_block):
    """history on ONE tag object: (1) authenticate(p) (and read_with_mac)
    against the genuine tag holding the key of p, everything on the air is
    recorded; (2) the tag is exchanged for a counterfeit that holds no key
    and replays the recorded responses: authenticate(p) must be False and
    no replayed data may be returned as authentic."""
    pfx = "lites" if lite_s else "lite"
    p = sx.bytes("p", 16)
    content = {0x82: list(sx.bytes("tag.id", 16))}
    if read_block is not None:
        content[read_block] = list(sx.bytes("tag.blk", 16))
    sim, tag = lite_tag(sx, lite_s, ck_block(p), content)
    fos = nfc.tag.tt3_sony.os
    if not sx.truth(sx.eq(tag.authenticate(p), True)):
        sx.check(False, pfx + ":authenticate-false-with-tag-key")
    fresh_challenge(sx, pfx, fos, [c for c, r in sim.history], 1)
    if read_block is not None:
        d1 = tag.read_with_mac(read_block)
        if d1 is None:
            sx.check(False, pfx + ":untouched-response-refused")
    fake = Replayer(sim.history)
    tag.clf.sim = fake
    try:
        r2 = tag.authenticate(p)
    except Type3TagCommandError:
        r2 = False          # the counterfeit fell silent
    if not is_bool(r2):
        sx.check(False, pfx + ":authenticate-returns-non-bool")
    sx.check(sx.neg(r2), pfx + ":replayed-authentication-accepted")
    sx.check(sx.eq(tag.is_authenticated, False),
             pfx + ":is_authenticated-after-replayed-authentication")
    fresh_challenge(sx, pfx, fos, fake.seen, 2)
    sx.reach(pfx + ":replay-refused")
    return [lite_s, r2]


def lite_forged_after_failed(sx, lite_s, prior_good, blocks):
    """two-step history: [authenticate(p) with the tag's password,]
    authenticate(q) with another password fails; then an adversary who knows
    q and saw the clear-text challenge answers read_with_mac(blocks) with
    arbitrary data and a MAC under the session key derived from q and that
    challenge (modelled as a counterfeit tag holding the key of q that was
    given the same RC block).  The data must not be returned: the reader has
    no session (RuntimeError) or still verifies under the last good one."""
    pfx = "lites" if lite_s else "lite"
    p = sx.bytes("p", 16)
    sim, tag = lite_tag(sx, lite_s, ck_block(p), {0x82: list(sx.bytes("tag.id", 16))})
    if prior_good:
        if not sx.truth(sx.eq(tag.authenticate(p), True)):
            sx.check(False, pfx + ":authenticate-false-with-tag-key")
    q = sx.bytes("q", 16)
    r = tag.authenticate(q)
    if not is_bool(r):
        sx.check(False, pfx + ":authenticate-returns-non-bool")
    if sx.truth(r):
        # q is the tag's password after all: nothing to forge
        sx.check(sx.eq(q, p), pfx + ":authenticate-true-with-other-key")
        return "same-key"
    sx.check(sx.eq(tag.is_authenticated, False), pfx + ":is_authenticated-differs")
    forged = dict((b, list(sx.bytes("forged%02x" % b, 16))) for b in sorted(set(blocks)))
    adversary = LiteSim(sim.cipher, lite_s, ck_block(q), forged)
    adversary.rc = list(sim.rc)         # the challenge went over the air in clear
    adversary.max_blocks = 15
    tag.clf.sim = adversary
    try:
        got = tag.read_with_mac(*blocks)
    except RuntimeError:
        sx.check(not prior_good, pfx + ":RuntimeError-although-a-session-exists")
        sx.reach(pfx + ":no-session-after-failed-authentication")
        return "RuntimeError"
    except Type3TagCommandError:
        got = None
    sx.check(got is None, pfx + ":data-returned-under-key-of-failed-authentication")
    sx.reach(pfx + ":forged-read-refused")
    return [lite_s, prior_good, got is None]


def lite_read_multi(sx, lite_s, blocks, lenient):
    """read_with_mac of 1..6 blocks; the tag serves up to 4 blocks per
    command incl. the MAC block (lenient: up to 15).  However many commands
    the reader sends, one 16-byte block (data or MAC) of ONE of the responses
    is replaced in transit by arbitrary bytes (lazily chosen response and
    block; or none).  Data is returned only if every response it was taken
    from carries a MAC that verifies over that response's data."""
    pfx = "lites" if lite_s else "lite"
    p = sx.bytes("p", 16)
    content = dict((b, list(sx.bytes("tag.blk%02x" % b, 16))) for b in sorted(set(blocks)))
    sim, tag = lite_tag(sx, lite_s, ck_block(p), content)
    if lenient:
        sim.max_blocks = 15
    if not sx.truth(sx.eq(tag.authenticate(p), True)):
        sx.check(False, pfx + ":authenticate-false-with-tag-key")
    state = dict(k=0, done=False, pairs=[])

    def tamper(sim, cmd, rsp):
        k = state['k']
        state['k'] += 1
        seen = rsp
        ok = len(rsp) >= 13 + 32 and (len(rsp) - 13) % 16 == 0 and rsp[10] == 0
        if ok and not state['done'] and \
                sx.truth(sx.flag("air.tamper_response_%d" % k)):
            state['done'] = True
            nblk = (len(rsp) - 13) // 16
            j = sx.pick("air.block", list(range(nblk)))
            state['where'] = "mac" if j == nblk - 1 else "data"
            pos = 13 + 16 * j
            seen = sx.mkbytes(list(rsp[0:pos]) + list(sx.bytes("air", 16)) +
                              list(rsp[pos + 16:]))
        if ok:
            state['pairs'].append((list(rsp), list(seen)))
        return seen
    sim.tamper = tamper
    try:
        got = tag.read_with_mac(*blocks)
    except Type3TagCommandError:
        # the real tag refuses more than four blocks in one command
        sx.check(not lenient and sim.history[-1][1][10] != 0,
                 pfx + ":read_with_mac-TagCommandError-without-tag-error")
        sx.reach(pfx + ":too-many-blocks-refused-by-tag")
        return "TagCommandError"
    if not state['pairs']:
        sx.check(False, pfx + ":read_with_mac-without-reading")
    truth = []
    for b in blocks:
        truth += content[b]
    seen_all, checks = [], []
    untouched = True
    for sent, seen in state['pairs']:
        n = (len(seen) - 13) // 16 - 1
        data, mac = seen[13:13 + 16 * n], seen[13 + 16 * n:21 + 16 * n]
        seen_all += data
        good = sim.mac([data[i:i + 16] for i in range(0, 16 * n, 16)])
        checks.append(sx.eq(sx.mkbytes(mac), sx.mkbytes(good)))
        untouched = sx.all([untouched, sx.eq(sx.mkbytes(seen[13:]), sx.mkbytes(sent[13:]))])
    verifies = sx.all(checks)
    if got is None:
        sx.reach(pfx + ":multi-read-refused")
    else:
        sx.reach(pfx + ":multi-read-returned")
        sx.check(same(sx, got, sx.mkbytes(seen_all)),
                 pfx + ":returned-data-differs-from-received-data")
    sx.check(sx.implies(got is not None, verifies),
             pfx + ":data-returned-although-mac-does-not-verify")
    sx.check(sx.implies(verifies, got is not None),
             pfx + ":data-refused-although-mac-verifies")
    sx.check(sx.implies(untouched, got is not None), pfx + ":untouched-response-refused")
    if got is not None:
        sx.check(sx.implies(untouched, same(sx, got, sx.mkbytes(truth))),
                 pfx + ":returned-data-differs-from-tag-memory")
    if state['done'] and state['where'] == "mac":
        # (the eight padding octets behind the MAC are not protected)
        mac_modified = sx.any([
            sx.neg(sx.eq(sx.mkbytes(seen[len(seen) - 16:len(seen) - 8]),
                         sx.mkbytes(sent[len(sent) - 16:len(sent) - 8])))
            for sent, seen in state['pairs']])
        sx.check(sx.implies(mac_modified, got is None), pfx + ":modified-mac-accepted")
    if state['done'] and state['where'] == "data":
        # one data block replaced, MACs untouched: one or two 8-byte halves
        # changed; the general statement is the "verifies" pair above
        sx.reach(pfx + ":multi-read-data-block-replaced")
    return [lite_s, len(blocks), len(state['pairs']), got is not None]


def lite_protect(sx, lite_s, plen, qlen, protect_from, pwtype):
    """protect(p) on a factory tag, then authenticate(q)"""
    pfx = "lites" if lite_s else "lite"
    ck = list(sx.bytes("tag.ck", 16))
    sim, tag = lite_tag(sx, lite_s, ck)
    if pwtype == "str":
        p = "0123456789abcdefXYZ"[:plen]
        pkey = p.encode("ascii")
    else:
        p = sx.bytes("p", plen, mutable=(pwtype == "bytearray"))
        pkey = p
    try:
        r = tag.protect(p, protect_from=protect_from)
    except ValueError:
        sx.check(0 < plen < 16, pfx + ":protect-ValueError-for-valid-length")
        sx.reach(pfx + ":protect-short-password-rejected")
        sx.check(sim.log.count(("write", [0x87])) == 0,
                 pfx + ":short-password-still-written")
        return "ValueError"
    sx.check(plen == 0 or plen >= 16, pfx + ":protect-accepts-short-password")
    key = lite_key(sx, pkey)
    sx.check(sx.eq(r, True), pfx + ":protect-fails-on-factory-tag")
    sx.check(sx.eq(sx.mkbytes(sim.ck, False), sx.mkbytes(ck_block(key), False)),
             pfx + ":protect-stores-other-key")
    sx.reach(pfx + ":protected")
    if lite_s:
        sx.check(sx.eq(tag.is_authenticated, True),
                 pfx + ":not-authenticated-after-protect")
    # the round trip of the base class contract: "the password must be the
    # same as the password provided to protect()" (the str password that
    # only FelicaLiteS.protect accepts is given as its ASCII bytes)
    # FelicaLiteS.protect() authenticates by itself (three mutual
    # authentications in one run are too many cipher calls); there the
    # second password q below covers "same first 16 bytes => accepted"
    if not lite_s:
        r1 = tag.authenticate(pkey)
        if not is_bool(r1):
            sx.check(False, pfx + ":authenticate-returns-non-bool")
        sx.check(sx.eq(r1, True),
                 pfx + ":protect-then-authenticate-same-password-fails")
    q = lite_password(sx, "q", qlen)
    r2 = tag.authenticate(q)
    if not is_bool(r2):
        sx.check(False, pfx + ":authenticate-returns-non-bool")
    same_key = sx.eq(lite_key(sx, q), key)
    sx.check(sx.implies(r2, same_key), pfx + ":other-password-accepted-after-protect")
    sx.check(sx.implies(same_key, r2), pfx + ":same-password-refused-after-protect")
    if sx.truth(r2):
        sx.reach(pfx + ":second-accepted")
    else:
        sx.reach(pfx + ":second-refused")
    return [lite_s, r, r2]


# ----------------------------------------------------------------------------
def partitions(tier):
    parts = []
    quick = tier == "quick"
    prods = sorted(PRODUCTS)
    # authenticate on every product; password lengths incl. the invalid ones
    lens = [0, 3, 6, 9] if quick else [0, 1, 5, 6, 7, 16]
    for prod in prods:
        for plen in lens:
            for nak in ("timeout", "byte"):
                parts.append(dict(
                    name="ntag-auth:%s:%d:%s" % (prod, plen, nak),
                    fn="ntag_authenticate",
                    params=dict(product=prod, plen=plen, nak_as=nak)))
    for prod in prods:
        for plen, qlen in ([(0, 6), (6, 0), (6, 6), (8, 7), (3, 6)] if quick else
                           [(0, 0), (0, 6), (6, 0), (6, 6), (8, 7), (7, 16),
                            (1, 6), (5, 6)]):
            for rp, pf in ([(0, 0), (1, 4), (0, 300)] if quick else
                           [(0, 0), (1, 0), (0, 3), (1, 4), (0, 255), (1, 300)]):
                parts.append(dict(
                    name="ntag-protect:%s:%d:%d:%d:%d" % (prod, plen, qlen, rp, pf),
                    fn="ntag_protect",
                    params=dict(product=prod, plen=plen, qlen=qlen,
                                nak_as="timeout", read_protect=rp,
                                protect_from=pf)))
    for prod in (["NTAG213", "MF0UL21"] if quick else prods):
        for nak in ("byte", "timeout"):
            parts.append(dict(name="ntag-history:%s:%s" % (prod, nak), fn="ntag_history",
                              params=dict(product=prod, calls=2 if quick else 3, nak_as=nak)))
            parts.append(dict(name="ntag-history:%s:%s:concrete-keys" % (prod, nak), fn="ntag_history",
                              params=dict(product=prod, calls=3, nak_as=nak, concrete=True)))
    for prod in (["NTAG213", "MF0UL11"] if quick else prods):
        for plen in (0, 6, 8):
            for tlen in (0, 1, 2, 3):
                parts.append(dict(
                    name="ntag-tamper:%s:%d:%d" % (prod, plen, tlen),
                    fn="ntag_tamper",
                    params=dict(product=prod, plen=plen, tlen=tlen,
                                nak_as="timeout")))
    # ---- FeliCa Lite / Lite-S
    for lite_s in (0, 1):
        for plen in ([0, 5, 16, 17, 23, 24, 32] if quick else
                     [0, 1, 15, 16, 17, 20, 23, 24, 25, 32, 40]):
            if quick and lite_s and plen in (17, 23, 32):
                continue    # Lite-S shares _authenticate; 0,5,16,24 there
            parts.append(dict(name="lite-auth:%d:%d" % (lite_s, plen),
                              fn="lite_authenticate",
                              params=dict(lite_s=lite_s, plen=plen)))
    reads = [(0, [0]), (0, [3, 4]), (0, [0, 1, 2]), (0, [0x82]), (1, [5]),
             (1, [0x92])]
    if not quick:
        reads += [(0, [13]), (0, [14, 0]), (0, [2, 2]), (1, [0, 1]),
                  (1, [1, 2, 3]), (1, [0x82, 0x92])]
    for lite_s, blocks in reads:
        for mode in ("none", "payload", "header", "short", "long"):
            if quick and mode in ("header", "short", "long") and \
                    (lite_s or len(blocks) > 1):
                continue
            if quick and mode == "none" and len(blocks) > 1:
                continue    # "payload" includes the untouched response
            parts.append(dict(
                name="lite-read:%d:%s:%s" % (lite_s, "+".join("%02x" % b for b in blocks), mode),
                fn="lite_read", params=dict(lite_s=lite_s, blocks=blocks, mode=mode)))
    for lite_s, which in ((0, 2), (1, 2), (1, 3), (1, 5)):
        parts.append(dict(name="lite-auth-tamper:%d:%d" % (lite_s, which),
                          fn="lite_auth_tamper",
                          params=dict(lite_s=lite_s, which=which)))
    for block in ([5] if quick else [0, 5, 13, 14]):
        for t in (0, 1):
            parts.append(dict(name="lites-write:%d:%d" % (block, t),
                              fn="lites_write",
                              params=dict(block=block, tamper_wcnt=t)))
    for lite_s, blk in ([(0, 1), (1, None)] if quick else
                        [(0, 1), (0, None), (1, None), (1, 3)]):
        parts.append(dict(name="lite-replay:%d:%s" % (lite_s, blk),
                          fn="lite_replay",
                          params=dict(lite_s=lite_s, read_block=blk)))
    for lite_s, good in ([(0, 0), (0, 1), (1, 0), (1, 1)]):
        parts.append(dict(name="lite-forged:%d:%d" % (lite_s, good),
                          fn="lite_forged_after_failed",
                          params=dict(lite_s=lite_s, prior_good=good,
                                      blocks=[1] if quick or lite_s else [1, 2])))
    # (on the unchanged tree four data blocks are one command, which the
    # real tag refuses: cheap; the lenient tag and the other sizes cost many
    # cipher calls and run in the thorough tier)
    multi = [(0, [1, 2, 3, 4], 0)]
    if not quick:
        multi += [(0, [1, 2, 3, 4], 1), (0, [1], 0), (0, [1, 2], 1), (0, [1, 2, 3], 0), (0, [1, 2, 3, 4, 5], 0),
                  (0, [1, 2, 3, 4, 5], 1), (0, [1, 2, 3, 4, 5, 6], 1),
                  (1, [1, 2, 3, 4], 0), (1, [1, 2, 3, 4], 1)]
    for lite_s, blocks, lenient in multi:
        parts.append(dict(name="lite-multi:%d:%d:%s" % (lite_s, len(blocks),
                                                       "lenient" if lenient else "strict"),
                          fn="lite_read_multi",
                          # (the Ackermann constraints of 5-6 block reads make single
                          # queries run for a minute and more on a loaded machine)
                          max_path_time=900,
                          params=dict(lite_s=lite_s, blocks=blocks, lenient=lenient)))
    for lite_s in (0, 1):
        parts.append(dict(name="lite-ndef-tamper:%d" % lite_s,
                          fn="lite_ndef_tamper", params=dict(lite_s=lite_s)))
    prot = [(0, "bytes", 0, 16, 1), (0, "bytes", 16, 0, 1), (0, "bytearray", 16, 16, 14),
            (0, "bytes", 18, 17, 0), (0, "bytes", 7, 16, 1),
            (1, "bytes", 16, 16, 1), (1, "bytes", 0, 16, 1), (1, "str", 16, 16, 1),
            (1, "str", 19, 0, 14), (1, "str", 5, 16, 1),
            # "the first 16 bytes are the key": longer passwords
            (0, "bytes", 24, 16, 1), (0, "bytes", 32, 24, 1),
            (0, "bytearray", 17, 23, 1), (0, "bytes", 23, 32, 14),
            (1, "bytes", 24, 24, 1)]
    if not quick:
        prot += [(0, "bytes", 0, 0, 14), (0, "bytearray", 20, 16, 5),
                 (0, "bytes", 16, 16, 0), (0, "bytes", 15, 16, 1),
                 (1, "bytearray", 16, 16, 1), (1, "bytes", 0, 0, 14),
                 (1, "str", 16, 17, 0), (1, "str", 16, 16, 5),
                 (0, "bytes", 25, 24, 1), (0, "bytes", 40, 16, 0),
                 (1, "bytes", 32, 23, 1), (1, "bytearray", 23, 24, 14),
                 (1, "bytes", 17, 40, 1), (1, "bytes", 0, 32, 1)]
    for lite_s, pwtype, plen, qlen, pf in prot:
        parts.append(dict(
            name="lite-protect:%d:%s:%d:%d:%d" % (lite_s, pwtype, plen, qlen, pf),
            fn="lite_protect", params=dict(lite_s=lite_s, plen=plen, qlen=qlen,
                                           protect_from=pf, pwtype=pwtype)))
    # the cipher partitions are the long ones: start them first
    parts.sort(key=lambda p: (0 if p['fn'] in ("lite_read", "lite_read_multi") else
                              1 if p['fn'].startswith("lite") else 2))
    return parts


_REACH = [
    "ntag:key-replaced-between-calls", "ntag:same-password-again", "ntag:tag-gone-before-last-call",
    "ntag:authenticated", "ntag:refused", "ntag:short-password-rejected",
    "ntag:protect-short-password-rejected", "ntag:protected",
    "ntag:second-accepted", "ntag:second-refused", "ntag:pack-answer-replaced",
    "lite:authenticated", "lite:refused", "lite:short-password-rejected",
    "lites:authenticated", "lites:refused", "lites:short-password-rejected",
    "lite:read-returned", "lite:read-refused", "lite:malformed-response-refused",
    "lites:read-returned", "lites:read-refused",
    "lite:tampered-authenticated", "lite:tampered-refused",
    "lites:tampered-authenticated", "lites:tampered-refused",
    "lites:tampered-wcnt-refused-by-tag",
    "lite:ndef-read-with-mac", "lites:ndef-read-with-mac",
    "lite:protected", "lite:second-accepted", "lite:second-refused",
    "lite:protect-short-password-rejected",
    "lites:protected", "lites:second-accepted", "lites:second-refused",
    "lites:written", "lites:write-refused",
    "lite:replay-refused", "lites:replay-refused",
    "lite:no-session-after-failed-authentication", "lite:forged-read-refused",
    "lites:no-session-after-failed-authentication", "lites:forged-read-refused",
    "lite:too-many-blocks-refused-by-tag",
]
MUST_REACH = {
    "quick": _REACH + ["ntag:history-with-concrete-keys"],
    "thorough": _REACH + ["lite:multi-read-returned", "lite:multi-read-refused",
                          "lite:multi-read-data-block-replaced"],
}
BOUNDS = {
    "quick": "NTAG210/212/213/215/216 and Ultralight EV1 MF0UL11/H11/21/H21: "
    "authenticate(p) with password lengths {0,3,6,9}, bytes and bytearray, all "
    "2^48 stored PWD||PACK x all password bytes, NAK surfaced as time-out or "
    "as NAK byte; protect(p) (lengths 0,3,6,8; read_protect x protect_from in "
    "{0,4,300}; arbitrary old PWD/PACK, CC page and CFG1) followed by "
    "authenticate(q) (lengths 0,6,7), all p,q; histories of 3 authenticate() calls with passwords and tag keys from two concrete values; histories of 2 (thorough 3) authenticate() calls through one tag object with the tag's key replaced between the calls or not and the same or another password; PACK answer replaced in transit "
    "by 0..3 arbitrary bytes.  FeliCa Lite and Lite-S over the ideal cipher: "
    "authenticate(p) for all 2^128 card keys x all passwords of length "
    "{0,5,16,17,23,24,32} x all challenges x all ID blocks (Lite-S: all write counters); "
    "read_with_mac of 1..3 blocks {0},{3,4},{0,1,2},{ID} (Lite-S {5},{STATE}) "
    "with all block contents, the response untouched / data+MAC blocks "
    "replaced by arbitrary bytes / one header byte replaced / one byte short "
    "or long; the payload of the 2nd (Lite, Lite-S), 3rd and 5th (Lite-S) "
    "response inside authenticate() replaced by arbitrary bytes; two-step "
    "history on one tag object: authenticate (+read_with_mac) against the "
    "genuine tag, then authenticate against a key-less counterfeit replaying "
    "the recorded responses (Lite with a read, Lite-S), every authenticate() "
    "writes the fresh os.urandom output as RC; after a failed "
    "authenticate(q) (with and without an earlier good session) a read "
    "answered by a counterfeit holding the key of q and the observed "
    "challenge, arbitrary data: not returned; read_with_mac(1,2,3,4) against "
    "the real 4-blocks-per-command limit with one block of any response "
    "replaced; Lite-S "
    "write_with_mac of arbitrary data to block 5 (all write counters) with the "
    "tag model verifying MAC_A/WCNT, untouched and with the write counter "
    "read replaced in transit; tag.ndef "
    "after authentication with the MAC replaced; protect(p) then "
    "authenticate(p) and authenticate(q) for password lengths "
    "0,7,16,17,18,23,24,32 (Lite-S also str passwords); authenticate password "
    "lengths {0,5,16,17,23,24,32} (Lite-S {0,5,16,24})",
    "thorough": "as quick with password lengths {0,1,5,6,7,16} (NTAG) / "
    "{0,1,15,16,17,20,23,24,25,32,40} (FeliCa), protect_from in {0,3,4,255,300} x "
    "read_protect, PACK tampering on every product, read_with_mac block sets "
    "{13},{REG,0},{2,2} and Lite-S {0,1},{1,2,3},{ID,STATE} in all five "
    "tamper modes, write_with_mac to blocks 0,5,13,REG, more protect combinations; "
    "read_with_mac of 1..6 blocks against the real tag limit and a lenient tag "
    "(up to 15 blocks per command), one 16-byte block of one response replaced",
}
OUTSIDE = [
    "the DES / triple-DES computation itself (pyDes): replaced by an "
    "uninterpreted collision-free block cipher in both modes",
    "cryptographic strength: substitutions of several 8-byte halves computed "
    "from intermediate cipher values, key search, replay of old challenges",
    "MIFARE Ultralight C 3DES authentication (decrypt direction, not part of "
    "the property's tag list)",
    "enforcement of AUTH0/PROT/AUTHLIM and lock bits by the NTAG chip, "
    "read/write permission bits of the FeliCa Lite MC block for user blocks",
    "loss of a response / RF errors during authentication (retry behaviour is C16)",
    "passwords of type str (Python 3) except FelicaLiteS.protect, which only "
    "works with str",
    "FeliCa Lite-S MAC_A for reads (nfcpy reads with the Lite-compatible MAC block)",
]
ASSUMPTIONS = [
    "env.idealcipher.IdealCipher stands in for pyDes.triple_des (module "
    "attribute of nfc.tag.tt3_sony) in symbolic AND native mode: E(key,block) "
    "is an arbitrary function without collisions over all calls of a run; CBC "
    "chaining is done by the stub as pyDes does; the DES computation is not covered",
    "os.urandom in nfc.tag.tt3_sony is replaced by a source of symbolic bytes "
    "(the challenge is universally quantified); successive outputs are "
    "assumed pairwise different (fails with probability 2^-128 per pair)",
    "env.tt3lite_sim.Replayer: a counterfeit without key answers a command "
    "with the genuine tag's last recorded response to the same command code "
    "and block list, silent otherwise",
    "env.tt3lite_sim.LiteSim is the independent reading of the FeliCa Lite / "
    "Lite-S manuals (session key, MAC, MAC_A, WCNT, STATE); with real 3DES it "
    "reproduces the four MAC vectors recorded in tests/test_tag_tt3_sony.py",
    "env.tt2nxp_sim.NxpSim is the reading of the NTAG21x / MF0ULx1 data sheets "
    "(PWD_AUTH answers PACK iff PWD matches, otherwise NAK and the tag is mute "
    "until sensed again; PWD/PACK read back as zero)",
    "key derivation taken from the documentation of protect()/authenticate(): "
    "NTAG first 4 bytes PWD, next 2 PACK, empty = FFFFFFFF 0000; FeliCa first "
    "16 bytes, empty = 16 zero bytes, stored as two little-endian halves",
    "'modification detected' is claimed for: MAC modified with data untouched, "
    "and exactly one 8-byte half of the data modified with the rest and the "
    "MAC untouched; in general for 'data is returned iff the received MAC "
    "equals the tag model's MAC over the received data'",
]
