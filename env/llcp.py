"""Environment model for the LLCP link-layer harnesses (C05, C10, C17).

Replaces what the *environment* gives to nfc.llcp.llc / nfc.llcp.tco:

* `threading.Condition`: the same class, except that `wait()` without a
  time-out - "this application thread would now sleep until the link thread
  notifies it" - raises `WouldBlock`, and `wait(timeout)` returns False at
  once (virtual time-out).  Everything done before the wait (PDU queued,
  state changed) stays done, exactly as while a real thread sleeps there.
  `while_waiting(fn)` lets one such call continue: fn (the link exchange)
  runs inside the wait, then the call resumes.
* `random.choice` (transaction id of a service discovery request): the first
  element, deterministic in both modes.

No nfc source line is changed; the module globals `threading` and `random` of
the two modules are re-bound (like the virtual clock in symx.envpatch).
"""
import sys
import types
import threading as _threading


class WouldBlock(Exception):
    """a blocking call reached Condition.wait() without time-out"""


class WhileWaiting(object):
    """one-shot hook: what the rest of the system (the link thread, the
    peer) does while the next blocking call sleeps.  With a hook set, the
    next wait() without time-out runs it and then returns as if notified -
    one legal schedule of "application thread sleeps, link thread runs" -
    so the code *after* the wait (e.g. the CC handling of connect()) is
    executed.  Without a hook wait() raises WouldBlock as before."""
    fn = None


def while_waiting(fn):
    WhileWaiting.fn = fn


class EventCondition(_threading.Condition):
    def wait(self, timeout=None):
        if timeout is None:
            fn, WhileWaiting.fn = WhileWaiting.fn, None
            if fn is None:
                raise WouldBlock()
            fn()
            return True
        return False

    def wait_for(self, predicate, timeout=None):
        r = predicate()
        if r:
            return r
        if timeout is None:
            raise WouldBlock()
        return r


class DetRandom(object):
    def choice(self, seq):
        return seq[0]


def _shim():
    ns = types.SimpleNamespace()
    for k in dir(_threading):
        if not k.startswith("__"):
            setattr(ns, k, getattr(_threading, k))
    ns.Condition = EventCondition
    return ns


THREADING = _shim()
RANDOM = DetRandom()


def install():
    """idempotent; call at harness import (both modes)"""
    import nfc.llcp.tco as tco
    import nfc.llcp.llc as llc
    tco.threading = THREADING
    llc.threading = THREADING
    llc.random = RANDOM


def blocks(fn, *args, **kw):
    """-> ('ok', result) | ('block', None); nfc.llcp.Error propagates"""
    try:
        return 'ok', fn(*args, **kw)
    except WouldBlock:
        return 'block', None
